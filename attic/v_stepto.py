"""V-stepto: StepToI64Iterator (crates/runtime/src/core_lib/number/step_to.rs), the iterator behind `a.step_to b, step`:
no arithmetic of it can overflow for any i64 (finding F51), and it yields start, start + s, .. up to the last value that
does not pass the target, from either end.

Contracts only. Function bodies come from /repo at run time.
"""
from engine.unit import Fn, Raw, Type, Unit

F = "crates/runtime/src/core_lib/number/step_to.rs"
P = ("C13", "C06")

PRELUDE = r"""
global size_of usize == 8;   // assumption: 64-bit target
// what is yielded: an integer as a Koto value (`result.into()`), rule R5
#[verifier::external_body] struct KIteratorOutput { _p: u8 }
uninterp spec fn int_output(n: i64) -> KIteratorOutput;
#[verifier::external_body] fn output_of(n: i64) -> (r: KIteratorOutput) ensures r == int_output(n) { unimplemented!() }
// std: i128::abs (no overflow here: the argument is a difference of two i64), i128::min, i64::wrapping_sub (rule R5)
fn i128_abs(x: i128) -> (r: i128) requires x > i128::MIN ensures r == (if x < 0 { -x } else { x as int }) { if x < 0 { -x } else { x } }
fn i128_min(a: i128, b: i128) -> (r: i128) ensures r == (if a < b { a } else { b }) { if a < b { a } else { b } }
#[verifier::external_body] fn i64_wrapping_sub(a: i64, b: i64) -> (r: i64) ensures (i64::MIN <= a - b <= i64::MAX) ==> r == a - b { unimplemented!() }
"""

SPECS = r"""
    // the state: `target` is the last value that will be yielded, `steps_to_target` how many steps before it the front is
    // (-1: exhausted); the signed step is never 0 and the front value is an i64
    spec fn wf(&self) -> bool {
        &&& -1 <= self.steps_to_target < i64::MAX && self.step_by != 0 && self.step_by > i64::MIN
        &&& (self.steps_to_target >= 0 ==> i64::MIN <= self.target - self.step_by * self.steps_to_target <= i64::MAX)
    }
    // the values still to come, front to back
    spec fn remaining(&self) -> Seq<int> { Seq::new((self.steps_to_target + 1) as nat, |k: int| self.target - self.step_by * (self.steps_to_target - k)) }
"""

SUBST = [("Option<Self::Item>", "Option<KIteratorOutput>", None),
         ("Some(KIteratorOutput::Value(result.into()))", "Some(output_of(result))", None),
         (".abs()", ".abs__()", None)]

UNIT = Unit(
    name="V-stepto",
    prelude=PRELUDE,
    items=[
        Type(F, "struct StepToI64Iterator"),
        Raw(SPECS, impl_of="impl StepToI64Iterator"),
        Fn(F, "impl StepToI64Iterator :: fn new", props=P,
           subst=[("(target as i128 - start as i128).abs()", "i128_abs(target as i128 - start as i128)", 1),
                  ("(distance / step_by as i128).min(i64::MAX as i128 - 1) as i64", "i128_min(distance / step_by as i128, i64::MAX as i128 - 1) as i64", 1)],
           before=[("let step_by = if target < start", """proof {
    assert(0 <= distance / (step_by as i128) <= distance) by (nonlinear_arith) requires distance >= 0, step_by >= 1;
    assert((step_by as int) * (distance / (step_by as i128)) as int <= distance) by (nonlinear_arith) requires distance >= 0, step_by >= 1;
    assert((step_by as int) * (steps_to_target as int) <= (step_by as int) * ((distance / (step_by as i128)) as int)) by (nonlinear_arith) requires step_by >= 1, 0 <= steps_to_target <= distance / (step_by as i128);
}""")],
           spec=r"""
    requires step_by >= 1,   // the caller rejects a step that is not positive (number.rs: "the step size must be greater than zero")
    ensures
        r.wf(),
        // C13: the first value is `start`, the values move towards the target by `step_by` and never pass it
        r.steps_to_target >= 0 && r.remaining()[0] == start,                                                                              // @starts_at_start
        r.step_by == (if target < start { -step_by } else { step_by as int }),
        (if target < start { target <= r.target <= start } else { start <= r.target <= target }),                                         // @never_passes_the_target
"""),
        Fn(F, "impl Iterator for StepToI64Iterator :: fn next", props=P, impl_as="impl StepToI64Iterator", subst=SUBST,
           before=[("let result =", """proof {
    assert(i64::MIN * i64::MAX <= (self.step_by as int) * (self.steps_to_target as int) <= i64::MIN * i64::MIN) by (nonlinear_arith) requires i64::MIN <= self.step_by <= i64::MAX, 0 <= self.steps_to_target <= i64::MAX;
}""")],
           spec=r"""
    requires old(self).wf(),
    ensures
        final(self).wf(), final(self).target == old(self).target, final(self).step_by == old(self).step_by,
        old(self).remaining().len() > 0 ==> r == Some(int_output(old(self).remaining()[0] as i64)) && final(self).remaining() =~= old(self).remaining().drop_first(),   // @yields_front
        old(self).remaining().len() == 0 ==> r is None && final(self).remaining() =~= old(self).remaining(),                              // @none_when_exhausted
"""),
        Fn(F, "impl KotoIterator for StepToI64Iterator :: fn next_back", props=P, impl_as="impl StepToI64Iterator",
           subst=[("Some(KIteratorOutput::Value(result.into()))", "Some(output_of(result))", None),
                  ("self.target.wrapping_sub(self.step_by)", "i64_wrapping_sub(self.target, self.step_by)", 1)],
           before=[("let result = self.target;", "let ghost t0 = self.target as int; let ghost s0 = self.step_by as int; let ghost n0 = self.steps_to_target as int;"),
                   ("self.steps_to_target -= 1;", """proof {
    // one step back from the last value is still at or after the front value, unless the last value WAS the front value
    if n0 >= 1 {
        let front = t0 - s0 * n0;
        assert(s0 * n0 == s0 * (n0 - 1) + s0) by (nonlinear_arith);
        assert(s0 > 0 ==> s0 * (n0 - 1) >= 0) by (nonlinear_arith) requires n0 >= 1;
        assert(s0 < 0 ==> s0 * (n0 - 1) <= 0) by (nonlinear_arith) requires n0 >= 1;
    }
}""")],
           spec=r"""
    requires old(self).wf(),
        // the last value is an i64 by construction; it lies between the front value and itself
        old(self).steps_to_target >= 0 ==> (if old(self).step_by > 0 { old(self).target - old(self).step_by * old(self).steps_to_target <= old(self).target } else { old(self).target <= old(self).target - old(self).step_by * old(self).steps_to_target }),
    ensures
        final(self).wf(), final(self).step_by == old(self).step_by,
        // C13: from the back: the last remaining value, and the rest is the same sequence without it
        old(self).remaining().len() > 0 ==> r == Some(int_output(old(self).remaining().last() as i64)) && final(self).remaining() =~= old(self).remaining().drop_last(),   // @yields_back
        old(self).remaining().len() == 0 ==> r is None && final(self).remaining() =~= old(self).remaining(),                              // @none_when_exhausted
"""),
        Fn(F, "impl Iterator for StepToI64Iterator :: fn size_hint", props=P, impl_as="impl StepToI64Iterator",
           spec=r"""
    requires self.wf(),
    ensures r.0 == self.remaining().len() && r.1 == Some(r.0),                                                                           // @exact_size
"""),
    ],
    epilogue=r"""
// ---- vacuity guard: MUST FAIL
proof fn canary_stepto(it: StepToI64Iterator) requires it.wf(), it.remaining().len() > 2 ensures false {}
""",
    canaries=("canary_stepto",),
)
