#!/bin/sh
# Offline setup: nothing to fetch. Warm the Verus cache and (later) the Kani build.
set -e
cd /verif
mkdir -p .build evidence replays
exit 0
