#!/bin/sh
# Offline setup: nothing is fetched. Warms the Kani build of koto's crates so that the quick
# checks only rebuild what changed.
cd /verif || exit 1
mkdir -p .build evidence replays
python3 -c "import sys; sys.path.insert(0, '/verif'); from engine import kani_run; kani_run.prepare(kani_run.crate_dir())" || true
( cd kani && CARGO_NET_OFFLINE=true CARGO_TARGET_DIR=/verif/.build/kani-target timeout 1500 cargo kani --only-codegen >/verif/.build/setup-kani.log 2>&1 )
( cd kani && CARGO_NET_OFFLINE=true CARGO_TARGET_DIR=/verif/.build/replay-target timeout 900 cargo build --offline --bin replay >/verif/.build/setup-replay.log 2>&1 )
exit 0
