"""Run Kani harnesses on the real crates, classify, and replay counterexamples."""
import json
import os
import re
import shutil
import subprocess
import time

ROOT = os.path.dirname(os.path.dirname(os.path.abspath(__file__)))
BUILD = os.environ.get("VERIF_BUILD", os.path.join(ROOT, ".build"))
REPO = os.environ.get("VERIF_REPO", "/repo")
KANI_DIR = os.path.join(ROOT, "kani")
REPLAYS = os.path.join(ROOT, "replays")

# CBMC float checks that Kani switches on; they flag NaN/inf *results*, which
# are not panics in Rust and not part of any property.
NOT_A_FAILURE = re.compile(r"^(NaN on |arithmetic overflow on floating-point )")


def crate_dir():
    """The harness crate has absolute path deps on /repo; for a scratch repo
    (selftest) a copy with rewritten paths is used."""
    if REPO == "/repo":
        return KANI_DIR
    d = os.path.join(BUILD, "kani-crate")
    if os.path.exists(d):
        shutil.rmtree(d)
    shutil.copytree(KANI_DIR, d, ignore=shutil.ignore_patterns("target"))
    p = os.path.join(d, "Cargo.toml")
    s = open(p).read().replace('path = "/repo/', 'path = "%s/' % REPO)
    open(p, "w").write(s)
    return d


def env():
    e = dict(os.environ)
    e["CARGO_NET_OFFLINE"] = "true"
    e["CARGO_TARGET_DIR"] = os.path.join(BUILD, "kani-target")
    return e


def prepare(cdir):
    lock = os.path.join(REPO, "Cargo.lock")
    if os.path.exists(lock):
        shutil.copy(lock, os.path.join(cdir, "Cargo.lock"))
    # rule R9: function-local macros of /repo extracted into src/generated.rs on every run
    from . import macrofn

    text, meta = macrofn.generate()
    gp = os.path.join(cdir, "src", "generated.rs")
    old = open(gp).read() if os.path.exists(gp) else None
    if old != text:
        with open(gp, "w") as f:
            f.write(text)
    with open(os.path.join(BUILD, "generated_meta.json"), "w") as f:
        json.dump(meta, f, indent=1)


def parse_terse(out):
    """-> {harness: {status, failed:[desc], time}}"""
    res = {}
    cur = {}  # thread -> harness
    thread = None
    for ln in out.split("\n"):
        m = re.match(r"^Thread (\d+): Checking harness (\S+?)\.\.\.", ln)
        if m:
            cur[m.group(1)] = m.group(2)
            res.setdefault(m.group(2), {"status": None, "failed": [], "time": None, "notes": []})
            continue
        m = re.match(r"^Checking harness (\S+?)\.\.\.", ln)
        if m:
            cur["0"] = m.group(1)
            thread = "0"
            res.setdefault(m.group(1), {"status": None, "failed": [], "time": None, "notes": []})
            continue
        m = re.match(r"^Thread (\d+):\s*$", ln)
        if m:
            thread = m.group(1)
            continue
        if thread is None or thread not in cur:
            continue
        h = res[cur[thread]]
        m = re.match(r"^Failed Checks: (.*)$", ln)
        if m:
            h["failed"].append(m.group(1).strip())
            continue
        m = re.match(r"^VERIFICATION:- (\w+)", ln)
        if m:
            h["status"] = m.group(1)
            continue
        m = re.match(r"^Verification Time: ([0-9.]+)s", ln)
        if m:
            h["time"] = float(m.group(1))
            continue
        if re.search(r"CBMC timed out|CBMC failed|out of memory|Killed|unwinding assertion", ln):
            h["notes"].append(ln.strip())
    return res


def run_kani(harnesses, timeout_s=300, jobs=12, extra=()):
    cdir = crate_dir()
    try:
        prepare(cdir)
    except Exception as e:  # lost anchor in a macro (rule R9): undecided, never an alarm
        return {}, "extraction failed: %s" % e, -2, "(not run)", 0.0
    cmd = ["cargo", "kani", "-Z", "unstable-options", "--harness-timeout", "%ds" % timeout_s, "-j", str(jobs), "--output-format=terse", "-Z", "function-contracts", "-Z", "stubbing"]
    for h in harnesses:
        cmd += ["--harness", h]
    cmd += list(extra)
    t0 = time.time()
    try:
        p = subprocess.run(cmd, cwd=cdir, env=env(), capture_output=True, text=True, timeout=timeout_s * (1 + len(harnesses) // max(1, jobs)) + 900)
        out = p.stdout + "\n" + p.stderr
        rc = p.returncode
    except subprocess.TimeoutExpired as e:
        out = (e.stdout or b"").decode() if isinstance(e.stdout, bytes) else (e.stdout or "")
        rc = -1
    return parse_terse(out), out, rc, " ".join(cmd), time.time() - t0


def playback(harness, timeout_s=300):
    """Re-run one failing harness with concrete playback; returns list of byte vectors or None."""
    cdir = crate_dir()
    cmd = ["cargo", "kani", "-Z", "unstable-options", "--harness-timeout", "%ds" % timeout_s, "-Z", "function-contracts", "-Z", "stubbing", "-Z", "concrete-playback", "--concrete-playback=print", "--harness", harness]
    try:
        p = subprocess.run(cmd, cwd=cdir, env=env(), capture_output=True, text=True, timeout=timeout_s + 600)
    except subprocess.TimeoutExpired:
        return None, "playback timed out"
    out = p.stdout
    m = re.search(r"let concrete_vals: Vec<Vec<u8>> = vec!\[(.*?)\];", out, re.S)
    if not m:
        return None, out[-3000:]
    vals = []
    for vm in re.finditer(r"vec!\[([0-9,\s]*)\]", m.group(1)):
        nums = [int(x) for x in re.findall(r"\d+", vm.group(1))]
        vals.append(nums)
    return vals, m.group(0)


def build_replay():
    cdir = crate_dir()
    prepare(cdir)
    e = env()
    e["CARGO_TARGET_DIR"] = os.path.join(BUILD, "replay-target")
    p = subprocess.run(["cargo", "build", "--offline", "--bin", "replay"], cwd=cdir, env=e, capture_output=True, text=True, timeout=1800)
    if p.returncode != 0:
        return None, p.stderr[-3000:]
    return os.path.join(e["CARGO_TARGET_DIR"], "debug", "replay"), ""


def replay(harness, vals):
    binp, err = build_replay()
    if not binp:
        return {"outcome": "replay-build-failed", "detail": err}
    args = [binp, harness] + [("".join("%02x" % b for b in v) or "-") for v in vals]
    try:
        p = subprocess.run(args, capture_output=True, text=True, timeout=120)
    except subprocess.TimeoutExpired:
        return {"outcome": "replay-timeout", "cmd": " ".join(args)}
    line = [ln for ln in p.stdout.split("\n") if ln.startswith("REPLAY")]
    return {"outcome_line": line[0] if line else p.stdout[-500:] + p.stderr[-500:], "exit": p.returncode, "cmd": " ".join(args)}


def load_groups():
    from contracts import kani_groups

    return kani_groups.GROUPS


def short(h):
    return h.split("::")[-1]


def run_groups(group_names, prop, tier, seed):
    """Returns list of result dicts shaped for driver.check_property."""
    groups = load_groups()
    results = []
    for gname in group_names:
        g = groups[gname]
        hs = [h for h in g["harnesses"] if prop in h.get("props", [prop]) and (tier == "thorough" or not h.get("thorough_only"))]
        names = [h["name"] for h in hs]
        tmo = g.get("timeout_thorough", 900) if tier == "thorough" else g.get("timeout_quick", 300)
        parsed, out, rc, cmd, wall = run_kani(names, timeout_s=tmo)
        r = {"summary": {"unit": gname, "back_end": "kani+cbmc", "cmd": cmd, "wall_s": round(wall, 1), "harnesses": []}, "assumptions": list(g.get("assumptions", [])), "undecided": [], "obligations": 0, "discharged": 0, "bounded": [], "samples": [], "violations": [], "solver_ms": 0}
        byshort = {short(k): v for k, v in parsed.items()}
        for h in hs:
            pr = byshort.get(h["name"])
            oname = "%s::%s" % (gname, h["name"])
            row = {"obligation": oname, "bound": h.get("bound"), "functions": h.get("functions")}
            if pr is None or pr["status"] is None:
                r["undecided"].append("%s: no verdict from Kani (build error or crash)" % oname)
                row["verdict"] = "undecided"
                r["summary"]["harnesses"].append(row)
                continue
            real_fail = [f for f in pr["failed"] if not NOT_A_FAILURE.search(f)]
            row["time_s"] = pr["time"]
            r["solver_ms"] += int((pr["time"] or 0) * 1000)
            timed_out = any("timed out" in n or "CBMC failed" in n for n in pr["notes"]) and not pr["failed"]
            if timed_out or (pr["status"] == "FAILED" and not pr["failed"]):
                r["undecided"].append("%s: %s" % (oname, "; ".join(pr["notes"]) or "FAILED without failed checks"))
                row["verdict"] = "undecided"
                r["summary"]["harnesses"].append(row)
                continue
            if any("unwinding assertion" in f for f in real_fail):
                r["undecided"].append("%s: unwinding assertion failed (bound too small)" % oname)
                row["verdict"] = "undecided"
                r["summary"]["harnesses"].append(row)
                continue
            is_bounded = bool(h.get("bound"))
            if not is_bounded:
                r["obligations"] += 1
            if not real_fail:
                row["verdict"] = "ok"
                if is_bounded:
                    r["bounded"].append({"harness": oname, "bound": h["bound"], "verdict": "ok"})
                else:
                    r["discharged"] += 1
                r["samples"].append(oname)
            else:
                row["verdict"] = "fail"
                row["failed_checks"] = real_fail
                if is_bounded:
                    r["bounded"].append({"harness": oname, "bound": h["bound"], "verdict": "fail"})
                # counterexample + replay on the real code
                vals, raw = playback(h["name"], tmo)
                rep = replay(h["name"], vals) if vals is not None else {"outcome": "no-playback", "detail": raw}
                os.makedirs(REPLAYS, exist_ok=True)
                for fc in sorted(set(real_fail)):
                    lab = re.sub(r"[^A-Za-z0-9]+", "_", fc)[:60].strip("_")
                    on = "%s::%s" % (oname, lab)
                    path = os.path.join(REPLAYS, "%s__%s.json" % (prop, on.replace("::", "__")))
                    reproduced = rep.get("exit") == 1
                    with open(path, "w") as f:
                        json.dump({"property": prop, "unit": gname, "back_end": "kani", "failed_obligation": on, "failed_check": fc, "harness": h["name"], "functions": h.get("functions"), "kani_cmd": cmd, "concrete_values": vals, "replay": rep, "reproduced_on_real_code": reproduced}, f, indent=1)
                    tail = "" if reproduced else "no-failing-input-found"
                    r["violations"].append((on, path, tail))
            r["summary"]["harnesses"].append(row)
        results.append(r)
    return results
