"""Mechanical extractor: /repo source text -> Verus unit file.

The extractor copies item text verbatim from the current working tree of /repo
and applies only the rewrite rules R1..R9 documented in DESIGN.md section 2.1.
Every rule counts its hits; a missing anchor or an unexpected hit count raises
ExtractError, which the driver maps to exit status 2 (undecided), never to a
VIOLATION.
"""
import hashlib
import re


class ExtractError(Exception):
    pass


# --------------------------------------------------------------------------
# lexical masking


def mask(src):
    """Return a string of the same length as `src` in which the contents of
    comments, string literals and char literals are replaced by spaces
    (newlines are kept). String delimiters are kept so tokens do not merge."""
    out = list(src)
    n = len(src)
    i = 0

    def blank(a, b):
        for k in range(a, b):
            if out[k] != "\n":
                out[k] = " "

    while i < n:
        c = src[i]
        if c == "/" and i + 1 < n and src[i + 1] == "/":
            j = src.find("\n", i)
            if j < 0:
                j = n
            blank(i, j)
            i = j
        elif c == "/" and i + 1 < n and src[i + 1] == "*":
            depth = 1
            j = i + 2
            while j < n and depth > 0:
                if src.startswith("/*", j):
                    depth += 1
                    j += 2
                elif src.startswith("*/", j):
                    depth -= 1
                    j += 2
                else:
                    j += 1
            blank(i, j)
            i = j
        elif c == '"' or (
            c in "rb"
            and re.match(r'(?:br|rb|r|b)#*"', src[i : i + 12])
            and (i == 0 or not (src[i - 1].isalnum() or src[i - 1] == "_"))
        ):
            m = re.match(r'(br|rb|r|b)?(#*)"', src[i : i + 12])
            prefix = m.group(1) or ""
            hashes = m.group(2)
            start = i + m.end()
            if "r" in prefix:
                close = '"' + hashes
                j = src.find(close, start)
                if j < 0:
                    raise ExtractError("unterminated raw string")
                blank(start, j)
                i = j + len(close)
            else:
                j = start
                while j < n and src[j] != '"':
                    if src[j] == "\\":
                        j += 1
                    j += 1
                blank(start, j)
                i = j + 1
        elif c == "'":
            # char literal or lifetime
            if i + 1 < n and src[i + 1] == "\\":
                j = i + 2
                while j < n and src[j] != "'":
                    j += 1
                blank(i + 1, j)
                i = j + 1
            elif i + 2 < n and src[i + 2] == "'":
                blank(i + 1, i + 2)
                i += 3
            else:
                i += 1  # lifetime
        else:
            i += 1
    return "".join(out)


def match_close(m, open_idx, open_ch="{", close_ch="}"):
    depth = 0
    for k in range(open_idx, len(m)):
        ch = m[k]
        if ch == open_ch:
            depth += 1
        elif ch == close_ch:
            depth -= 1
            if depth == 0:
                return k
    raise ExtractError("unbalanced %s at %d" % (open_ch, open_idx))


def depth_positions(m, lo, hi):
    """Yield (index, brace_depth) for every index in [lo, hi) of masked text."""
    depth = 0
    for k in range(lo, hi):
        ch = m[k]
        if ch == "}":
            depth -= 1
        yield k, depth
        if ch == "{":
            depth += 1


def norm_ws(s):
    return re.sub(r"\s+", " ", s).strip()


# --------------------------------------------------------------------------
# item location


class SourceFile:
    def __init__(self, path, text):
        self.path = path
        self.text = text
        self.m = mask(text)

    def _depth0_matches(self, regex, lo, hi):
        """All matches of `regex` in masked text within [lo,hi) at brace depth 0
        relative to lo."""
        res = []
        depth_at = {}
        depth = 0
        # precompute depth only at match starts
        starts = [mm for mm in regex.finditer(self.m, lo, hi)]
        if not starts:
            return res
        idx = 0
        want = [mm.start() for mm in starts]
        wi = 0
        for k in range(lo, hi):
            ch = self.m[k]
            if ch == "}":
                depth -= 1
            while wi < len(want) and want[wi] == k:
                depth_at[k] = depth
                wi += 1
            if ch == "{":
                depth += 1
            if wi >= len(want):
                break
        for mm in starts:
            if depth_at.get(mm.start()) == 0:
                res.append(mm)
        return res

    def find_containers(self, header, lo, hi):
        """Find `impl ...` / `mod x` / `trait X` blocks whose normalised header
        equals `header`. Returns list of (body_lo, body_hi) (inside braces)."""
        kw = re.match(r"[A-Za-z_]+", header).group(0)
        rx = re.compile(r"\b%s\b" % re.escape(kw))
        out = []
        for mm in self._depth0_matches(rx, lo, hi):
            ob = self.m.find("{", mm.start(), hi)
            semi = self.m.find(";", mm.start(), hi)
            if ob < 0 or (0 <= semi < ob):
                continue
            hdr = norm_ws(self.m[mm.start() : ob])
            # drop where clauses for comparison
            hdr_nowhere = norm_ws(re.sub(r"\bwhere\b.*$", "", hdr))
            if hdr == header or hdr_nowhere == header or (kw == "fn" and re.match(re.escape(header) + r"\s*[(<]", hdr)):
                cb = match_close(self.m, ob)
                out.append((ob + 1, cb))
        return out

    def find_item(self, path):
        """path: list like ['impl Frame', 'fn push_register'] or ['enum X'].
        Returns (start, end) offsets of the item text (from keyword or `pub`
        to the closing brace / semicolon inclusive)."""
        ranges = [(0, len(self.text))]
        for elem in path[:-1]:
            nxt = []
            for lo, hi in ranges:
                nxt.extend(self.find_containers(elem, lo, hi))
            if not nxt:
                raise ExtractError("%s: container `%s` not found" % (self.path, elem))
            ranges = nxt
        kind, name = path[-1].split(None, 1)
        if kind == "macro_rules!":
            rx = re.compile(r"\bmacro_rules!\s*%s\b" % re.escape(name))
        else:
            rx = re.compile(
                r"(?:\bpub(?:\s*\([^)]*\))?\s+)?(?:\bconst\s+|\bunsafe\s+|\basync\s+)*\b%s\s+%s\b"
                % (re.escape(kind), re.escape(name))
            )
        found = []
        for lo, hi in ranges:
            for mm in self._depth0_matches(rx, lo, hi):
                found.append((mm, hi))
        if len(found) != 1:
            raise ExtractError(
                "%s: item `%s` found %d times" % (self.path, " :: ".join(path), len(found))
            )
        mm, hi = found[0]
        start = mm.start()
        # item ends at matching brace of first `{` or at `;` if that comes first
        ob = self.m.find("{", mm.end(), hi)
        semi = self.m.find(";", mm.end(), hi)
        if kind in ("struct",) and 0 <= semi and (ob < 0 or semi < ob):
            return start, semi + 1
        if kind in ("const", "static", "type"):
            return start, semi + 1
        if ob < 0:
            raise ExtractError("%s: item `%s` has no body" % (self.path, path[-1]))
        if kind == "fn" and 0 <= semi < ob:
            # trait method declaration without body: check paren depth
            par = 0
            for k in range(mm.end(), ob):
                if self.m[k] in "([":
                    par += 1
                elif self.m[k] in ")]":
                    par -= 1
                elif self.m[k] == ";" and par == 0:
                    return start, k + 1
        cb = match_close(self.m, ob)
        return start, cb + 1


# --------------------------------------------------------------------------
# rewrite rules

ALLOWED_ATTRS = (
    "derive",
    "must_use",
    "inline",
    "track_caller",
    "allow",
    "doc",
    "error",
    "default",
    "repr",
    "expect",
)


class Rewriter:
    """Holds the text of one extracted item and applies counted rewrites."""

    def __init__(self, text, label):
        self.text = text
        self.label = label
        self.rules = {}

    def hit(self, rule, n=1):
        if n:
            self.rules[rule] = self.rules.get(rule, 0) + n

    # R1 ------------------------------------------------------------------
    def strip_docs_and_attrs(self):
        m = mask(self.text)
        # doc comments: lines whose first non-blank chars are /// or //!
        out = []
        n = 0
        for line in self.text.split("\n"):
            if re.match(r"\s*(///|//!)", line):
                n += 1
                continue
            out.append(line)
        self.text = "\n".join(out)
        self.hit("R1-doc", n)
        # attributes
        m = mask(self.text)
        pieces = []
        last = 0
        n = 0
        for mm in re.finditer(r"#\s*!?\[", m):
            if mm.start() < last:
                continue
            ob = m.find("[", mm.start())
            cb = match_close(m, ob, "[", "]")
            name = re.match(r"\s*([A-Za-z_][A-Za-z_0-9:]*)", self.text[ob + 1 : cb])
            aname = name.group(1) if name else "?"
            if aname.split("::")[-1] not in ALLOWED_ATTRS:
                raise ExtractError(
                    "%s: attribute #[%s] is not in the droppable list" % (self.label, aname)
                )
            pieces.append(self.text[last : mm.start()])
            last = cb + 1
            n += 1
        pieces.append(self.text[last:])
        self.text = "".join(pieces)
        self.hit("R1-attr", n)

    # R2 ------------------------------------------------------------------
    def strip_pub(self):
        m = mask(self.text)
        spans = [mm.span() for mm in re.finditer(r"\bpub(?:\s*\([^)]*\))?\s+", m)]
        for a, b in reversed(spans):
            self.text = self.text[:a] + self.text[b:]
        self.hit("R2", len(spans))

    # R5 ------------------------------------------------------------------
    def subst(self, old, new, count, regex=False):
        m = mask(self.text) if not regex else None
        if regex:
            res, n = re.subn(old, new, self.text)
        else:
            n = self.text.count(old)
            res = self.text.replace(old, new)
        if count is not None and n != count:
            # The expected count documents the unchanged tree. A different count on a changed tree is
            # recorded (evidence: rules["R5-drift"], notes) and NOT fatal: every substitution either
            # stubs a construct Verus cannot take (left unsubstituted it does not compile: exit 2) or
            # rewrites a call into an equivalent one, so judging the changed code is sounder than
            # giving up on it.
            self.hit("R5-drift")
            self.notes = getattr(self, "notes", []) + ["substitution %r expected %s hits, found %d" % (old, count, n)]
        self.text = res
        self.hit("R5", n)

    # R5 (arm form) --------------------------------------------------------
    def replace_arm_body(self, pattern, new_body):
        """Counted substitution of the BODY of the match arm whose pattern text is `pattern` (exactly one
        such arm): the arm becomes `pattern => new_body,`. Used to stub out arms whose bodies are
        iterator chains over containers (outside Verus) while keeping the order and patterns of all arms."""
        m = mask(self.text)
        hits = [x for x in re.finditer(re.escape(pattern) + r"\s*=>\s*", self.text) if m[x.start()] == self.text[x.start()]]
        if len(hits) != 1:
            raise ExtractError("%s: arm %r found %d times" % (self.label, pattern, len(hits)))
        j = hits[0].end()
        if m[j] == "{":
            e = match_close(m, j) + 1
        else:
            depth, e = 0, j
            while True:
                ch = m[e]
                if ch in "([{":
                    depth += 1
                elif ch in ")]}":
                    if depth == 0:
                        break
                    depth -= 1
                elif ch == "," and depth == 0:
                    break
                e += 1
        comma = "" if m[e:].lstrip().startswith(",") else ","
        self.text = self.text[:j] + new_body + comma + self.text[e:]
        self.hit("R5-arm")

    # R8 ------------------------------------------------------------------
    def desugar_let_chains(self):
        """`if let PAT = E && COND { A }` (no else) -> `if let PAT = E { if COND { A } }`."""
        n = 0
        while True:
            m = mask(self.text)
            found = None
            for mm in re.finditer(r"\bif\s+let\b", m):
                ob = self._block_open(m, mm.end())
                head = m[mm.end() : ob]
                # top-level && in head (paren depth 0)
                par = 0
                pos = None
                for k, ch in enumerate(head):
                    if ch in "([":
                        par += 1
                    elif ch in ")]":
                        par -= 1
                    elif ch == "&" and head[k : k + 2] == "&&" and par == 0:
                        pos = mm.end() + k
                        break
                if pos is not None:
                    found = (mm, ob, pos)
                    break
            if not found:
                break
            mm, ob, pos = found
            cb = match_close(m, ob)
            after = m[cb + 1 :].lstrip()
            if after.startswith("else"):
                raise ExtractError("%s: let-chain with else is outside rule R8" % self.label)
            cond = self.text[pos + 2 : ob].strip()
            if re.search(r"\blet\b", mask(cond)):
                raise ExtractError("%s: multi-let chain is outside rule R8" % self.label)
            body = self.text[ob : cb + 1]
            self.text = (
                self.text[:pos].rstrip()
                + " { if "
                + cond
                + " "
                + body
                + " }"
                + self.text[cb + 1 :]
            )
            n += 1
        self.hit("R8", n)

    # R10 -----------------------------------------------------------------
    def desugar_final_guard(self):
        """`P if G => A, _ => B` (guarded arm directly followed by the FINAL catch-all arm `_`)
        becomes `P => if G { A } else { B }, _ => B`, which is what rustc does when G is false,
        provided B mentions no name bound by P. Needed because Verus 0.2026.09.13 loses the state
        at the arm after a guarded arm whose body mutates state (DESIGN 11.1)."""
        n = 0
        m = mask(self.text)
        for mm in list(re.finditer(r"\bif\b", m)):
            # find `PAT if GUARD => BODY,` directly before `_ => B` + closing brace of the match
            arrow = m.find("=>", mm.end())
            if arrow < 0:
                continue
            guard = self.text[mm.end():arrow].strip()
            if "{" in m[mm.end():arrow] or ";" in m[mm.end():arrow]:
                continue  # an `if` statement/expression, not a match guard
            # pattern start: after previous `,` or `{` at the same nesting
            k = mm.start() - 1
            depth = 0
            while k >= 0:
                ch = m[k]
                if ch == "}" and depth == 0:
                    # the block body of the previous arm (`Q => { .. }` needs no comma) ends the pattern
                    d2, q = 0, k
                    while q >= 0:
                        if m[q] == "}":
                            d2 += 1
                        elif m[q] == "{":
                            d2 -= 1
                            if d2 == 0:
                                break
                        q -= 1
                    if q >= 0 and m[:q].rstrip().endswith("=>"):
                        break
                if ch in ")]}":
                    depth += 1
                elif ch in "([{":
                    if depth == 0:
                        break
                    depth -= 1
                elif ch == "," and depth == 0:
                    break
                k -= 1
            pat = self.text[k + 1:mm.start()].strip()
            if not pat or "=>" in pat:
                continue
            # body A: expression up to the `,` at depth 0 (or a block)
            j = arrow + 2
            while m[j].isspace():
                j += 1
            if m[j] == "{":
                a_end = match_close(m, j) + 1
                body_a = self.text[j:a_end]
                j2 = a_end
                while m[j2].isspace() or m[j2] == ",":
                    j2 += 1
            else:
                depth = 0
                j2 = j
                while True:
                    ch = m[j2]
                    if ch in "([{":
                        depth += 1
                    elif ch in ")]}":
                        if depth == 0:
                            break
                        depth -= 1
                    elif ch == "," and depth == 0:
                        break
                    j2 += 1
                body_a = self.text[j:j2].strip()
                a_end = j2
                while m[j2].isspace() or m[j2] == ",":
                    j2 += 1
            # next arm must be the final `_ => B` ...
            mm2 = re.match(r"_\s*=>\s*", m[j2:])
            if not mm2:
                # ... or an arm with the same pattern up to the name it binds:
                # `Some(a) if G => A, Some(b) => B`  ->  `Some(a) => if G { A } else { let b = a; B }`
                mm3 = re.match(r"([^=]+?)\s*=>\s*", m[j2:])
                if not mm3:
                    continue
                pat2 = self.text[j2:j2 + mm3.end(1)].strip()
                t1 = re.findall(r"[A-Za-z_][A-Za-z_0-9]*|\S", pat)
                t2 = re.findall(r"[A-Za-z_][A-Za-z_0-9]*|\S", pat2)
                diff = [(x, y) for x, y in zip(t1, t2) if x != y]
                if len(t1) != len(t2) or len(diff) != 1 or not all(re.match(r"^[a-z_][a-z_0-9]*$", z) for z in diff[0]):
                    continue
                b_start = j2 + mm3.end()
                if m[b_start] == "{":
                    b_end = match_close(m, b_start) + 1
                else:
                    depth = 0
                    b_end = b_start
                    while True:
                        ch = m[b_end]
                        if ch in "([{":
                            depth += 1
                        elif ch in ")]}":
                            if depth == 0:
                                break
                            depth -= 1
                        elif ch == "," and depth == 0:
                            break
                        b_end += 1
                body_b = self.text[b_start:b_end].strip()
                new_arm = "%s => if %s { %s } else { let %s = %s; %s }" % (pat, guard, body_a, diff[0][1], diff[0][0], body_b)
                self.text = self.text[:k + 1] + "\n" + new_arm + self.text[b_end:]
                n += 1
                break
            b_start = j2 + mm2.end()
            if m[b_start] == "{":
                b_end = match_close(m, b_start) + 1
            else:
                depth = 0
                b_end = b_start
                while True:
                    ch = m[b_end]
                    if ch in "([{":
                        depth += 1
                    elif ch in ")]}":
                        if depth == 0:
                            break
                        depth -= 1
                    elif ch == "," and depth == 0:
                        break
                    b_end += 1
            body_b = self.text[b_start:b_end].strip()
            rest = m[b_end:].lstrip(" \t\n,")
            if not rest.startswith("}"):
                continue  # `_` is not the final arm
            bound = set(re.findall(r"\b[a-z_][a-z_0-9]*\b", mask(pat))) - {"_", "ref", "mut"}
            if any(re.search(r"\b%s\b" % re.escape(b), body_b) for b in bound):
                continue
            new_arm = "%s => if %s { %s } else { %s }" % (pat, guard, body_a, body_b)
            self.text = self.text[:k + 1] + "\n" + new_arm + self.text[a_end:]
            n += 1
            break  # one per call (positions shifted)
        self.hit("R10", n)
        return n

    # R12 -----------------------------------------------------------------
    def expand_macro(self, name, macro_text):
        """Expand every invocation `NAME!(args)` (optionally `path::NAME!`) in place with the arm of the
        real `macro_rules! NAME` (text taken from /repo) that has the same number of parameters:
        `$param` -> argument text (an `expr` argument that is not a single token is wrapped in
        parentheses, as macro_rules treats it as one expression node); `paste::paste! { X }` -> `{ X }`
        and `[<A B>]` -> `AB` (what the paste crate does). Only arms whose pattern is a plain
        parameter list `($a:kind, $b:kind, ..)` are supported; anything else is an ExtractError (exit 2)."""
        mm = mask(macro_text)
        arms = []
        pos = mm.index("{") + 1
        while True:
            m1 = re.compile(r"\s*\(").match(mm, pos)
            if not m1:
                break
            po = m1.end() - 1
            pc = match_close(mm, po, "(", ")")
            params = re.findall(r"\$([A-Za-z_][A-Za-z_0-9]*)\s*:\s*([a-z]+)", macro_text[po + 1:pc])
            if re.sub(r"\$[A-Za-z_][A-Za-z_0-9]*\s*:\s*[a-z]+|[\s,]", "", macro_text[po + 1:pc]):
                raise ExtractError("%s: R12: macro %s has an arm that is not a plain parameter list" % (self.label, name))
            m2 = re.compile(r"\s*=>\s*\{").match(mm, pc + 1)
            if not m2:
                raise ExtractError("%s: R12: macro %s arm has no `{ .. }` body" % (self.label, name))
            bo = m2.end() - 1
            bc = match_close(mm, bo)
            arms.append((params, macro_text[bo + 1:bc]))  # what the macro expands to
            m3 = re.compile(r"\s*;?").match(mm, bc + 1)
            pos = m3.end()
        if not arms:
            raise ExtractError("%s: R12: no arms found in macro %s" % (self.label, name))
        n = 0
        while True:
            m = mask(self.text)
            inv = re.search(r"(?:\b[A-Za-z_][A-Za-z_0-9]*::)*\b%s!\s*\(" % re.escape(name), m)
            if not inv:
                break
            if n > 50:
                raise ExtractError("%s: R12: runaway expansion of %s" % (self.label, name))
            ao = inv.end() - 1
            ac = match_close(m, ao, "(", ")")
            args, depth, last, pipes = [], 0, ao + 1, False
            for k in range(ao + 1, ac):
                ch = m[k]
                if ch == "|" and depth == 0 and (pipes or not self.text[last:k].strip()):
                    pipes = not pipes  # parameter list of a closure argument: `|a: &T, b: &T| ..`
                elif ch in "([{":
                    depth += 1
                elif ch in ")]}":
                    depth -= 1
                elif ch == "," and depth == 0 and not pipes:
                    args.append(self.text[last:k].strip())
                    last = k + 1
            tail = self.text[last:ac].strip()
            if tail:
                args.append(tail)
            arm = [a for a in arms if len(a[0]) == len(args)]
            if len(arm) != 1:
                raise ExtractError("%s: R12: %s!(..) with %d arguments matches %d arms" % (self.label, name, len(args), len(arm)))
            params, body = arm[0]
            # macro_rules hygiene: a local variable bound inside the macro body is a different variable
            # from one of the same name at the call site, so every identifier that the body BINDS
            # (let / pattern / closure parameter) is renamed before the arguments are pasted in
            mb = mask(body)
            bound = set(re.findall(r"\blet\s+(?:mut\s+)?([a-z_][a-z_0-9]*)\b", mb))
            bound |= set(re.findall(r"\b[A-Z][A-Za-z_0-9]*\(\s*(?:mut\s+|ref\s+)?([a-z_][a-z_0-9]*)\s*\)\s*(?:=>|if\b|=[^=])", mb))
            bound |= set(re.findall(r"\{\s*([a-z_][a-z_0-9]*)\s*,\s*\.\.\s*\}\s*=", mb))
            bound -= {"self", "_"}
            self._hyg = getattr(self, "_hyg", 0) + 1
            for ident in sorted(bound, key=len, reverse=True):
                mb = mask(body)  # rename in code only, never inside string literals or comments
                spans = [x.span() for x in re.finditer(r"(?<![\w$.])%s\b(?!\s*(?:\(|!|::))" % re.escape(ident), mb)]
                for a_, b_ in reversed(spans):
                    body = body[:a_] + "%s__m%d" % (ident, self._hyg) + body[b_:]
            # (struct-pattern shorthand `{ x, .. }` names a field: keep the field, bind the renamed local)
            body = re.sub(r"\{\s*([a-z_][a-z_0-9]*)__m(\d+)\s*,\s*\.\.\s*\}", r"{ \1: \1__m\2, .. }", body)
            for (prm, kind), arg in sorted(zip(params, args), key=lambda t: -len(t[0][0])):
                if kind == "expr" and not re.match(r"^[&*]?[A-Za-z_0-9:.]+$", arg) and not re.match(r"^\[<.*>\]$", arg):
                    arg = "(" + arg + ")"
                body = re.sub(r"\$%s\b" % re.escape(prm), lambda _m, a=arg: a, body)
            if "$" in mask(body):
                raise ExtractError("%s: R12: unexpanded `$` left in %s" % (self.label, name))
            self.text = self.text[:inv.start()] + body + self.text[ac + 1:]
            n += 1
        # the paste crate: `[<A B>]` concatenates identifiers, `paste::paste! { X }` is X
        self.text, k1 = re.subn(r"\[<\s*([A-Za-z_0-9]+)\s+([A-Za-z_0-9]+)\s*>\]", r"\1\2", self.text)
        k2 = 0
        while True:
            m = mask(self.text)
            pm = re.search(r"\bpaste::paste!\s*\{", m)
            if not pm:
                break
            po = pm.end() - 1
            pc = match_close(m, po)
            self.text = self.text[:pm.start()] + "{" + self.text[po + 1:pc] + "}" + self.text[pc + 1:]
            k2 += 1
        self.hit("R12-" + name, n)
        self.hit("R12-paste", k1 + k2)
        return n

    # R14 -----------------------------------------------------------------
    def desugar_str_match(self):
        """`match E { "a" => A, "b" => B, name => C }` (string-literal patterns, which Verus leaves
        uninterpreted; last arm binds an identifier or `_`) becomes
        `{ let s__ = E; if str_is(s__, "a") { A } else if str_is(s__, "b") { B } else { let name = s__; C } }`,
        which is what rustc does (patterns are tried in order; a `&str` pattern matches by equality)."""
        m = mask(self.text)
        n = 0
        for mm in re.finditer(r"\bmatch\b", m):
            ob = self._block_open(m, mm.end())
            first = re.match(r"\s*", m[ob + 1:]).end() + ob + 1
            if self.text[first] != '"':
                continue
            cb = match_close(m, ob)
            scrut = self.text[mm.end():ob].strip()
            arms, k = [], ob + 1
            while True:
                while k < cb and (m[k].isspace() or m[k] == ","):
                    k += 1
                if k >= cb:
                    break
                arrow = m.find("=>", k)
                pat = self.text[k:arrow].strip()
                j = arrow + 2
                while m[j].isspace():
                    j += 1
                if m[j] == "{":
                    e = match_close(m, j) + 1
                else:
                    depth, e = 0, j
                    while e < cb:
                        ch = m[e]
                        if ch in "([{":
                            depth += 1
                        elif ch in ")]}":
                            depth -= 1
                        elif ch == "," and depth == 0:
                            break
                        e += 1
                arms.append((pat, self.text[j:e].strip()))
                k = e
            lits = arms[:-1]
            last_pat, last_body = arms[-1]
            def cond(p):
                # `"lit"`, `"lit" if G`, `_ if G` (guards are evaluated after the pattern matched, as rustc does)
                mm_ = re.match(r'^("[^"]*")(?:\s+if\s+(.+))?$', p, re.S)
                if mm_:
                    return "str_is(s__, %s)" % mm_.group(1) + (" && (%s)" % mm_.group(2) if mm_.group(2) else "")
                mm_ = re.match(r"^_\s+if\s+(.+)$", p, re.S)
                return "(%s)" % mm_.group(1) if mm_ else None
            if not lits or any(cond(p) is None for p, _ in lits) or not re.match(r"^[a-z_][a-z_0-9]*$", last_pat):
                raise ExtractError("%s: R14: match on string literals has an unsupported shape" % self.label)
            out = "{ let s__ = %s; " % scrut
            for p, b in lits:
                out += "if %s { %s } else " % (cond(p), b)
            out += "{ %s%s } }" % ("" if last_pat == "_" else "let %s = s__; " % last_pat, last_body)
            self.text = self.text[:mm.start()] + out + self.text[cb + 1:]
            n += 1
            break
        self.hit("R14", n)
        return n

    # R13 -----------------------------------------------------------------
    def take_fragment(self, start, sig, tail, to_block_end=False, prologue="", wrap=None):
        """Keep ONE statement of the function: from the literal `start` (must occur once) to the `;`
        that ends that statement at the same nesting depth; emit `sig { statement tail }`.
        With to_block_end: keep everything from `start` to the end of the block that encloses it (the
        rest of a match arm's body, say), whose last expression is the value. `prologue` is glue placed
        first in the body (`use` lines that the original has at the top of the function)."""
        idxs = [mm.start() for mm in re.finditer(re.escape(start), self.text)]
        if len(idxs) != 1:
            raise ExtractError("%s: R13 start %r found %d times" % (self.label, start, len(idxs)))
        m = mask(self.text)
        if to_block_end:
            k, depth = idxs[0], 0
            while k < len(m):
                ch = m[k]
                if ch in "([{":
                    depth += 1
                elif ch in ")]}":
                    if depth == 0:
                        break
                    depth -= 1
                k += 1
            if k >= len(m) or m[k] != "}":
                raise ExtractError("%s: R13: no enclosing block after %r" % (self.label, start))
            stmt = self.text[idxs[0]:k].rstrip()
            dropped = self.text.count("\n") - stmt.count("\n")
            if wrap:
                # the kept text is a block whose VALUE the emitted function returns inside a wrapper
                # (`Ok({ .. })`): `return` statements in it still leave the function
                stmt = wrap[0] + "\n" + stmt + "\n" + wrap[1]
            self.text = "%s {\n        %s\n        %s\n    }" % (sig, prologue, stmt)
            self.hit("R13-fragment")
            self.hit("R13-lines-dropped", dropped)
            return
        k, depth = idxs[0], 0
        while k < len(m):
            ch = m[k]
            if ch in "([{":
                depth += 1
            elif ch in ")]}":
                depth -= 1
                if depth < 0:
                    raise ExtractError("%s: R13: statement at %r does not end with `;`" % (self.label, start))
            elif ch == ";" and depth == 0:
                break
            k += 1
        if k >= len(m):
            raise ExtractError("%s: R13: no end of statement after %r" % (self.label, start))
        stmt = self.text[idxs[0]:k + 1]
        dropped = self.text.count("\n") - stmt.count("\n")
        self.text = "%s {\n        %s\n        %s\n    }" % (sig, stmt, tail)
        self.hit("R13-fragment")
        self.hit("R13-lines-dropped", dropped)

    # R11 -----------------------------------------------------------------
    def hoist_closure(self, anchor, call):
        """`ANCHOR { || { BODY } }()` (a closure that is invoked on the spot, used by the code to run
        cleanup after `?`) -> `ANCHOR CALL`; returns `{ BODY }` so that it can be emitted as a method.
        `?` and `return` inside BODY leave the closure in the original and the method here."""
        idxs = [mm.start() for mm in re.finditer(re.escape(anchor), self.text)]
        if len(idxs) != 1:
            raise ExtractError("%s: R11 anchor %r found %d times" % (self.label, anchor, len(idxs)))
        m = mask(self.text)
        p = idxs[0] + len(anchor)
        mm = re.match(r"\s*\{\s*\|\|\s*\{", m[p:])
        if not mm:
            raise ExtractError("%s: R11: no `{ || { .. } }()` after %r" % (self.label, anchor))
        outer_open = p + m[p:].index("{")
        inner_open = p + mm.end() - 1
        inner_close = match_close(m, inner_open)
        outer_close = match_close(m, outer_open)
        tail = re.match(r"\s*\(\s*\)", m[outer_close + 1:])
        if m[inner_close + 1:outer_close].strip() or not tail:
            raise ExtractError("%s: R11: closure at %r is not invoked on the spot" % (self.label, anchor))
        body = self.text[inner_open:inner_close + 1]
        self.text = self.text[:outer_open] + call + self.text[outer_close + 1 + tail.end():]
        self.hit("R11")
        return body

    @staticmethod
    def _block_open(m, start):
        par = 0
        for k in range(start, len(m)):
            ch = m[k]
            if ch in "([":
                par += 1
            elif ch in ")]":
                par -= 1
            elif ch == "{" and par == 0:
                return k
        raise ExtractError("no block after position %d" % start)

    @staticmethod
    def _loop_block_open(m, a):
        """The `{` of a loop's body. For `while let PATTERN = expr {` the pattern may contain braces
        (a struct pattern): the body's brace is the first one at depth 0 after the `=`."""
        if re.match(r"while\s+let\b", m[a:]):
            depth = 0
            k = a
            while k < len(m):
                ch = m[k]
                if ch in "([{":
                    depth += 1
                elif ch in ")]}":
                    depth -= 1
                elif ch == "=" and depth == 0 and m[k + 1] not in "=>" and m[k - 1] not in "=!<>":
                    return Rewriter._block_open(m, k + 1)
                k += 1
            raise ExtractError("no `=` in while-let head at position %d" % a)
        return Rewriter._block_open(m, a + 3)

    # R3 / R6 -------------------------------------------------------------
    def splice_fn(self, ret_name, spec, loops, before, after_open=None, loop_open=None, at_end=None, tail_proof=None):
        """Name the result, insert requires/ensures after the signature, loop
        invariants before loop bodies, proof text before literal anchors."""
        inserts = []  # (pos, text)
        m = mask(self.text)
        fnm = re.search(r"\bfn\s+[A-Za-z_][A-Za-z_0-9]*", m)
        if not fnm:
            raise ExtractError("%s: no fn keyword" % self.label)
        ob = self._block_open(m, fnm.end())
        sig = m[fnm.end() : ob]
        # R3
        par = 0
        arrow = None
        for k, ch in enumerate(sig):
            if ch in "([":
                par += 1
            elif ch in ")]":
                par -= 1
            elif ch == "-" and sig[k : k + 2] == "->" and par == 0:
                arrow = fnm.end() + k
                break
        body_lo = ob
        if ret_name and arrow is not None:
            wh = re.search(r"\bwhere\b", m[arrow:ob])
            tend = arrow + wh.start() if wh else ob
            ty = self.text[arrow + 2 : tend].strip()
            inserts.append((arrow, tend, "-> (%s: %s)\n" % (ret_name, ty)))
            self.hit("R3")
        if spec and spec.strip():
            inserts.append((ob, ob, "\n" + spec.rstrip() + "\n"))
            self.hit("R6-spec")
        # loops
        if loops or loop_open:
            loops = loops or {}
            kws = []
            for mm in re.finditer(r"\b(loop|while|for)\b", m[ob:]):
                a = ob + mm.start()
                if mm.group(1) == "for" and re.match(r"for\s*<", m[a:]):
                    continue
                kws.append(a)
            for k, inv in loops.items():
                if k < 1 or k > len(kws):
                    raise ExtractError("%s: loop#%d not found (%d loops)" % (self.label, k, len(kws)))
                a = kws[k - 1]
                lb = self._loop_block_open(m, a)
                inserts.append((lb, lb, "\n" + inv.rstrip() + "\n"))
                self.hit("R6-loop")
            for k, txt in (loop_open or {}).items():
                if k < 1 or k > len(kws):
                    raise ExtractError("%s: loop#%d not found (%d loops)" % (self.label, k, len(kws)))
                lb = self._loop_block_open(m, kws[k - 1])
                inserts.append((lb + 1, lb + 1, "\n" + txt.rstrip() + "\n"))
                self.hit("R6-proof")
        for item in before or []:
            lit, txt = item[0], item[1]
            occ = item[2] if len(item) > 2 else None
            if isinstance(lit, (tuple, list)):
                # alternative anchors for a hint (the statements of one straight-line stretch): the first
                # one that is present is used, so that a change to one of them does not lose the hint
                found = [a for a in lit if re.search(re.escape(a), self.text[ob:])]
                if found and found[0] != lit[0]:
                    self.hit("R6-anchor-fallback")
                lit = found[0] if found else lit[0]
            idxs = [mm.start() for mm in re.finditer(re.escape(lit), self.text[ob:])]
            if occ is None:
                if len(idxs) != 1:
                    raise ExtractError(
                        "%s: anchor %r found %d times" % (self.label, lit, len(idxs))
                    )
                pos = ob + idxs[0]
            elif occ < 0:
                # counted from the end (-1: the last occurrence), for anchors whose earlier occurrences a
                # change may remove
                if -occ > len(idxs):
                    raise ExtractError("%s: anchor %r occurrence %d missing" % (self.label, lit, occ))
                pos = ob + idxs[occ]
            else:
                if occ > len(idxs):
                    raise ExtractError("%s: anchor %r occurrence %d missing" % (self.label, lit, occ))
                pos = ob + idxs[occ - 1]
            inserts.append((pos, pos, txt.rstrip() + "\n"))
            self.hit("R6-proof")
        if after_open:
            inserts.append((ob + 1, ob + 1, "\n" + after_open.rstrip() + "\n"))
            self.hit("R6-proof")
        if at_end:
            # proof text after the last statement of a unit-returning fn
            cb = match_close(m, ob)
            inserts.append((cb, cb, "\n" + at_end.rstrip() + "\n"))
            self.hit("R6-proof")
        if tail_proof:
            # the function's TAIL EXPRESSION (from the literal anchor to the end of the body) gets a name so
            # that proof text can follow it: `let r__tail = <tail>; <proof> r__tail` (same value, same order)
            lit, txt = tail_proof
            idxs = [mm.start() for mm in re.finditer(re.escape(lit), self.text[ob:])]
            if len(idxs) != 1:
                raise ExtractError("%s: tail anchor %r found %d times" % (self.label, lit, len(idxs)))
            cb = match_close(m, ob)
            pos = ob + idxs[0]
            inserts.append((cb, cb, ";\n" + txt.rstrip() + "\nr__tail\n"))
            inserts.append((pos, pos, "let r__tail = "))
            self.hit("R6-tail")
        for a, b, txt in sorted(inserts, key=lambda t: (t[0], t[1]), reverse=True):
            self.text = self.text[:a] + txt + self.text[b:]


def sha(text):
    return hashlib.sha256(text.encode()).hexdigest()[:16]
