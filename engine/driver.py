"""Property-level driver: runs the units of a property, applies the verdict
policy of DESIGN.md section 2.3, writes evidence and replay files."""
import argparse
import concurrent.futures as cf
import importlib
import json
import os
import sys
import time

from . import verus_run

ROOT = os.path.dirname(os.path.dirname(os.path.abspath(__file__)))
EVID = os.path.join(ROOT, "evidence")
REPLAYS = os.path.join(ROOT, "replays")


def load_registry():
    from contracts import registry

    importlib.reload(registry)
    return registry


def load_unit(modname):
    # "module" or "module:ATTR"
    attr = "UNIT"
    if ":" in modname:
        modname, attr = modname.split(":")
    mod = importlib.import_module("contracts." + modname)
    return getattr(mod, attr)


def expect_path(unit_name):
    return os.path.join(ROOT, "contracts", unit_name.replace("-", "_").lower() + ".expect.json")


def load_expect(unit_name):
    p = expect_path(unit_name)
    if not os.path.exists(p):
        return None
    with open(p) as f:
        return json.load(f)


def known_findings():
    p = os.path.join(ROOT, "known_findings.json")
    if not os.path.exists(p):
        return []
    with open(p) as f:
        return json.load(f).get("findings", [])


def fn_props(res, name, default):
    meta = res.get("meta") or {}
    fm = meta.get("functions", {}).get(name)
    if fm and fm.get("props"):
        return fm["props"]
    return default


def obligation_names(unit_name, fname, entry):
    """One name per failed clause; falls back to the function-level name."""
    out = []
    for f in entry.get("failures", []):
        lab = f.get("label") or f.get("kind")
        out.append(("%s::%s::%s" % (unit_name, fname, lab), f))
    if not out:
        out.append(("%s::%s" % (unit_name, fname), {"kind": "unknown", "msg": "verifier reported failure without a located diagnostic", "text": ""}))
    return out


def write_replay(prop, unit_name, obligation, failure, res, fname):
    os.makedirs(REPLAYS, exist_ok=True)
    safe = obligation.replace("::", "__").replace("/", "_")
    path = os.path.join(REPLAYS, "%s__%s.json" % (prop, safe))
    meta = (res.get("meta") or {}).get("functions", {}).get(fname, {})
    body = {
        "property": prop,
        "unit": unit_name,
        "back_end": "verus",
        "failed_obligation": obligation,
        "kind": failure.get("kind"),
        "verifier_message": failure.get("msg"),
        "verifier_output": failure.get("text"),
        "failing_input": None,
        "note": "Verus gives no counterexample: no-failing-input-found. The obligation below was discharged on the unchanged tree (contracts/*.expect.json) and fails on the current /repo working tree.",
        "function": meta.get("path"),
        "source_file": meta.get("file"),
        "source_lines": meta.get("orig_lines"),
        "sha_orig": meta.get("sha_orig"),
        "extracted_file": res.get("file"),
        "verus_cmd": res.get("verus_cmd"),
    }
    with open(path, "w") as f:
        json.dump(body, f, indent=1)
    return path


def run_unit_stable(unit, tier, seed):
    """Deterministic first run (solver seed 0). A failed obligation is only believed if it also fails
    under two other solver seeds (derived from VERIF_SEED); one that flips is 'unstable' = undecided,
    never a violation (DESIGN 2.3). The thorough tier always runs the three seeds."""
    res = verus_run.run_unit(unit, tier, 0)
    if res["status"] == "undecided":
        return res
    failing = [n for n, e in res["functions"].items() if not e["ok"] and n not in unit.canaries]
    if not failing and tier != "thorough":
        return res
    extra_seeds = [1 + (seed * 7919 + 13) % 997, 1 + (seed * 104729 + 71) % 991]
    res["seeds"] = [0] + extra_seeds
    for sd in extra_seeds:
        r2 = verus_run.run_unit(unit, tier, sd, keep_name=unit.name.replace("-", "_") + "_seed%d" % sd)
        res["wall_s"] += r2["wall_s"]
        res["solver_ms"] = (res.get("solver_ms") or 0) + (r2.get("solver_ms") or 0)
        if r2["status"] == "undecided":
            continue
        for n, e in res["functions"].items():
            e2 = r2["functions"].get(n)
            if e2 is None or n in unit.canaries:
                continue
            if e["ok"] != e2["ok"]:
                e["undecided"] = "unstable: verdict flips with solver seed %d" % sd
                e["failures"] = []
                e["ok"] = False
    return res


def run_units_parallel(units, tier, seed, jobs=8):
    results = {}
    with cf.ThreadPoolExecutor(max_workers=jobs) as ex:
        futs = {ex.submit(run_unit_stable, u, tier, seed): u for u in units}
        for fu in cf.as_completed(futs):
            u = futs[fu]
            results[u.name] = fu.result()
    return results


def dev_unit(args):
    reg = load_registry()
    unit = load_unit(reg.VERUS_UNITS[args.unit])
    res = verus_run.run_unit(unit, "quick", 0)
    print("unit %s status=%s wall=%.1fs solver=%sms file=%s" % (unit.name, res["status"], res["wall_s"], res["solver_ms"], res.get("file")))
    if res["undecided_reason"]:
        print("UNDECIDED:", res["undecided_reason"])
    for name, e in sorted(res["functions"].items()):
        print("  %-55s %s %4dms %s" % (name, "ok  " if e["ok"] else "FAIL", e["ms"], e["mode"]))
        for f in e["failures"]:
            print("      - %s [%s] line %s: %s" % (f["kind"], f["label"], f["line"], f["src"][:100]))
    if args.show or res["status"] != "ok":
        print(res["raw_stderr"][-6000:])
    print("assumptions:", len(res["assumptions"]))
    return 0 if res["status"] == "ok" else 1


def dev_kani(args):
    from . import kani_run

    g = kani_run.load_groups()[args.kani]
    names = [h["name"] for h in g["harnesses"] if not args.only or h["name"] in args.only]
    tmo = g.get("timeout_thorough" if args.tier == "thorough" else "timeout_quick", 300)
    parsed, out, rc, cmd, wall = kani_run.run_kani(names, timeout_s=tmo)
    print(cmd)
    bys = {kani_run.short(k): v for k, v in parsed.items()}
    for n in names:
        v = bys.get(n)
        if not v:
            print("  %-40s NO VERDICT" % n)
            continue
        real = [f for f in v["failed"] if not kani_run.NOT_A_FAILURE.search(f)]
        print("  %-40s %-10s %6ss  %s %s" % (n, v["status"], v["time"], sorted(set(real)), v["notes"]))
    if args.show or not parsed:
        print(out[-5000:])
    print("wall %.1fs" % wall)
    return 0


def update_expect(names):
    reg = load_registry()
    for uname in names or list(reg.VERUS_UNITS):
        unit = load_unit(reg.VERUS_UNITS[uname])
        res = verus_run.run_unit(unit, "quick", 0)
        if res["status"] == "undecided":
            print("unit %s undecided: %s" % (uname, res["undecided_reason"]))
            continue
        ok = sorted(n for n, e in res["functions"].items() if e["ok"] and n not in unit.canaries)
        failing = sorted(n for n, e in res["functions"].items() if not e["ok"] and n not in unit.canaries)
        exp = {"unit": uname, "discharged": ok, "failing_on_baseline": failing, "canaries_must_fail": sorted(unit.canaries)}
        with open(expect_path(uname), "w") as f:
            json.dump(exp, f, indent=1)
        print("unit %s: %d discharged, %d failing, %d canaries" % (uname, len(ok), len(failing), len(unit.canaries)))
    return 0


def check_property(prop, tier, seed):
    t0 = time.time()
    reg = load_registry()
    pinfo = reg.PROPERTIES.get(prop)
    if not pinfo:
        print("property %s is not claimed (see MANIFEST.json not_applicable)" % prop)
        return 2
    only = [x for x in os.environ.get("VERIF_ONLY_UNITS", "").split(",") if x]
    vnames = [u for u in pinfo.get("verus", []) if not only or u in only]
    knames = [k for k in pinfo.get("kani", []) if not only or k in only]
    units = [load_unit(reg.VERUS_UNITS[u]) for u in vnames]
    kres = []
    kfut = None
    kex = None
    if knames:
        from . import kani_run

        # the Kani groups run concurrently with the Verus units
        kex = cf.ThreadPoolExecutor(max_workers=1)
        kfut = kex.submit(kani_run.run_groups, knames, prop, tier, seed)
    results = run_units_parallel(units, tier, seed)
    if kfut is not None:
        kres = kfut.result()
        kex.shutdown()
    known = known_findings()
    violations = []
    known_hits = []
    undecided = []
    obligations = 0
    discharged = 0
    samples = []
    per_unit = []
    assumptions = set()
    solver_ms = 0
    for uname, res in sorted(results.items()):
        solver_ms += res.get("solver_ms") or 0
        for a in res["assumptions"]:
            assumptions.add("%s: %s" % (uname, a))
        if res["status"] == "undecided":
            undecided.append("%s: %s" % (uname, res["undecided_reason"]))
            per_unit.append({"unit": uname, "status": "undecided", "reason": res["undecided_reason"]})
            continue
        exp = load_expect(uname)
        if exp is None:
            undecided.append("%s: no .expect file" % uname)
            continue
        unit = [u for u in units if u.name == uname][0]
        got = set(n for n in res["functions"] if n not in unit.canaries)
        want = set(exp["discharged"]) | set(exp.get("failing_on_baseline", []))
        if got != want:
            undecided.append("%s: obligation set changed: missing %s, new %s" % (uname, sorted(want - got), sorted(got - want)))
        for c in unit.canaries:
            if res["canaries"].get(c) is not True:
                undecided.append("%s: canary %s did not fail (vacuous precondition?)" % (uname, c))
        fnrows = []
        for name, e in sorted(res["functions"].items()):
            if name in unit.canaries:
                continue
            props = fn_props(res, name, pinfo.get("default_props", [prop]))
            if prop not in props:
                continue
            fm = (res.get("meta") or {}).get("functions", {}).get(name, {})
            # an obligation whose every failing clause is a listed known finding is reported as
            # KNOWN-FINDING and not counted as a claimed obligation
            if not e["ok"]:
                names_ = [o for o, _ in obligation_names(uname, name, e)]
                if names_ and all(any(k.get("property") == prop and k.get("obligation") == o and k.get("status", "open") == "open" for k in known) for o in names_):
                    for o in names_:
                        known_hits.append((o, [k for k in known if k.get("obligation") == o][0]))
                    continue
            obligations += 1
            row = {"obligation": "%s::%s" % (uname, name), "back_end": "verus+z3", "ms": e["ms"], "mode": e["mode"], "ok": e["ok"]}
            if fm:
                row.update({"source": fm["file"], "sha_orig": fm["sha_orig"], "sha_emitted": fm["sha_emitted"], "rules": fm["rules"]})
            fnrows.append(row)
            if e["ok"]:
                discharged += 1
                continue
            if e.get("undecided") and not e["failures"]:
                undecided.append("%s::%s: %s" % (uname, name, e["undecided"]))
                continue
            for oname, failure in obligation_names(uname, name, e):
                kf = [k for k in known if k.get("property") == prop and k.get("obligation") == oname and k.get("status", "open") == "open"]
                if kf:
                    known_hits.append((oname, kf[0]))
                else:
                    rp = write_replay(prop, uname, oname, failure, res, name)
                    violations.append((oname, rp, "no-failing-input-found"))
        per_unit.append({"unit": uname, "status": res["status"], "wall_s": round(res["wall_s"], 2), "solver_ms": res["solver_ms"], "verus_cmd": res["verus_cmd"], "functions": fnrows, "canaries_failed_as_required": res["canaries"]})
        samples.extend(r["obligation"] for r in fnrows[:3])
    bounded = []
    for kr in kres:
        per_unit.append(kr["summary"])
        for a in kr["assumptions"]:
            assumptions.add(a)
        undecided.extend(kr["undecided"])
        obligations += kr["obligations"]
        discharged += kr["discharged"]
        bounded.extend(kr["bounded"])
        samples.extend(kr["samples"][:3])
        solver_ms += kr.get("solver_ms", 0)
        for oname, rp, tail in kr["violations"]:
            kf = [k for k in known if k.get("property") == prop and k.get("obligation") == oname and k.get("status", "open") == "open"]
            if kf:
                known_hits.append((oname, kf[0]))
            else:
                violations.append((oname, rp, tail))
    # known findings count as explained failures: they are obligations that are
    # NOT discharged; keep proof-level bookkeeping honest
    wall = time.time() - t0
    for oname, k in known_hits:
        print("KNOWN-FINDING: property=%s %s %s" % (prop, oname, k.get("what", "")))
    for oname, rp, tail in violations:
        print("VIOLATION property=%s replay=%s obligation=%s %s" % (prop, rp, oname, tail))
    for u in undecided:
        print("UNDECIDED property=%s %s" % (prop, u))
    level = "proof"
    ev = {
        "property_id": prop,
        "tier": tier,
        "seed": seed,
        "level": level,
        "coverage": {
            "obligations": obligations,
            "discharged": discharged,
            "checker_cmd": "./check %s --tier %s  (verus <unit>.rs --output-json --time; cargo kani --harness <h>)" % (prop, tier),
            "trusted_base": sorted(assumptions),
            "samples": samples[:12],
            "units": per_unit,
            "bounded_stand_ins_not_counted_as_proved": bounded,
            "known_findings_hit": [o for o, _ in known_hits],
            "undecided": undecided,
            "solver_ms": solver_ms,
            "claim": pinfo.get("claim", ""),
            "not_covered": pinfo.get("not_covered", ""),
        },
        "assumptions": sorted(assumptions) + list(pinfo.get("assumptions", [])),
        "wall_s": round(wall, 2),
        "violations": len(violations),
    }
    os.makedirs(EVID, exist_ok=True)
    with open(os.path.join(EVID, "%s.json" % prop), "w") as f:
        json.dump(ev, f, indent=1)
    print("property %s tier=%s obligations=%d discharged=%d known=%d violations=%d undecided=%d wall=%.1fs" % (prop, tier, obligations, discharged, len(known_hits), len(violations), len(undecided), wall))
    if violations:
        return 1
    if undecided:
        return 2
    return 0


def main(argv):
    ap = argparse.ArgumentParser()
    ap.add_argument("prop", nargs="?")
    ap.add_argument("--tier", default=os.environ.get("VERIF_TIER", "quick"))
    ap.add_argument("--unit")
    ap.add_argument("--kani", help="developer: run one Kani group and print a verdict table")
    ap.add_argument("--only", nargs="*", help="with --kani: only these harnesses")
    ap.add_argument("--show", action="store_true")
    ap.add_argument("--update-expect", nargs="*", default=None)
    ap.add_argument("--replay")
    args = ap.parse_args(argv)
    seed = int(os.environ.get("VERIF_SEED", "0") or 0)
    if args.unit:
        return dev_unit(args)
    if args.kani:
        return dev_kani(args)
    if args.update_expect is not None:
        return update_expect(args.update_expect)
    if args.replay:
        with open(args.replay) as f:
            print(f.read())
        return 0
    if not args.prop:
        ap.print_help()
        return 2
    return check_property(args.prop, args.tier, seed)
