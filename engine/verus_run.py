"""Run Verus on an emitted unit file and classify the outcome per function."""
import json
import os
import re
import subprocess
import time

from .extract import ExtractError
from .unit import assumption_scan, emit

BUILD = os.environ.get("VERIF_BUILD", "/verif/.build")

# messages that are genuine failed proof obligations
FAIL_KINDS = [
    (r"postcondition not satisfied", "post"),
    (r"precondition not satisfied", "pre"),
    (r"invariant not satisfied at end of loop body", "inv_end"),
    (r"invariant not satisfied before loop", "inv_init"),
    (r"loop invariant not satisfied", "inv"),
    (r"assertion failed", "assert"),
    (r"possible arithmetic underflow/overflow", "overflow"),
    (r"possible division by zero", "div0"),
    (r"possible bit shift underflow/overflow", "shift"),
    (r"decreases not satisfied", "decreases"),
    (r"could not prove termination", "termination"),
    (r"unreachable code|call to unreachable|unreached", "unreachable"),
    (r"cannot show invariant holds", "inv"),
    (r"failed to prove .*", "other_proof"),
    (r"ensures not satisfied", "post"),
    (r"unable to prove post-condition of closure", "closure_post"),
    (r"Call to non-static function fails to satisfy `callee.requires", "pre"),
    (r"index out of bounds", "bounds"),
    (r"unwrap.* precondition", "pre"),
]
UNDECIDED_PAT = re.compile(r"Resource limit|rlimit|timed out|timeout", re.I)


def parse_errors(stderr):
    """Split rustc-style diagnostics into dicts {level,msg,line,labels}."""
    diags = []
    cur = None
    for ln in stderr.split("\n"):
        m = re.match(r"^(error|warning|note)(\[[A-Z0-9]+\])?: (.*)$", ln)
        if m:
            cur = {"level": m.group(1), "code": m.group(2), "msg": m.group(3), "line": None, "text": [ln], "marks": []}
            diags.append(cur)
            continue
        if cur is None:
            continue
        cur["text"].append(ln)
        m = re.match(r"^\s*--> .*?:(\d+):(\d+)", ln)
        if m and cur["line"] is None:
            cur["line"] = int(m.group(1))
        m = re.match(r"^\s*(\d+)\s*\|", ln)
        if m:
            cur["_last_src_line"] = int(m.group(1))
        m = re.search(r"(failed this postcondition|failed precondition|at the end of the function body|at this exit|failed this invariant)", ln)
        if m and "_last_src_line" in cur:
            cur["marks"].append((m.group(1), cur["_last_src_line"]))
    return diags


def run_unit(unit, tier="quick", seed=0, extra_args=(), keep_name=None):
    """Emit + verify. Returns a result dict:
    status: ok | fail | undecided
    functions: {key: {ok: bool, failures: [..], ms: int}}
    """
    t0 = time.time()
    res = {
        "unit": unit.name,
        "status": "ok",
        "functions": {},
        "undecided_reason": None,
        "assumptions": [],
        "solver_ms": 0,
        "wall_s": 0.0,
        "verus_cmd": "",
        "meta": None,
        "canaries": {},
        "raw_stderr": "",
    }
    try:
        text, meta = emit(unit)
    except ExtractError as e:
        res["status"] = "undecided"
        res["undecided_reason"] = "extraction: %s" % e
        res["wall_s"] = time.time() - t0
        return res
    res["meta"] = meta
    os.makedirs(BUILD + "/verus", exist_ok=True)
    fname = (keep_name or unit.name.replace("-", "_")) + ".rs"
    path = os.path.join(BUILD, "verus", fname)
    with open(path, "w") as f:
        f.write(text)
    res["file"] = path
    res["assumptions"] = assumption_scan(text)
    cmd = ["verus", path, "--output-json", "--time", "--multiple-errors", "4"] + list(extra_args)
    if seed:
        cmd += ["--smt-option", "smt.random_seed=%d" % (seed % 1000)]
    res["verus_cmd"] = " ".join(cmd)
    env = dict(os.environ)
    try:
        p = subprocess.run(cmd, capture_output=True, text=True, timeout=900, env=env, cwd=os.path.join(BUILD, "verus"))
    except subprocess.TimeoutExpired:
        res["status"] = "undecided"
        res["undecided_reason"] = "verus timeout (900 s)"
        res["wall_s"] = time.time() - t0
        return res
    res["raw_stderr"] = p.stderr
    try:
        j = json.loads(p.stdout)
    except Exception:
        res["status"] = "undecided"
        res["undecided_reason"] = "verus produced no JSON: " + p.stderr[-2000:]
        res["wall_s"] = time.time() - t0
        return res
    vr = j.get("verification-results", {})
    diags = parse_errors(p.stderr)
    # function breakdown
    crate = os.path.splitext(fname)[0]
    breakdown = {}
    try:
        for mod in j["times-ms"]["smt"]["smt-run-module-times"]:
            for fb in mod.get("function-breakdown", []):
                name = fb["function"]
                if name.startswith(crate + "::"):
                    name = name[len(crate) + 2 :]
                breakdown[name] = fb
        res["solver_ms"] = j["times-ms"]["smt"]["smt-run"]
    except KeyError:
        pass
    # classify diagnostics
    tool_errors = []
    fn_by_line = []
    for key, fm in meta["functions"].items():
        fn_by_line.append((fm["line_lo"], fm["line_hi"], key))
    lines = text.split("\n")

    def owner(line):
        for lo, hi, key in fn_by_line:
            if lo <= line <= hi:
                return key
        # epilogue / prelude proof fn: search backwards for fn name
        for k in range(line - 1, -1, -1):
            m = re.search(r"\bfn\s+([A-Za-z_0-9]+)", lines[k])
            if m:
                return m.group(1)
        return "?"

    def label_at(line):
        if 1 <= line <= len(lines):
            m = re.search(r"//\s*@(\S+)", lines[line - 1])
            if m:
                return m.group(1)
        return None

    failures = {}
    rlimit_fns = {}
    for d in diags:
        if d["level"] != "error":
            continue
        if re.match(r"aborting due to", d["msg"]):
            continue
        kind = None
        for pat, k in FAIL_KINDS:
            if re.search(pat, d["msg"]):
                kind = k
                break
        if UNDECIDED_PAT.search(d["msg"]):
            # a solver resource limit concerns ONE function: that function is undecided, the
            # verdicts of the other functions of the unit stand
            if d["line"] is not None:
                rlimit_fns.setdefault(owner(d["line"]), []).append(d["msg"])
            else:
                tool_errors.append("rlimit: " + d["msg"])
            continue
        if kind is None or d["line"] is None:
            tool_errors.append(d["msg"] + " @" + str(d["line"]))
            continue
        own = owner(d["line"])
        lab = None
        for what, ln in d["marks"]:
            if what in ("failed this postcondition", "failed precondition", "failed this invariant"):
                lab = label_at(ln) or lab
        if lab is None:
            lab = label_at(d["line"])
        srcline = lines[d["line"] - 1].strip() if d["line"] <= len(lines) else ""
        failures.setdefault(own, []).append(
            {"kind": kind, "label": lab, "line": d["line"], "src": srcline, "msg": d["msg"], "text": "\n".join(d["text"][:30])}
        )
    if vr.get("encountered-vir-error") or (tool_errors and not breakdown):
        res["status"] = "undecided"
        res["undecided_reason"] = "tool error: " + "; ".join(tool_errors[:5])
        res["wall_s"] = time.time() - t0
        return res
    if tool_errors:
        res["status"] = "undecided"
        res["undecided_reason"] = "tool error: " + "; ".join(tool_errors[:5])
    # per function verdict
    for name, fb in breakdown.items():
        if name not in meta["functions"] and name.split("::")[-1] in ("clone", "eq", "ne", "default", "cmp", "partial_cmp") and "::" in name:
            continue  # derive-generated impls of shim types: not obligations
        entry = {"ok": bool(fb.get("success")), "ms": fb.get("time", 0), "mode": fb.get("mode:", ""), "failures": failures.get(name, [])}
        short = name.split("::")[-1]
        if not entry["failures"] and short in failures:
            entry["failures"] = failures[short]
        if name in rlimit_fns or short in rlimit_fns:
            entry["undecided"] = "solver resource limit: " + "; ".join(rlimit_fns.get(name) or rlimit_fns.get(short))
        res["functions"][name] = entry
    for c in unit.canaries:
        e = res["functions"].get(c)
        res["canaries"][c] = None if e is None else (not e["ok"])
    if res["status"] == "ok":
        for name, e in res["functions"].items():
            if name in unit.canaries:
                continue
            if not e["ok"]:
                res["status"] = "fail"
    res["verified_count"] = vr.get("verified")
    res["error_count"] = vr.get("errors")
    res["wall_s"] = time.time() - t0
    return res
