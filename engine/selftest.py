"""Self-test of the machinery against false negatives and false alarms.

Applies each entry of contracts/mutants.py (a deliberate edit of koto's source)
to a scratch copy of /repo OUTSIDE /repo and /verif, runs the property check
against the scratch copy, and compares the verdict with the expectation:

  kind "break": exit 1 and a VIOLATION line naming the expected obligation
  kind "quiet": exit 0 (meaning-preserving edit, must raise no alarm)

The scratch copy and its build output are removed at the end.

  python3 -m engine.selftest [--only name ...] [--keep]
"""
import argparse
import os
import shutil
import subprocess
import sys
import time

ROOT = os.path.dirname(os.path.dirname(os.path.abspath(__file__)))
SCRATCH = os.environ.get("VERIF_SELFTEST_DIR", "/tmp/verif-selftest-%d" % os.getpid())


def sh(cmd, **kw):
    return subprocess.run(cmd, shell=True, capture_output=True, text=True, **kw)


def main():
    ap = argparse.ArgumentParser()
    ap.add_argument("--only", nargs="*")
    ap.add_argument("--keep", action="store_true")
    ap.add_argument("--patch", help="apply a patch file instead of the catalogue and run these props", default=None)
    ap.add_argument("--props", nargs="*", default=[])
    ap.add_argument("--tier", default="quick")
    args = ap.parse_args()
    sys.path.insert(0, ROOT)
    from contracts import mutants

    repo = os.path.join(SCRATCH, "repo")
    build = os.path.join(SCRATCH, "build")
    os.makedirs(SCRATCH, exist_ok=True)
    # (the source tree can be overridden while something else has a change applied to /repo)
    sh("rsync -a --delete --exclude target --exclude .git %s/ %s/" % (os.environ.get("VERIF_SELFTEST_SRC", "/repo").rstrip("/"), repo))
    env = dict(os.environ)
    env["VERIF_REPO"] = repo
    env["VERIF_BUILD"] = build
    results = []
    if args.patch:
        r = sh("cd %s && patch -p1 < %s" % (repo, os.path.abspath(args.patch)))
        if r.returncode != 0:
            print("patch failed:", r.stdout, r.stderr)
            return 2
        for prop in args.props:
            p = subprocess.run([os.path.join(ROOT, "check"), prop, "--tier", args.tier], env=env, capture_output=True, text=True, cwd=ROOT)
            print("== %s exit=%d" % (prop, p.returncode))
            print("\n".join(l for l in p.stdout.split("\n") if l.startswith(("VIOLATION", "KNOWN", "UNDECIDED", "property"))))
        if not args.keep:
            shutil.rmtree(SCRATCH, ignore_errors=True)
        return 0
    todo = [m for m in mutants.MUTANTS if not args.only or m["name"] in args.only]
    for m in todo:
        t0 = time.time()
        path = os.path.join(repo, m["file"])
        orig = open(path).read()
        cnt = orig.count(m["old"])
        if cnt != m.get("count", 1):
            results.append((m["name"], "SKIP", "anchor found %d times" % cnt))
            print("%-40s SKIP anchor found %d times" % (m["name"], cnt))
            continue
        open(path, "w").write(orig.replace(m["old"], m["new"]))
        e = dict(env)
        if m.get("units"):
            e["VERIF_ONLY_UNITS"] = ",".join(m["units"])
        p = subprocess.run([os.path.join(ROOT, "check"), m["prop"], "--tier", "quick"], env=e, capture_output=True, text=True, cwd=ROOT)
        open(path, "w").write(orig)
        viol = [l for l in p.stdout.split("\n") if l.startswith("VIOLATION")]
        und = [l for l in p.stdout.split("\n") if l.startswith("UNDECIDED")]
        if m["kind"] == "break":
            ok = p.returncode == 1 and any(m["expect"] in l for l in viol)
        else:
            ok = p.returncode == 0 and not viol
        verdict = "PASS" if ok else "FAIL"
        detail = "exit=%d %s" % (p.returncode, (viol or und or [""])[0][:200])
        results.append((m["name"], verdict, detail))
        print("%-40s %s %s (%.0fs)" % (m["name"], verdict, detail, time.time() - t0))
        sys.stdout.flush()
    if not args.keep:
        shutil.rmtree(SCRATCH, ignore_errors=True)
    bad = [r for r in results if r[1] == "FAIL"]
    print("selftest: %d mutants, %d as expected, %d not, %d skipped" % (len(results), len([r for r in results if r[1] == "PASS"]), len(bad), len([r for r in results if r[1] == "SKIP"])))
    return 1 if bad else 0


if __name__ == "__main__":
    sys.exit(main())
