"""Unit description DSL (used by contracts/*.py) and the emitter that turns a
unit plus the current /repo sources into one Verus file."""
import os
import re

from .extract import ExtractError, Rewriter, SourceFile, mask, sha

REPO = os.environ.get("VERIF_REPO", "/repo")


class Fn:
    def __init__(
        self,
        file,
        path,
        spec="",
        ret="r",
        loops=None,
        before=None,
        after_open=None,
        subst=None,
        props=(),
        impl_as=None,
        rename=None,
        let_chains=False,
        proof_note="",
        external_body=False,
        attrs=(),
        loop_open=None,
        at_end=None,
        final_guards=0,
        hoist=None,
        macros=None,
        fragment=None,
        str_match=False,
        arms=None,
        tail_proof=None,
    ):
        self.file = file
        self.path = path if isinstance(path, list) else [p.strip() for p in path.split("::")]
        self.spec = spec
        self.ret = ret
        self.loops = loops or {}
        self.before = before or []
        self.after_open = after_open
        self.subst = subst or []
        self.props = tuple(props)
        # R4: emit the method inside `impl <impl_as>` instead of the original
        # (trait) impl header
        self.impl_as = impl_as
        self.rename = rename
        self.let_chains = let_chains
        self.name = self.path[-1].split()[-1]
        self.proof_note = proof_note
        # assumed contract: the body is kept for rustc but NOT verified
        self.external_body = external_body
        # verifier attributes placed in front of the fn (e.g. exec_allows_no_decreases_clause)
        self.attrs = tuple(attrs)
        # ghost snapshots / assertions placed at the start of the body of loop #k
        self.loop_open = loop_open or {}
        self.at_end = at_end
        # R10: number of `P if G => A, _ => B` shapes to desugar
        self.final_guards = final_guards
        # R11: dict(anchor, call, name, sig, spec, subst, final_guards, external_body): a closure invoked
        # on the spot is emitted as a method of its own (with its own contract)
        self.hoist = hoist
        # R12: [(macro name, file, item path)]: invocations are expanded in place from the real macro_rules!
        self.macros = macros or []
        # R13: dict(start, sig, tail): ONE statement of the function (from the literal `start` to the end of
        # that statement) is emitted as a function of its own: `sig { <statement> <tail> }`. Everything
        # else of the function is dropped (and said so in the evidence).
        self.fragment = fragment
        # R14: desugar one `match` on string literals into an if-chain over `str_is`
        self.str_match = str_match
        # R5 (arm form): [(pattern text, new body)]
        self.arms = arms or []
        # R6 (tail form): (anchor where the tail expression starts, proof text placed after it)
        self.tail_proof = tail_proof


class Type:
    def __init__(self, file, path, subst=None, derive=None):
        self.file = file
        self.path = path if isinstance(path, list) else [p.strip() for p in path.split("::")]
        self.subst = subst or []
        self.derive = derive


class Raw:
    """Sidecar text placed between extracted items (spec fns, lemmas)."""

    def __init__(self, text, impl_of=None):
        self.text = text
        self.impl_of = impl_of


class Unit:
    def __init__(self, name, prelude, items, epilogue="", canaries=(), notes=(), assumptions=()):
        self.name = name
        self.prelude = prelude
        self.items = items
        self.epilogue = epilogue
        # names of proof fns that MUST FAIL (vacuity guards)
        self.canaries = tuple(canaries)
        self.notes = tuple(notes)
        self.assumptions = tuple(assumptions)


_src_cache = {}


def source(file):
    p = os.path.join(REPO, file)
    key = (p, os.path.getmtime(p))
    if key not in _src_cache:
        with open(p, encoding="utf-8") as f:
            _src_cache[key] = SourceFile(file, f.read())
    return _src_cache[key]


def container_name(fn):
    """The impl block the function is emitted in."""
    if fn.impl_as:
        return fn.impl_as
    for elem in fn.path[:-1]:
        if elem.startswith("impl"):
            m = re.match(r"impl(?:<[^>]*>)?\s+(?:.*\bfor\s+)?(.+)$", elem)
            return "impl " + m.group(1) if " for " in elem else elem
    return None


def emit(unit):
    """Returns (text, meta). meta['functions'] maps emitted fn name ->
    {file, path, sha_orig, sha_emitted, rules, line_lo, line_hi, props}."""
    chunks = []  # (container or None, text, metaentry or None)
    for it in unit.items:
        if isinstance(it, Raw):
            chunks.append((it.impl_of, it.text.strip("\n"), None))
            continue
        sf = source(it.file)
        a, b = sf.find_item(it.path)
        orig = sf.text[a:b]
        label = "%s :: %s" % (it.file, " :: ".join(it.path))
        rw = Rewriter(orig, label)
        if isinstance(it, Fn) and it.fragment:
            rw.take_fragment(it.fragment["start"], it.fragment["sig"], it.fragment.get("tail", ""), it.fragment.get("to_block_end", False), it.fragment.get("prologue", ""), it.fragment.get("wrap"))
        rw.strip_docs_and_attrs()
        rw.strip_pub()
        for mname, mfile, mpath in getattr(it, "macros", []) or []:
            msf = source(mfile)
            ma, mb = msf.find_item(mpath if isinstance(mpath, list) else [x.strip() for x in mpath.split("::")])
            rw.expand_macro(mname, msf.text[ma:mb])  # (a macro that is not invoked here is simply not expanded)
        for apat, abody in getattr(it, "arms", []) or []:
            rw.replace_arm_body(apat, abody)
        for s in it.subst:
            old, new = s[0], s[1]
            cnt = s[2] if len(s) > 2 else 1
            rx = len(s) > 3 and s[3] == "re"
            rw.subst(old, new, cnt, regex=rx)
        hoisted = None
        if isinstance(it, Fn) and it.hoist:
            h = it.hoist
            body = rw.hoist_closure(h["anchor"], h["call"])
            hrw = Rewriter("fn %s%s %s" % (h["name"], h["sig"], body), label + " :: closure " + h["name"])
            for s in h.get("subst", []):
                hrw.subst(s[0], s[1], s[2] if len(s) > 2 else 1, regex=len(s) > 3 and s[3] == "re")
            for _ in range(h.get("final_guards", 0)):
                if not hrw.desugar_final_guard():
                    raise ExtractError("%s: R10 requested in hoisted closure but shape not found" % label)
            hrw.splice_fn(h.get("ret", "r"), h.get("spec", ""), {}, h.get("before", []))
            hrw.hit("R11")
            if h.get("external_body"):
                hrw.text = "#[verifier::external_body]\n" + hrw.text
                hrw.hit("ASSUMED-external_body")
            hoisted = (hrw, h)
        if isinstance(it, Fn) and it.str_match:
            if not rw.desugar_str_match():
                raise ExtractError("%s: R14 requested but no match on string literals found" % label)
        if isinstance(it, Fn):
            for _ in range(getattr(it, "final_guards", 0)):
                if not rw.desugar_final_guard():
                    raise ExtractError("%s: R10 requested but no `P if G => A, _ => B` shape found" % label)
            if it.let_chains:
                rw.desugar_let_chains()
                if "R8" not in rw.rules:
                    raise ExtractError("%s: let_chains requested but none found" % label)
            rw.splice_fn(it.ret, it.spec, it.loops, it.before, it.after_open, it.loop_open, it.at_end, getattr(it, "tail_proof", None))
            if it.rename:
                rw.subst("fn " + it.name, "fn " + it.rename, 1)
            for at in it.attrs:
                rw.text = "#[%s]\n" % at + rw.text
                rw.hit("ATTR-" + at)
            if it.external_body:
                rw.text = "#[verifier::external_body]\n" + rw.text
                rw.hit("ASSUMED-external_body")
            if it.impl_as and any(e.startswith("impl") and " for " in e for e in it.path[:-1]):
                rw.hit("R4")
            meta = {
                "file": it.file,
                "path": " :: ".join(it.path),
                "sha_orig": sha(orig),
                "sha_emitted": sha(rw.text),
                "rules": rw.rules,
                "drift_notes": getattr(rw, "notes", []),
                "props": list(it.props),
                "name": it.rename or it.name,
                "container": container_name(it),
                "assumed": bool(it.external_body),
                "orig_lines": [sf.text.count("\n", 0, a) + 1, sf.text.count("\n", 0, b) + 1],
            }
            chunks.append((container_name(it), rw.text, meta))
            if hoisted:
                hrw, h = hoisted
                hmeta = dict(meta)
                hmeta.update({"sha_emitted": sha(hrw.text), "rules": hrw.rules, "name": h["name"], "assumed": bool(h.get("external_body")), "hoisted_from": it.rename or it.name})
                chunks.append((container_name(it), hrw.text, hmeta))
        else:
            text = rw.text
            if it.derive:
                text = "#[derive(%s)]\n" % it.derive + text
            meta = {
                "file": it.file,
                "path": " :: ".join(it.path),
                "sha_orig": sha(orig),
                "sha_emitted": sha(text),
                "rules": rw.rules,
                "type": True,
                "name": it.path[-1],
            }
            chunks.append((None, text, meta))

    lines = []

    def add(text):
        lo = len(lines) + 1
        lines.extend(text.split("\n"))
        return lo, len(lines)

    add("// GENERATED by /verif/engine from /repo working tree. Do not edit.")
    add("#![allow(unused, non_snake_case, non_camel_case_types)]")
    add("use vstd::prelude::*;")
    add("verus! {")
    add(unit.prelude.strip("\n"))
    functions = {}
    types = []
    cur = None
    for cont, text, meta in chunks:
        if cont != cur:
            if cur is not None:
                add("}")
            if cont is not None:
                add(cont + " {")
            cur = cont
        lo, hi = add(text)
        if meta is not None:
            meta["line_lo"], meta["line_hi"] = lo, hi
            if meta.get("type"):
                types.append(meta)
            else:
                key = meta["name"]
                if cont:
                    tyname = re.sub(r"^impl(?:<[^>]*>)?\s+", "", cont)
                    tyname = re.sub(r"<.*$", "", tyname)
                    key = tyname + "::" + key
                meta["key"] = key
                functions[key] = meta
        add("")
    if cur is not None:
        add("}")
    ep_lo, ep_hi = add(unit.epilogue.strip("\n"))
    add("} // verus!")
    add("fn main() {}")
    text = "\n".join(lines) + "\n"
    meta = {
        "unit": unit.name,
        "functions": functions,
        "types": types,
        "canaries": list(unit.canaries),
        "epilogue_lines": [ep_lo, ep_hi],
    }
    return text, meta


def assumption_scan(text):
    """Mechanical scan of the emitted file for trusted constructs."""
    pats = [
        r"\bassume\s*\(",
        r"\badmit\s*\(",
        r"external_body",
        r"assume_specification",
        r"verifier::external\b",
        r"external_type_specification",
        r"\baxiom\b",
    ]
    found = []
    m = mask(text)
    ls = text.split("\n")
    for i, line in enumerate(m.split("\n")):
        for p in pats:
            if re.search(p, line):
                # name the following item
                ctx = ""
                for j in range(i, min(i + 6, len(ls))):
                    mm = re.search(r"\b(fn|struct|enum|type)\s+([A-Za-z_0-9]+)", ls[j])
                    if mm:
                        ctx = mm.group(0)
                        break
                    mm = re.search(r"assume_specification.*?\[\s*([^\]]+)\]", ls[j])
                    if mm:
                        ctx = mm.group(1).strip()
                        break
                found.append("%s: %s" % (re.sub(r"\\[bs]\*?|\\\(|\\b", "", p), ctx or ls[i].strip()))
                break
    return found
