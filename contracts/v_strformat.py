"""V-strformat: applying width / fill / alignment to a rendered value (the `let result = match
format_options { .. };` statement of KotoVm::run_string_push, crates/runtime/src/vm.rs), C15's
"a formatted field has at least the requested width".

Rule R13 extracts that ONE statement as a function; the rest of run_string_push (rendering through
`format!`, the precision loop, pushing to the builder) is dropped and not covered. Text is abstract:
`g()` is its number of grapheme clusters, `cat` is concatenation; ASSUMED: the fill string is one
grapheme cluster that does not join its neighbours, so widths add up.

Contracts only. The statement's text comes from /repo at run time.
"""
from engine.unit import Fn, Raw, Type, Unit

VM = "crates/runtime/src/vm.rs"
FO = "crates/parser/src/string_format_options.rs"
P = ("C15", "C06")

PRELUDE = r"""
global size_of usize == 8;   // assumption: 64-bit target
#[verifier::external_body] #[derive(Clone, Copy)] pub struct ConstantIndex { _p: u8 }
#[verifier::external_body] #[derive(Clone, Copy)] pub struct StringFormatRepresentation { _p: u8 }

// ---- abstract text
#[verifier::external_body] pub struct Text { _p: u8 }          // String
#[verifier::external_body] pub struct KString { _p: u8 }       // the fill string
pub uninterp spec fn g(t: Text) -> nat;                         // grapheme clusters
pub uninterp spec fn c(t: Text) -> nat;                         // chars (code points)
pub uninterp spec fn cat(a: Text, b: Text) -> Text;
pub uninterp spec fn rep(fill: KString, n: nat) -> Text;
// `rendered.graphemes(true).count()` / `rendered.chars().count()` (rule R5): a grapheme cluster holds at
// least one char
#[verifier::external_body] pub fn grapheme_count(t: &Text) -> (r: usize) ensures r == g(*t) { unimplemented!() }
#[verifier::external_body] pub fn char_count(t: &Text) -> (r: usize) ensures r == c(*t), c(*t) >= g(*t) { unimplemented!() }
#[verifier::external_body] pub fn byte_len(t: &Text) -> (r: usize) ensures r >= c(*t), c(*t) >= g(*t) { unimplemented!() }
impl KString {
    // ASSUMED: the fill is one grapheme cluster that does not join its neighbours
    #[verifier::external_body] pub fn repeat(&self, n: usize) -> (r: Text) ensures r == rep(*self, n as nat), g(r) == n { unimplemented!() }
    #[verifier::external_body] pub fn from_space() -> (r: KString) ensures r == space() { unimplemented!() }
}
pub uninterp spec fn space() -> KString;
// `a + &b` on String (rule R5); widths add up (assumption above)
#[verifier::external_body] pub fn concat(a: Text, b: &Text) -> (r: Text) ensures r == cat(a, *b), g(r) == g(a) + g(*b) { unimplemented!() }
// format!("{}{}{}", a, b, c) (rule R5)
#[verifier::external_body] pub fn concat3(a: Text, b: Text, c: Text) -> (r: Text) ensures r == cat(cat(a, b), c), g(r) == g(a) + g(b) + g(c) { unimplemented!() }
// f32 arithmetic is outside Verus: uninterpreted (rule R5)
#[verifier::external_body] pub struct F32 { _p: u8 }
#[verifier::external_body] pub fn half_as_f32(n: usize) -> F32 { unimplemented!() }
impl F32 {
    #[verifier::external_body] pub fn floor_as_usize(&self) -> usize { unimplemented!() }
    #[verifier::external_body] pub fn ceil_as_usize(&self) -> usize { unimplemented!() }
}
pub struct KotoVm { pub _p: u8 }
"""

VM_SPECS = r"""
    pub uninterp spec fn constant_string(&self, c: ConstantIndex) -> KString;
    #[verifier::external_body] fn koto_string_from_constant(&self, c: ConstantIndex) -> (r: KString) ensures r == self.constant_string(c) { unimplemented!() }
    // the documented fill: the given character, else a space
    spec fn fill_of(&self, o: StringFormatOptions) -> KString {
        match o.fill_character { Some(c) => self.constant_string(c), None => space() }
    }
"""

UNIT = Unit(
    name="V-strformat",
    prelude=PRELUDE,
    items=[
        Type(FO, "enum StringAlignment"),
        Type(FO, "struct StringFormatOptions"),
        Raw(VM_SPECS, impl_of="impl KotoVm"),
        Fn(VM, "impl KotoVm :: fn run_string_push", props=P, rename="run_string_push__apply_width",
           fragment=dict(start="let result = match format_options {",
                         sig="fn run_string_push(&self, rendered: Text, format_options: &Option<StringFormatOptions>, value_is_number: bool) -> Text",
                         tail="result"),
           subst=[
               ("rendered.graphemes(true).count()", "grapheme_count(&rendered)", None),
               ("rendered.chars().count()", "char_count(&rendered)", None),
               ("rendered.len()", "byte_len(&rendered)", None),
               ('KString::from(" ")', "KString::from_space()", None),
               (r"fill\.repeat\(([a-z_]+)\) \+ &rendered", r"concat(fill.repeat(\1), &rendered)", None, "re"),
               (r"rendered \+ &fill\.repeat\(([a-z_]+)\)", r"concat(rendered, &fill.repeat(\1))", None, "re"),
               (r"format!\(\s*\"\{\}\{\}\{\}\",\s*(fill\.repeat\([^;]*?\)),\s*rendered,\s*(fill\.repeat\([^;]*?\)),?\s*\)", r"concat3(\1, rendered, \2)", None, "re"),
               ("fill_chars as f32 / 2.0", "half_as_f32(fill_chars)", None),
               (".floor() as usize", ".floor_as_usize()", None),
               (".ceil() as usize", ".ceil_as_usize()", None),
           ],
           spec=r"""
    ensures
        // C15: a formatted field has at least the requested width (counted in grapheme clusters) ...
        format_options matches Some(o) ==> (o.min_width matches Some(w) ==> g(r) >= w),                      // @at_least_the_requested_width
        // ... exactly that width when the value is shorter, and the value itself otherwise
        format_options matches Some(o) ==> (o.min_width matches Some(w) ==> (g(rendered) < w ==> g(r) == w)),   // @padded_to_exactly_the_width
        format_options matches Some(o) ==> (o.min_width matches Some(w) ==> (g(rendered) >= w ==> r == rendered)),   // @long_values_unchanged
        format_options matches Some(o) ==> (o.min_width is None ==> r == rendered),
        format_options is None ==> r == rendered,                                                            // @no_options_no_change
        // alignment: where the fill goes
        format_options matches Some(o) ==> (o.min_width matches Some(w) ==> (g(rendered) < w ==> (
            (o.alignment is Left || (o.alignment is Default && !value_is_number)) ==> r == cat(rendered, rep(self.fill_of(*o), (w - g(rendered)) as nat))))),   // @left_alignment_fills_after
        format_options matches Some(o) ==> (o.min_width matches Some(w) ==> (g(rendered) < w ==> (
            (o.alignment is Right || (o.alignment is Default && value_is_number)) ==> r == cat(rep(self.fill_of(*o), (w - g(rendered)) as nat), rendered)))),   // @right_alignment_fills_before
        format_options matches Some(o) ==> (o.min_width matches Some(w) ==> (g(rendered) < w ==> (
            o.alignment is Center ==> r == cat(cat(rep(self.fill_of(*o), ((w - g(rendered)) / 2) as nat), rendered), rep(self.fill_of(*o), ((w - g(rendered)) - (w - g(rendered)) / 2) as nat))))),   // @center_alignment_splits_the_fill
"""),
    ],
    epilogue=r"""
// ---- vacuity guard: MUST FAIL
proof fn canary_strformat(t: Text, w: u32) requires g(t) < w ensures false {}
""",
    canaries=("canary_strformat",),
)
