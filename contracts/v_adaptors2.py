"""V-adaptors2: the grouping adaptors (crates/runtime/src/core_lib/iterator/adaptors.rs): Chunks, Windows,
Enumerate, Intersperse, in the world of V-adaptors (the adapted iterator is an opaque sequence source).

Contracts only. Function bodies come from /repo at run time.
"""
from engine.unit import Fn, Raw, Type, Unit
from contracts import v_adaptors as va

F = "crates/runtime/src/core_lib/iterator/adaptors.rs"
P = ("C13", "C06")

PRELUDE = va.PRELUDE + r"""
// ---- additions for the grouping adaptors
uninterp spec fn tuple_of(vs: Seq<KValue>) -> KValue;
// `KTuple::from(chunk).into()` (a Vec of values becomes ONE tuple value), rule R5
#[verifier::external_body]
fn tuple_output(v: Vec<KValue>) -> (r: Output) ensures r == KIteratorOutput::Value(tuple_of(v@)) { unimplemented!() }
// the values of a run of outputs that has no error in it
spec fn values(s: Seq<Output>) -> Seq<KValue> { Seq::new(s.len(), |i: int| as_value(s[i])->0) }
spec fn all_values(s: Seq<Output>) -> bool { forall|i: int| 0 <= i < s.len() ==> as_value(#[trigger] s[i]) is Some }

// size_of::<KValue>() in bytes: not known here, at least one
uninterp spec fn kvalue_size() -> int;
#[verifier::external_body] proof fn axiom_kvalue_size() ensures kvalue_size() >= 1 {}
// std: `Vec::with_capacity` "Panics if the new capacity exceeds isize::MAX bytes" - a precondition, from its
// documentation (vstd's specification of with_capacity has none)
spec fn allocatable(count: int) -> bool { count * kvalue_size() <= isize::MAX }
proof fn lemma_allocatable_mono(a: int, b: int) requires 0 <= a <= b, allocatable(b) ensures allocatable(a) {
    axiom_kvalue_size();
    assert(a * kvalue_size() <= b * kvalue_size()) by (nonlinear_arith) requires a <= b, kvalue_size() >= 1;
}
// `chunk.get_or_insert_with(|| Vec::with_capacity(cap)).push(value)` (rule R5; std Option::get_or_insert_with:
// the closure runs only when the option is None)
#[verifier::external_body]
fn push_to_chunk(chunk: &mut Option<Vec<KValue>>, cap: usize, value: KValue)
    requires *old(chunk) is None ==> allocatable(cap as int),   // @chunk_buffer_allocatable
    ensures *final(chunk) matches Some(v) && v@ == (match *old(chunk) { Some(o) => o@, None => Seq::empty() }).push(value),
{ unimplemented!() }
// VecDeque<KValue> (rule R5 on the field's type): std's documented behaviour of the four operations used
#[verifier::external_body] struct Deque { _p: u8 }
impl Deque {
    uninterp spec fn view(&self) -> Seq<KValue>;
    // "Panics if the new capacity exceeds isize::MAX bytes"
    #[verifier::external_body]
    fn with_capacity(cap: usize) -> (r: Deque) requires allocatable(cap as int) ensures r@.len() == 0 { unimplemented!() }   // @window_buffer_allocatable
    #[verifier::external_body]
    fn pop_front(&mut self) -> (r: Option<KValue>)
        ensures old(self)@.len() > 0 ==> r == Some(old(self)@[0]) && final(self)@ == old(self)@.drop_first(), old(self)@.len() == 0 ==> r is None && final(self)@ == old(self)@,
    { unimplemented!() }
    #[verifier::external_body]
    fn len(&self) -> (r: usize) ensures r == self@.len() { unimplemented!() }
    #[verifier::external_body]
    fn push_back(&mut self, v: KValue) ensures final(self)@ == old(self)@.push(v) { unimplemented!() }
    // `self.cache.iter().cloned().collect()` (rule R5): the elements, front to back
    #[verifier::external_body]
    fn to_vec(&self) -> (r: Vec<KValue>) ensures r@ == self@ { unimplemented!() }
}
impl KIterator {
    // `for x in self.iter.clone().take(n)`: KIterator is a shared handle (`#[derive(Clone)] struct KIterator(PtrMut<dyn
    // KotoIterator>)`), so the clone pulls from THIS source; std Take::next: nothing once n elements were taken
    // (the source is not touched), otherwise one less to take and the source's next element (rule R5)
    #[verifier::external_body]
    fn take_next(&mut self, left: &mut usize) -> (r: Option<Output>)
        ensures
            *old(left) == 0 ==> r is None && *final(left) == 0 && final(self).rem() == old(self).rem(),
            *old(left) > 0 ==> *final(left) == *old(left) - 1
                && (old(self).rem().len() > 0 ==> r == Some(old(self).rem()[0]) && final(self).rem() == old(self).rem().drop_first())
                && (old(self).rem().len() == 0 ==> r is None && final(self).rem() == old(self).rem()),
    { unimplemented!() }
    // the lower bound of the source's size hint: never more than what it still has to yield (std's contract for
    // size_hint; V-cursors / V-range / V-stringiter prove it for the built-in sources)
    #[verifier::external_body]
    fn size_hint(&self) -> (r: (usize, Option<usize>)) ensures r.0 <= self.rem().len() { unimplemented!() }
}
"""

UNIT = Unit(
    name="V-adaptors2",
    prelude=PRELUDE,
    items=[
        # ------------------------------------------------------------------ chunks
        Type(F, "struct Chunks"),
        Type(F, "enum ChunksError"),
        Raw(r"""
    spec fn wf(&self) -> bool { self.chunk_size >= 1 }
""", impl_of="impl Chunks"),
        Fn(F, "impl Chunks :: fn new", props=P, subst=[("StdResult<Self, ChunksError>", "Result<Self, ChunksError>", 1)],
           spec=r"""
    ensures (r is Ok) == (chunk_size >= 1), r matches Ok(c) ==> c.wf() && c.chunk_size == chunk_size && c.iter == iter,   // @chunk_size_zero_is_an_error
"""),
        Fn(F, "impl Iterator for Chunks :: fn next", props=P, impl_as="impl Chunks",
           subst=[("Option<Self::Item>", "Option<Output>", 1),
                  (r"for output in self\.iter\.clone\(\)\.take\((.*?)\) \{", r"let mut left__ = \1;\n        while let Some(output) = self.iter.take_next(&mut left__) {", 1, "re"),
                  ("match KValue::try_from(output) {", "match kvalue_try_from(output) {", 1),
                  # a type ascription (inference cannot see through the loop invariant)
                  ("let mut chunk = None;", "let mut chunk: Option<Vec<KValue>> = None;", 1),
                  (r"chunk\s*\.get_or_insert_with\(\|\| Vec::with_capacity\((.*?)\)\)\s*\.push\(value\)", r"push_to_chunk(&mut chunk, \1, value)", 1, "re"),
                  ("chunk.map(|chunk| KTuple::from(chunk).into())", "chunk.map(tuple_output)", 1)],
           before=[("let mut left__ =", "let ghost mut j: int = 0; proof { let s = old(self).iter.rem(); lemma_allocatable_mono(capacity as int, if (self.chunk_size as int) < s.len() { self.chunk_size as int } else { s.len() as int }); assert(s.skip(0) =~= s); }"),
                   ("chunk.map(tuple_output)", """proof {
    let s = old(self).iter.rem(); let k = if (self.chunk_size as int) < s.len() { self.chunk_size as int } else { s.len() as int };
    assert forall|e: int| 0 <= e < k implies as_value(s[e]) is Some by { assert(s.take(k)[e] == s[e]); }
}""")],
           loops={1: r"""
            invariant
                self.chunk_size == old(self).chunk_size, self.wf(), 0 <= left__ <= self.chunk_size,
                // j: how many elements were pulled into the chunk so far
                ({ let s = old(self).iter.rem();
                   &&& 0 <= j <= s.len() && j + left__ <= self.chunk_size && (j + left__ == self.chunk_size || self.iter.rem().len() == 0)
                   &&& self.iter.rem() =~= s.skip(j) && all_values(s.take(j))
                   &&& (j == 0 ==> chunk is None)
                   &&& (j > 0 ==> (chunk matches Some(v) && v@ == values(s.take(j)))) }),
                allocatable(capacity as int),
            ensures
                left__ == 0 || self.iter.rem().len() == 0,
            decreases left__,
"""},
           loop_open={1: r"""proof {
    let s = old(self).iter.rem();
    assert(s.skip(j)[0] == s[j]);
    assert(s.skip(j).drop_first() =~= s.skip(j + 1));
    assert(s.take(j + 1) =~= s.take(j).push(s[j]));
    assert(values(s.take(j + 1)) =~= values(s.take(j)).push(as_value(s[j])->0));
    let k = if (self.chunk_size as int) < s.len() { self.chunk_size as int } else { s.len() as int };
    // the first error of the source is the only position that can interrupt the chunk
    assert forall|e: int| 0 <= e < k && all_values(s.take(e)) && as_value(s[e]) is None && as_value(s[j]) is None implies e == j by {
        if e < j { assert(s.take(j)[e] == s[e]); } else if e > j { assert(s.take(e)[j] == s[j]); }
    }
    assert forall|i: int| 0 <= i < j + 1 && as_value(s[j]) is Some implies as_value(#[trigger] s.take(j + 1)[i]) is Some by { if i < j { assert(s.take(j)[i] == s[i]); } }
    j = j + 1;
}"""},
           spec=r"""
    requires old(self).wf(),
        // ASSUMED (C06 leaves gigantic allocations out): a chunk that the source can really fill fits in memory
        allocatable(if (old(self).chunk_size as int) < old(self).iter.rem().len() { old(self).chunk_size as int } else { old(self).iter.rem().len() as int }),
    ensures
        // C13: the next chunk is the next min(n, what is left) elements of the source as ONE tuple, in order; the
        // source is advanced past exactly those
        ({ let s = old(self).iter.rem(); let k = if (old(self).chunk_size as int) < s.len() { old(self).chunk_size as int } else { s.len() as int };
           &&& (k == 0 ==> r is None && final(self).iter.rem() == s)                                                                      // @none_when_the_source_is_empty
           &&& (k > 0 && all_values(s.take(k)) ==> r == Some(KIteratorOutput::Value(tuple_of(values(s.take(k))))) && final(self).iter.rem() == s.skip(k))   // @next_n_elements_as_one_tuple
           // an error of the source is passed on in place of the chunk it interrupts
           &&& (forall|e: int| 0 <= e < k && all_values(s.take(e)) && as_value(s[e]) is None ==> r == Some(s[e]) && final(self).iter.rem() == s.skip(e + 1)) }),   // @source_errors_pass
        final(self).chunk_size == old(self).chunk_size,
"""),
        # ------------------------------------------------------------------ windows
        Type(F, "struct Windows", subst=[("VecDeque<KValue>", "Deque", 1)]),
        Type(F, "enum WindowsError"),
        Raw(r"""
    spec fn wf(&self) -> bool { self.window_size >= 1 && self.cache@.len() <= self.window_size }
    // what the window holds once the oldest element has been dropped
    spec fn kept(&self) -> Seq<KValue> { if self.cache@.len() > 0 { self.cache@.drop_first() } else { self.cache@ } }
""", impl_of="impl Windows"),
        Fn(F, "impl Windows :: fn new", props=P,
           subst=[("StdResult<Self, WindowsError>", "Result<Self, WindowsError>", 1), ("VecDeque::with_capacity(", "Deque::with_capacity(", 1)],
           before=[("Ok(Self {", "proof { lemma_allocatable_mono(capacity as int, if (window_size as int) < iter.rem().len() { window_size as int } else { iter.rem().len() as int }); }")],
           spec=r"""
    requires
        // ASSUMED (C06 leaves gigantic allocations out): a window that the source can really fill fits in memory
        allocatable(if (window_size as int) < iter.rem().len() { window_size as int } else { iter.rem().len() as int }),
    ensures (r is Ok) == (window_size >= 1), r matches Ok(w) ==> w.wf() && w.window_size == window_size && w.iter == iter && w.cache@.len() == 0,   // @window_size_zero_is_an_error
"""),
        Fn(F, "impl Iterator for Windows :: fn next", props=P, impl_as="impl Windows",
           subst=[("Option<Self::Item>", "Option<Output>", 1),
                  ("match KValue::try_from(output) {", "match kvalue_try_from(output) {", 1),
                  (r"let result: Vec<_> = self\.cache\.iter\(\)\.cloned\(\)\.collect\(\);", "let result: Vec<KValue> = self.cache.to_vec();", 1, "re"),
                  ("Some(KTuple::from(result).into())", "Some(tuple_output(result))", 1)],
           before=[("while self.cache.len() < self.window_size {", "let ghost c0 = self.cache@; let ghost mut j: int = 0; proof { assert(old(self).iter.rem().skip(0) =~= old(self).iter.rem()); assert(old(self).iter.rem().take(0) =~= Seq::empty()); assert(values(Seq::<Output>::empty()) =~= Seq::<KValue>::empty()); }"),
                   ("match kvalue_try_from(output) {", """proof {
    let s = old(self).iter.rem();
    assert(s.skip(j)[0] == s[j]);
    assert(s.skip(j).drop_first() =~= s.skip(j + 1));
    assert(s.take(j + 1) =~= s.take(j).push(s[j]));
    assert(values(s.take(j + 1)) =~= values(s.take(j)).push(as_value(s[j])->0));
    assert forall|e: int| 0 <= e < s.len() && all_values(s.take(e)) && as_value(s[e]) is None && as_value(s[j]) is None implies e == j by {
        if e < j { assert(s.take(j)[e] == s[e]); } else if e > j { assert(s.take(e)[j] == s[j]); }
    }
    assert forall|i: int| 0 <= i < j + 1 && as_value(s[j]) is Some implies as_value(#[trigger] s.take(j + 1)[i]) is Some by { if i < j { assert(s.take(j)[i] == s[i]); } }
    let need = self.window_size - c0.len();
    assert(j < need);
    if s.len() >= need { assert(s.take(need)[j] == s[j]); }
    j = j + 1;
}"""),
                   ("if self.cache.len()", """proof {
    let s = old(self).iter.rem();
    assert forall|e: int| 0 <= e < j implies as_value(s[e]) is Some by { assert(s.take(j)[e] == s[e]); }
}""")],
           loops={1: r"""
            invariant
                self.window_size == old(self).window_size, self.window_size >= 1, c0 == old(self).kept(), c0.len() < self.window_size || j == 0,
                ({ let s = old(self).iter.rem();
                   &&& 0 <= j <= s.len() && self.iter.rem() =~= s.skip(j) && all_values(s.take(j))
                   &&& self.cache@ =~= c0 + values(s.take(j)) && self.cache@.len() <= self.window_size }),
            ensures
                self.cache@.len() == self.window_size || self.iter.rem().len() == 0,
            decreases self.window_size - self.cache@.len(),
"""},
           spec=r"""
    requires old(self).wf(),
    ensures
        final(self).window_size == old(self).window_size,
        // C13: the oldest element leaves the window, the source is pulled until the window is full again (one pull per
        // window once it has been filled), and the window's elements are yielded as ONE tuple, oldest first; when
        // the source runs out first there is no further window
        ({ let s = old(self).iter.rem(); let c0 = old(self).kept(); let need = old(self).window_size - c0.len();
           &&& (s.len() >= need && all_values(s.take(need)) ==> r == Some(KIteratorOutput::Value(tuple_of(c0 + values(s.take(need)))))
                    && final(self).cache@ =~= c0 + values(s.take(need)) && final(self).iter.rem() =~= s.skip(need))                        // @window_slides_by_one
           &&& (s.len() < need && all_values(s) ==> r is None && final(self).iter.rem().len() == 0)                                        // @no_window_when_the_source_runs_out
           // an error of the source is passed on in place of the window it interrupts
           &&& (forall|e: int| 0 <= e < need && e < s.len() && all_values(s.take(e)) && as_value(s[e]) is None ==> r == Some(s[e]) && final(self).iter.rem() =~= s.skip(e + 1)) }),   // @source_errors_pass
        final(self).wf(),
"""),
    ],
    epilogue=r"""
// ---- vacuity guard: MUST FAIL
proof fn canary_adaptors2(c: Chunks) requires c.wf(), c.iter.rem().len() > 3, allocatable(2) ensures false {}
""",
    canaries=("canary_adaptors2",),
)
