"""V-tuple: KTuple as a window onto shared, immutable data (crates/runtime/src/types/tuple.rs).

Contracts only. Function bodies come from /repo at run time.
"""
from engine.unit import Fn, Raw, Type, Unit

T = "crates/runtime/src/types/tuple.rs"
P = ("C14", "C13", "C06")

PRELUDE = r"""
global size_of usize == 8;   // assumption: 64-bit target
use core::ops::{Deref, Range};

// ---- shims (assumptions)
#[verifier::external_body] struct KValue { _p: u8 }
// koto_memory::Ptr (Rc/Arc): value semantics; make_mut gives unique access (clone-on-write)
pub struct Ptr<T> { pub v: T }
impl<T> core::ops::Deref for Ptr<T> {
    type Target = T;
    fn deref(&self) -> (r: &T) ensures *r == self.v { &self.v }
}
impl<T> Ptr<T> {
    #[verifier::external_body]
    fn make_mut(p: &mut Ptr<T>) -> (r: &mut T) ensures *r == old(p).v, final(p).v == *final(r) { unimplemented!() }
}
// the shared element buffer (Ptr<Vec<KValue>>): never written through a tuple
#[verifier::external_body] pub struct TupleData { _p: u8 }
impl TupleData {
    pub uninterp spec fn elems(&self) -> Seq<KValue>;
    // `self.data.get(a..b).is_some()` on the Vec (rule R5): a <= b <= len (std)
    #[verifier::external_body]
    fn get_is_some(&self, r: Range<usize>) -> (b: bool) ensures b == (r.start <= r.end && r.end <= self.elems().len()) { unimplemented!() }
    #[verifier::external_body] fn len(&self) -> (r: usize) ensures r == self.elems().len() { unimplemented!() }
    #[verifier::external_body] fn clone(&self) -> (r: Self) ensures r == *self { unimplemented!() }
    // `data.first().cloned()` / `data.last().cloned()` on the Vec (rule R5)
    #[verifier::external_body]
    fn first_cloned(&self) -> (r: Option<KValue>) ensures r == (if self.elems().len() > 0 { Some(self.elems()[0]) } else { None }) { unimplemented!() }
    #[verifier::external_body]
    fn last_cloned(&self) -> (r: Option<KValue>) ensures r == (if self.elems().len() > 0 { Some(self.elems().last()) } else { None }) { unimplemented!() }
}
pub struct TupleSlice { pub data: TupleData, pub bounds: Range<usize> }
pub struct TupleSlice16 { pub data: TupleData, pub bounds: Range<u16> }
impl TupleSlice {
    pub open spec fn valid(&self) -> bool { self.bounds.start <= self.bounds.end && self.bounds.end <= self.data.elems().len() }
    #[verifier::external_body] fn clone(&self) -> (r: Self) ensures r == *self { unimplemented!() }
    // Deref to the window (`unsafe get_unchecked(bounds)`), then `.first().cloned()` / `.last().cloned()` (rule R5)
    #[verifier::external_body]
    fn first_cloned(&self) -> (r: Option<KValue>) requires self.valid()
        ensures r == (if self.bounds.start < self.bounds.end { Some(self.data.elems()[self.bounds.start as int]) } else { None }) { unimplemented!() }
    #[verifier::external_body]
    fn last_cloned(&self) -> (r: Option<KValue>) requires self.valid()
        ensures r == (if self.bounds.start < self.bounds.end { Some(self.data.elems()[self.bounds.end - 1]) } else { None }) { unimplemented!() }
}
impl TupleSlice16 {
    pub open spec fn valid(&self) -> bool { self.bounds.start <= self.bounds.end && self.bounds.end <= self.data.elems().len() }
    #[verifier::external_body] fn clone(&self) -> (r: Self) ensures r == *self { unimplemented!() }
    #[verifier::external_body]
    fn first_cloned(&self) -> (r: Option<KValue>) requires self.valid()
        ensures r == (if self.bounds.start < self.bounds.end { Some(self.data.elems()[self.bounds.start as int]) } else { None }) { unimplemented!() }
    #[verifier::external_body]
    fn last_cloned(&self) -> (r: Option<KValue>) requires self.valid()
        ensures r == (if self.bounds.start < self.bounds.end { Some(self.data.elems()[self.bounds.end - 1]) } else { None }) { unimplemented!() }
    // assumed contract of `impl TryFrom<TupleSlice> for TupleSlice16` (closure + ok_or): narrows the
    // bounds to 16 bit when they fit, otherwise hands the slice back
    #[verifier::external_body]
    fn try_from_slice(slice: TupleSlice) -> (r: Result<TupleSlice16, TupleSlice>)
        ensures r matches Ok(s) ==> s.data == slice.data && s.bounds.start == slice.bounds.start && s.bounds.end == slice.bounds.end,
                r matches Err(s) ==> s == slice,
    { unimplemented!() }
}
// `TupleSlice::from(..)` at call sites: assumed contracts that restate what is PROVED for the real impls
// extracted below as from_data / from_slice16 (a trait impl cannot carry a checked ensures here);
// they exist so that a changed call site is judged and not lost
impl From<TupleData> for TupleSlice {
    #[verifier::external_body]
    fn from(data: TupleData) -> (r: Self) ensures r.data == data && r.bounds.start == 0 && r.bounds.end == data.elems().len() { TupleSlice::from_data(data) }
}
impl From<TupleSlice16> for TupleSlice {
    #[verifier::external_body]
    fn from(slice: TupleSlice16) -> (r: Self) ensures r.data == slice.data && r.bounds.start == slice.bounds.start && r.bounds.end == slice.bounds.end { TupleSlice::from_slice16(slice) }
}
enum Inner { Full(TupleData), Slice(TupleSlice16), SliceLarge(Ptr<TupleSlice>) }
struct KTuple(Inner);
"""

SPECS = r"""
    // the window onto the shared data
    spec fn data(&self) -> TupleData { match self.0 { Inner::Full(d) => d, Inner::Slice(s) => s.data, Inner::SliceLarge(p) => p.v.data } }
    spec fn lo(&self) -> int { match self.0 { Inner::Full(_) => 0, Inner::Slice(s) => s.bounds.start as int, Inner::SliceLarge(p) => p.v.bounds.start as int } }
    spec fn hi(&self) -> int { match self.0 { Inner::Full(d) => d.elems().len() as int, Inner::Slice(s) => s.bounds.end as int, Inner::SliceLarge(p) => p.v.bounds.end as int } }
    spec fn valid(&self) -> bool { 0 <= self.lo() <= self.hi() <= self.data().elems().len() }
    // what a script sees
    spec fn view(&self) -> Seq<KValue> { self.data().elems().subrange(self.lo(), self.hi()) }
"""

POP = r"""
    requires old(self).valid(),
    ensures
        final(self).valid(),
        // C14: "tuples never change once created": popping only narrows THIS window, the shared data
        // (and with it every other tuple or slice looking at it) is untouched
        final(self).data() == old(self).data(),                                                          // @shared_data_untouched
"""

UNIT = Unit(
    name="V-tuple",
    prelude=PRELUDE,
    items=[
        Raw(SPECS, impl_of="impl KTuple"),
        Fn(T, "impl From<TupleSlice16> for KTuple :: fn from", props=P, impl_as="impl KTuple", rename="from_slice16", spec=r"""
    ensures r.data() == slice.data && r.lo() == slice.bounds.start && r.hi() == slice.bounds.end,
"""),
        Fn(T, "impl From<TupleSlice> for KTuple :: fn from", props=P, impl_as="impl KTuple", rename="from_slice",
           subst=[("TupleSlice16::try_from(slice)", "TupleSlice16::try_from_slice(slice)", 1),
                  ("Self::from(slice16)", "KTuple::from_slice16(slice16)", 1),
                  ("slice.into()", "Ptr { v: slice }", 1)],
           spec=r"""
    ensures r.data() == slice.data && r.lo() == slice.bounds.start && r.hi() == slice.bounds.end,       // @same_window_in_either_representation
"""),
        Fn(T, "impl From<Ptr<Vec<KValue>>> for TupleSlice :: fn from", props=P, impl_as="impl TupleSlice", rename="from_data",
           subst=[("data: Ptr<Vec<KValue>>", "data: TupleData", 1)],
           spec=r"""
    ensures r.data == data && r.bounds.start == 0 && r.bounds.end == data.elems().len(), r.valid(),
"""),
        Fn(T, "impl From<TupleSlice16> for TupleSlice :: fn from", props=P, impl_as="impl TupleSlice", rename="from_slice16",
           spec=r"""
    ensures r.data == slice.data && r.bounds.start == slice.bounds.start && r.bounds.end == slice.bounds.end,
"""),
        Fn(T, "fn u16_to_usize_range", props=P, spec=r"""
    ensures r.start == r_.start && r.end == r_.end,
""", subst=[("(r: Range<u16>)", "(r_: Range<u16>)", 1), ("r.start as usize..r.end as usize", "r_.start as usize..r_.end as usize", 1)]),
        Fn(T, "impl TupleSlice :: fn with_bounds", props=P,
           subst=[("self.data.get(new_bounds.clone()).is_some()", "self.data.get_is_some(new_bounds.start..new_bounds.end)", 1)],
           spec=r"""
    requires self.valid(),
    ensures
        (r is Some) == (bounds.start <= bounds.end && self.bounds.start + bounds.end <= self.bounds.end),
        r matches Some(child) ==> child.valid() && child.data == self.data
            && child.bounds.start == self.bounds.start + bounds.start && child.bounds.end == self.bounds.start + bounds.end,
"""),
        Fn(T, "impl KTuple :: fn make_sub_tuple", props=P,
           subst=[(".map(Self::from)", ".map(KTuple::from_slice)", 1)],
           spec=r"""
    requires self.valid(),
    ensures
        // C14: "the result will always be a subset of the input tuple", for every representation
        (r is Some) == (bounds.start <= bounds.end && bounds.end <= self.view().len()),                  // @some_iff_inside_this_tuple
        r matches Some(sub) ==> sub.valid() && sub.data() == self.data() && sub.view() =~= self.view().subrange(bounds.start as int, bounds.end as int),   // @sub_tuple_is_the_selected_part
"""),
        Fn(T, "impl KTuple :: fn pop_front", props=P,
           subst=[(".first().cloned()", ".first_cloned()", 3), ("Self::from(TupleSlice {", "KTuple::from_slice(TupleSlice {", 1)],
           spec=POP + r"""
        // C13: yields the first element of the window and keeps the rest, in order
        old(self).view().len() > 0 ==> r == Some(old(self).view()[0]) && final(self).view() =~= old(self).view().drop_first(),   // @yields_first_keeps_rest
        old(self).view().len() == 0 ==> r is None && final(self).view() =~= old(self).view(),                                     // @empty_stays_empty
"""),
        Fn(T, "impl KTuple :: fn pop_back", props=P,
           subst=[(".last().cloned()", ".last_cloned()", 3), ("Self::from(TupleSlice {", "KTuple::from_slice(TupleSlice {", 1)],
           spec=POP + r"""
        old(self).view().len() > 0 ==> r == Some(old(self).view().last()) && final(self).view() =~= old(self).view().drop_last(),   // @yields_last_keeps_rest
        old(self).view().len() == 0 ==> r is None && final(self).view() =~= old(self).view(),                                        // @empty_stays_empty
"""),
    ],
    epilogue=r"""
// ---- vacuity guard: MUST FAIL
proof fn canary_tuple(t: KTuple) requires t.valid(), t.view().len() > 1 ensures false {}
""",
    canaries=("canary_tuple",),
)
