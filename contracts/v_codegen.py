"""V-codegen: the control-flow skeletons of the code generator (crates/bytecode/src/compiler.rs):
which instructions a compile_* function emits, in which order, into which registers, and where each
jump it emits lands. The recursive generator (compile_node) and the emission helpers are contracts;
the helpers' contracts restate what V-emit PROVES for them (placeholder at the end of the code, a
patched placeholder lands at the end of the code), in terms of a ghost emission trace.

Contracts only. Function bodies come from /repo at run time.
"""
from engine.unit import Fn, Raw, Type, Unit

F = "crates/bytecode/src/compiler.rs"
OPF = "crates/bytecode/src/op.rs"
NODEF = "crates/parser/src/node.rs"

PRELUDE = r"""
global size_of usize == 8;   // assumption: 64-bit target

// ---- shims (assumptions)
#[verifier::external_body] struct Error { _p: u8 }
type Result<T> = core::result::Result<T, Error>;
#[derive(Clone, Copy, PartialEq, Eq)] struct AstIndex(u32);
#[derive(Clone, Copy, PartialEq, Eq)] struct ConstantIndex(u32);
// `(*type_index).into()` (impl From<ConstantIndex> for u32: the wrapped number), rule R5
fn constant_index_u32(c: ConstantIndex) -> (r: u32) ensures r == c.0 { c.0 }
// AstVec<T> is SmallVec<[T; 4]>: treated as a Vec
type AstVec<T> = Vec<T>;
// node types that the functions under contract never look into
#[verifier::external_body] struct MetaKeyId { _p: u8 }
#[verifier::external_body] struct ChainNode { _p: u8 }
#[verifier::external_body] struct AstString { _p: u8 }
#[verifier::external_body] struct Function { _p: u8 }
#[verifier::external_body] struct ImportItem { _p: u8 }
#[verifier::external_body] struct AstFor { _p: u8 }
// a node with its span (parser/src/ast.rs)
struct AstNode { node: Node, span: AstIndex }
#[verifier::external_body] struct Ast { _p: u8 }
impl Ast {
    uninterp spec fn at(&self, i: AstIndex) -> AstNode;
    #[verifier::external_body] fn node(&self, i: AstIndex) -> (r: &AstNode) ensures *r == self.at(i) { unimplemented!() }
}

// the compiler's error kinds: the one the functions under contract construct, and the rest
#[verifier::external_body] struct ErrStr { _p: u8 }
// `"comparison".into()` (a String), rule R5
#[verifier::external_body] fn err_str(s: &str) -> ErrStr { unimplemented!() }
enum ErrorKind { InvalidBinaryOp { kind: ErrStr, op: AstBinaryOp }, Other(u8) }

// ---- the ghost emission trace: what has been appended to the code, in order
ghost enum Ev {
    // one instruction at code position `at`; `span`: the node whose span is recorded for it in the
    // debug info (push_op), None for push_op_without_span
    Op { at: int, op: Op, args: Seq<u8>, span: Option<AstNode> },
    // a variable-length integer operand (push_var_u32)
    VarU32 { at: int, n: u32 },
    // the two-byte operand of a forward jump, to be patched
    Hole { at: int },
    // a backward jump (push_jump_back_op) to `target`
    Back { at: int, op: Op, target: int },
    // the code of a sub-expression, occupying [at, end): compiled with result request `want`, gave `out`
    Node { at: int, end: int, node: AstIndex, want: ResultRegister, out: CompileNodeOutput },
    // a call of the function in register `function` (compile_call) with a piped argument, result request `want`
    Call { at: int, end: int, function: u8, piped: Option<u8>, want: ResultRegister },
    // a chain expression (compile_chain) with a piped argument, result request `want`
    Chain { at: int, end: int, chain: (ChainNode, Option<AstIndex>), piped: Option<u8>, want: ResultRegister },
    // a chain expression that is assigned to: `chain OP= rhs`
    ChainAssign { at: int, end: int, chain: (ChainNode, Option<AstIndex>), rhs: Option<u8>, rhs_op: Option<Op>, want: ResultRegister },
    // the value in `register` exported under the name `id` (compile_value_export)
    Export { at: int, id: ConstantIndex, register: u8 },
}
impl Ev {
    spec fn is_op(self, op: Op, args: Seq<u8>) -> bool { self matches Ev::Op { op: o, args: a, .. } && o == op && a =~= args }
    spec fn is_spanned_op(self, op: Op, args: Seq<u8>, span: Option<AstNode>) -> bool { self matches Ev::Op { op: o, args: a, span: s, .. } && o == op && a =~= args && s == span }
    spec fn is_var(self, n: u32) -> bool { self matches Ev::VarU32 { n: m, .. } && m == n }
    spec fn is_node(self, node: AstIndex, want: ResultRegister) -> bool { self matches Ev::Node { node: n, want: w, .. } && n == node && w == want }
    spec fn pos(self) -> int { match self { Ev::Op { at, .. } => at, Ev::VarU32 { at, .. } => at, Ev::Hole { at } => at, Ev::Back { at, .. } => at, Ev::Node { at, .. } => at, Ev::Call { at, .. } => at, Ev::Chain { at, .. } => at, Ev::ChainAssign { at, .. } => at, Ev::Export { at, .. } => at } }
    // the register that holds a sub-expression's value
    spec fn reg(self) -> u8 { match self { Ev::Node { out, .. } => match out.register { Some(r) => r, None => 0 }, _ => 0 } }
    spec fn temporary(self) -> bool { self matches Ev::Node { out, .. } && out.is_temporary }
}
// a loop of the current frame: where it starts, where its value goes, the `break` / condition jumps to patch
ghost struct LoopG { start: int, result: Option<u8>, holes: Set<int> }
ghost struct G {
    trace: Seq<Ev>,
    // forward jumps that have been patched, with the code position each one lands on
    patched: Map<int, int>,
    // size of the current frame's temporary register stack
    regs: int,
    spans: Seq<AstNode>,
    loops: Seq<LoopG>,
    // the current compile frame's declared output type (`-> T`) and whether it is a generator's frame
    output_type: Option<AstIndex>,
    is_generator: bool,
    // whether the code being compiled is at the top level of the script (`frame_stack.len() == 1`)
    top_level: bool,
    // the number of the frame's first temporary register (V-frame: Frame::push_register hands out temporary_base + temporary_count)
    temp_base: int,
}

struct Compiler { bytes: Vec<u8>, settings: CompilerSettings, g: Ghost<G> }

spec fn prefix<T>(a: Seq<T>, b: Seq<T>) -> bool { a.len() <= b.len() && forall|i: int| 0 <= i < a.len() ==> (#[trigger] b[i]) == a[i] }

// every forward-jump operand recorded from trace index `from` on lies inside the code and before whatever was emitted after it
spec fn holes_ok(t: Seq<Ev>, from: int, len: int) -> bool {
    &&& forall|a: int| from <= a < t.len() && (#[trigger] t[a]) is Hole ==> t[a].pos() + 2 <= len
    &&& forall|a: int, b: int| from <= a < b < t.len() && (#[trigger] t[a]) is Hole ==> t[a].pos() + 2 <= (#[trigger] t[b]).pos()
}
// ---- switch: the trace of one arm is 6 events long with a condition, 1 without (`else`)
spec fn sw_cond(ast: &Ast, arm: AstIndex) -> Option<AstIndex> { match ast.at(arm).node { Node::SwitchArm { condition, .. } => condition, _ => None } }
spec fn sw_expr(ast: &Ast, arm: AstIndex) -> AstIndex { match ast.at(arm).node { Node::SwitchArm { expression, .. } => expression, _ => arm } }
#[verifier::opaque] spec fn sw_start(ast: &Ast, arms: Seq<AstIndex>, j: int) -> int decreases j { if j <= 0 { 0 } else { sw_start(ast, arms, j - 1) + (if sw_cond(ast, arms[j - 1]) is Some { 6int } else { 1 }) } }
#[verifier::opaque] spec fn sw_conds(ast: &Ast, arms: Seq<AstIndex>, j: int) -> int decreases j { if j <= 0 { 0 } else { sw_conds(ast, arms, j - 1) + (if sw_cond(ast, arms[j - 1]) is Some { 1int } else { 0 }) } }
// the code of arm `arm`, at trace index i: [condition -> any register, JumpIfFalse on it, (hole), expression -> the
// switch's register, Jump, (hole)]; an `else` arm is just its expression
#[verifier::opaque] spec fn sw_arm_shape(t: Seq<Ev>, i: int, ast: &Ast, arm: AstIndex, want: ResultRegister) -> bool {
    match sw_cond(ast, arm) {
        Some(c) => t[i].is_node(c, ResultRegister::Any) && t[i + 1].is_op(Op::JumpIfFalse, seq![t[i].reg()]) && t[i + 2] is Hole
            && t[i + 3].is_node(sw_expr(ast, arm), want) && t[i + 4].is_op(Op::Jump, Seq::empty()) && t[i + 5] is Hole,
        None => t[i].is_node(sw_expr(ast, arm), want),
    }
}
// a failing condition lands right after the arm; after the arm's expression the switch is left (lands at `end`)
spec fn sw_arm_jumps(t: Seq<Ev>, i: int, ast: &Ast, arm: AstIndex, patched: Map<int, int>, end: int) -> bool {
    sw_cond(ast, arm) is Some ==> patched.contains_key(t[i + 2].pos()) && patched[t[i + 2].pos()] == t[i + 5].pos() + 2
        && patched.contains_key(t[i + 5].pos()) && patched[t[i + 5].pos()] == end
}

// ---- if: the trace of one `else if` block, at trace index i: [condition -> any register, JumpIfFalse on it, (hole),
// block -> the if's register, Jump, (hole)]
#[verifier::opaque] spec fn elif_shape(t: Seq<Ev>, i: int, block: (AstIndex, AstIndex), want: ResultRegister) -> bool {
    t[i].is_node(block.0, ResultRegister::Any) && t[i + 1].is_op(Op::JumpIfFalse, seq![t[i].reg()]) && t[i + 2] is Hole
        && t[i + 3].is_node(block.1, want) && t[i + 4].is_op(Op::Jump, Seq::empty()) && t[i + 5] is Hole
}
proof fn lemma_elif_stable(t0: Seq<Ev>, t1: Seq<Ev>, i: int, block: (AstIndex, AstIndex), want: ResultRegister)
    requires prefix(t0, t1), 0 <= i, i + 6 <= t0.len(), elif_shape(t0, i, block, want),
    ensures elif_shape(t1, i, block, want),
{ reveal(elif_shape); }
// a failing condition lands right after its block; after the block the whole `if` is left (lands at `end`)
#[verifier::opaque] spec fn elif_jumps(t: Seq<Ev>, i: int, patched: Map<int, int>, end: int) -> bool {
    patched.contains_key(t[i + 2].pos()) && patched[t[i + 2].pos()] == t[i + 5].pos() + 2 && patched.contains_key(t[i + 5].pos()) && patched[t[i + 5].pos()] == end
}
// the instruction for an arithmetic operator
spec fn arith_op_spec(op: AstBinaryOp) -> Option<Op> {
    match op {
        AstBinaryOp::Add => Some(Op::Add), AstBinaryOp::Subtract => Some(Op::Subtract), AstBinaryOp::Multiply => Some(Op::Multiply),
        AstBinaryOp::Divide => Some(Op::Divide), AstBinaryOp::Remainder => Some(Op::Remainder), AstBinaryOp::Power => Some(Op::Power),
        _ => None,
    }
}
// the instruction for a compound assignment operator
spec fn compound_op_spec(op: AstBinaryOp) -> Option<Op> {
    match op {
        AstBinaryOp::AddAssign => Some(Op::AddAssign), AstBinaryOp::SubtractAssign => Some(Op::SubtractAssign), AstBinaryOp::MultiplyAssign => Some(Op::MultiplyAssign),
        AstBinaryOp::DivideAssign => Some(Op::DivideAssign), AstBinaryOp::RemainderAssign => Some(Op::RemainderAssign), AstBinaryOp::PowerAssign => Some(Op::PowerAssign),
        _ => None,
    }
}
// ---- chained comparisons
spec fn is_cmp(op: AstBinaryOp) -> bool { op is Less || op is LessOrEqual || op is Greater || op is GreaterOrEqual || op is Equal || op is NotEqual }
// the instruction for a comparison operator
spec fn cmp_op_spec(op: AstBinaryOp) -> core::result::Result<Op, ErrorKind> {
    match op {
        AstBinaryOp::Less => Ok(Op::Less), AstBinaryOp::LessOrEqual => Ok(Op::LessOrEqual), AstBinaryOp::Greater => Ok(Op::Greater),
        AstBinaryOp::GreaterOrEqual => Ok(Op::GreaterOrEqual), AstBinaryOp::Equal => Ok(Op::Equal), AstBinaryOp::NotEqual => Ok(Op::NotEqual),
        _ => Err(arbitrary()),
    }
}
spec fn bin_op(ast: &Ast, i: AstIndex) -> AstBinaryOp { match ast.at(i).node { Node::BinaryOp { op, .. } => op, _ => AstBinaryOp::Add } }
spec fn bin_lhs(ast: &Ast, i: AstIndex) -> AstIndex { match ast.at(i).node { Node::BinaryOp { lhs, .. } => lhs, _ => i } }
spec fn bin_rhs(ast: &Ast, i: AstIndex) -> AstIndex { match ast.at(i).node { Node::BinaryOp { rhs, .. } => rhs, _ => i } }
// `a < b < c ..`: rs[0] is the rhs of the first comparison; as long as it is itself a comparison `x OP y`, x is the
// next operand and y the next rhs: rs = [b < c .., c .., ..], the last one is the final operand
spec fn cmp_chain(ast: &Ast, rhs0: AstIndex, rs: Seq<AstIndex>) -> bool {
    &&& rs.len() >= 1 && rs[0] == rhs0
    &&& forall|i: int| 0 <= i < rs.len() - 1 ==> ast.at(#[trigger] rs[i]).node is BinaryOp && is_cmp(bin_op(ast, rs[i])) && rs[i + 1] == bin_rhs(ast, rs[i])
    &&& !(ast.at(rs.last()).node is BinaryOp && is_cmp(bin_op(ast, rs.last())))
}
// the operator of the i-th comparison of the chain
spec fn cmp_chain_op(ast: &Ast, op0: AstBinaryOp, rs: Seq<AstIndex>, i: int) -> AstBinaryOp { if i <= 0 { op0 } else { bin_op(ast, rs[i - 1]) } }
// the i-th link, at trace index p (the previous operand's node is at trace index `prev`): the next operand -> any register,
// the comparison of the two into the comparison register c, JumpIfFalse on c, (hole)
#[verifier::opaque] spec fn cmp_link(t: Seq<Ev>, p: int, prev: int, operand: AstIndex, op: AstBinaryOp, c: u8) -> bool {
    t[p].is_node(operand, ResultRegister::Any) && (cmp_op_spec(op) matches Ok(o) && t[p + 1].is_op(o, seq![c, t[prev].reg(), t[p].reg()]))
        && t[p + 2].is_op(Op::JumpIfFalse, seq![c]) && t[p + 3] is Hole
}
proof fn lemma_cmp_link_stable(t0: Seq<Ev>, t1: Seq<Ev>, p: int, prev: int, operand: AstIndex, op: AstBinaryOp, c: u8)
    requires prefix(t0, t1), 0 <= prev < p, p + 4 <= t0.len(), cmp_link(t0, p, prev, operand, op, c),
    ensures cmp_link(t1, p, prev, operand, op, c),
{ reveal(cmp_link); }
spec fn cmp_prev(n: int, i: int) -> int { if i <= 0 { n } else { n + 1 + 4 * (i - 1) } }
spec fn sw_len(ast: &Ast, arm: AstIndex) -> int { if sw_cond(ast, arm) is Some { 6 } else { 1 } }
proof fn lemma_sw_step(ast: &Ast, arms: Seq<AstIndex>, k: int)
    requires 0 <= k,
    ensures sw_start(ast, arms, k + 1) == sw_start(ast, arms, k) + sw_len(ast, arms[k]), sw_start(ast, arms, 0) == 0,
            sw_conds(ast, arms, k + 1) == sw_conds(ast, arms, k) + (if sw_cond(ast, arms[k]) is Some { 1int } else { 0 }), sw_conds(ast, arms, 0) == 0,
            0 <= sw_conds(ast, arms, k), 0 <= sw_start(ast, arms, k),
    decreases k,
{ reveal_with_fuel(sw_start, 2); reveal_with_fuel(sw_conds, 2); if k > 0 { lemma_sw_step(ast, arms, k - 1); } }
proof fn lemma_sw_conds_mono(ast: &Ast, arms: Seq<AstIndex>, a: int, b: int)
    requires 0 <= a <= b,
    ensures sw_conds(ast, arms, a) <= sw_conds(ast, arms, b),
    decreases b - a,
{ if a < b { lemma_sw_conds_mono(ast, arms, a, b - 1); lemma_sw_step(ast, arms, b - 1); } }
proof fn lemma_shape_stable(t0: Seq<Ev>, t1: Seq<Ev>, i: int, ast: &Ast, arm: AstIndex, want: ResultRegister)
    requires prefix(t0, t1), 0 <= i, i + sw_len(ast, arm) <= t0.len(), sw_arm_shape(t0, i, ast, arm, want),
    ensures sw_arm_shape(t1, i, ast, arm, want),
{ reveal(sw_arm_shape); }

impl CompileNodeOutput {
    // `self.register.ok_or_else(|| compiler.make_error(ErrorKind::NoResultInExpressionOutput))`
    #[verifier::external_body]
    fn unwrap(&self, compiler: &Compiler) -> (r: Result<u8>) ensures (r is Ok) == (self.register is Some), r matches Ok(v) ==> Some(v) == self.register { unimplemented!() }
}
spec fn fixed_or_none_spec(register: Option<u8>) -> ResultRegister { match register { Some(x) => ResultRegister::Fixed(x), None => ResultRegister::None } }
// `n.unsigned_abs()` on an i16 (rule R5)
#[verifier::external_body]
fn i16_unsigned_abs(n: i16) -> (r: u16) ensures r == (if n < 0 { -(n as int) } else { n as int }) { unimplemented!() }
// `x.map_or(ResultRegister::None, ResultRegister::Fixed)` written out (Verus has no constructors as function values), rule R5
fn fixed_or_none(register: Option<u8>) -> (r: ResultRegister) ensures r == (match register { Some(x) => ResultRegister::Fixed(x), None => ResultRegister::None }) {
    match register { Some(x) => ResultRegister::Fixed(x), None => ResultRegister::None }
}
"""

HELPERS = r"""
    spec fn len(&self) -> int { self.bytes@.len() as int }
    // what no emission changes: the settings and the current compile frame's declared output type / generator flag
    spec fn fixed(&self) -> (CompilerSettings, Option<AstIndex>, bool, bool, int) { (self.settings, self.g@.output_type, self.g@.is_generator, self.g@.top_level, self.g@.temp_base) }
    // everything but the code, the trace and the patches
    spec fn same_frame_state(&self, o: &Compiler) -> bool { self.g@.regs == o.g@.regs && self.g@.spans =~= o.g@.spans && self.g@.loops =~= o.g@.loops && self.fixed() == o.fixed() }

    // ---- emission helpers: PROVED in V-emit / K-emit in terms of the bytes; restated over the trace
    #[verifier::external_body]
    fn push_op(&mut self, op: Op, bytes: &[u8])
        requires old(self).g@.spans.len() > 0,   // @span_stack_not_empty - push_op reads the current span (`expect("Empty span stack")`)
        ensures final(self).len() == old(self).len() + 1 + bytes@.len(), final(self).same_frame_state(old(self)), final(self).g@.patched == old(self).g@.patched,
            final(self).g@.trace == old(self).g@.trace.push(Ev::Op { at: old(self).len(), op, args: bytes@, span: Some(old(self).g@.spans.last()) }),
    { unimplemented!() }
    #[verifier::external_body]
    fn push_op_without_span(&mut self, op: Op, bytes: &[u8])
        ensures final(self).len() == old(self).len() + 1 + bytes@.len(), final(self).same_frame_state(old(self)), final(self).g@.patched == old(self).g@.patched,
            final(self).g@.trace == old(self).g@.trace.push(Ev::Op { at: old(self).len(), op, args: bytes@, span: None }),
    { unimplemented!() }
    #[verifier::external_body]
    fn push_var_u32(&mut self, n: u32)
        ensures final(self).len() > old(self).len(), final(self).same_frame_state(old(self)), final(self).g@.patched == old(self).g@.patched,
            final(self).g@.trace == old(self).g@.trace.push(Ev::VarU32 { at: old(self).len(), n }),
    { unimplemented!() }
    #[verifier::external_body]
    fn push_offset_placeholder(&mut self) -> (r: usize)
        ensures r == old(self).len(), final(self).len() == old(self).len() + 2, final(self).same_frame_state(old(self)), final(self).g@.patched == old(self).g@.patched,
            final(self).g@.trace == old(self).g@.trace.push(Ev::Hole { at: old(self).len() }),
    { unimplemented!() }
    // V-emit update_offset_placeholder::lands_at_end_of_code
    #[verifier::external_body]
    fn update_offset_placeholder(&mut self, offset_ip: usize) -> (r: Result<()>)
        requires offset_ip + 2 <= old(self).len(),   // @placeholder_inside_the_code - V-emit's precondition (the operand is written by index)
        ensures final(self).len() == old(self).len(), final(self).same_frame_state(old(self)), final(self).g@.trace == old(self).g@.trace,
            r is Ok ==> final(self).g@.patched == old(self).g@.patched.insert(offset_ip as int, old(self).len()),
            r is Err ==> final(self).g@.patched == old(self).g@.patched,
    { unimplemented!() }
    // V-emit push_jump_back_op::lands_on_target
    #[verifier::external_body]
    fn push_jump_back_op(&mut self, op: Op, bytes: &[u8], target_ip: usize) -> (r: Result<()>)
        ensures final(self).same_frame_state(old(self)), final(self).g@.patched == old(self).g@.patched,
            r is Ok ==> final(self).len() == old(self).len() + 1 + bytes@.len() + 2 && final(self).g@.trace == old(self).g@.trace.push(Ev::Back { at: old(self).len(), op, target: target_ip as int }),
            r is Err ==> final(self).len() == old(self).len() && final(self).g@.trace == old(self).g@.trace,
    { unimplemented!() }
    // V-emit compile_node_with_jump_offset::jump_lands_right_after_the_node
    #[verifier::external_body]
    fn compile_node_with_jump_offset(&mut self, node_index: AstIndex, ctx: CompileNodeContext) -> (r: Result<CompileNodeOutput>)
        requires old(self).g@.spans.len() > 0,
        ensures r matches Ok(out) ==> ({
            &&& Self::node_post(old(self), final(self), node_index, ctx, out, old(self).len() + 2, old(self).g@.trace.push(Ev::Hole { at: old(self).len() }))
            &&& final(self).g@.patched.contains_key(old(self).len()) && final(self).g@.patched[old(self).len()] == final(self).len()
        }),
    { unimplemented!() }

    // ---- ASSUMED contract of the recursive code generator (compile_node, 330 lines, dispatching to every
    // compile_* function): it appends the node's code (one Node event), honours the result request
    // (None / Any / Fixed), leaves at most its own temporary result on the register stack, patches every
    // jump of its own, balances the span stack, and adds `break` jumps only to the loops that exist
    spec fn node_post(pre: &Compiler, post: &Compiler, node: AstIndex, ctx: CompileNodeContext, out: CompileNodeOutput, at: int, before: Seq<Ev>) -> bool {
        &&& post.len() >= at
        &&& post.g@.trace == before.push(Ev::Node { at, end: post.len(), node, want: ctx.result_register, out })
        // (a node that never yields a value - break, continue - reports no register whatever was asked for)
        &&& (ctx.result_register matches ResultRegister::Fixed(x) ==> (out.register is Some ==> out.register == Some(x) && !out.is_temporary))
        &&& (out.is_temporary ==> out.register is Some && ctx.result_register is Any)
        &&& post.g@.regs == pre.g@.regs + (if out.is_temporary { 1int } else { 0 })
        &&& Self::frame_post(pre, post, pre.len())
    }
    // what every compile_* function leaves alone: the span stack, the settings, the loops that exist (it may
    // register `break` jumps with them: operands inside ITS code), and every patch of a jump operand that lies
    // before its code
    spec fn frame_post(pre: &Compiler, post: &Compiler, start: int) -> bool {
        post.g@.spans == pre.g@.spans && Self::code_frame_post(pre, post, start)
    }
    spec fn code_frame_post(pre: &Compiler, post: &Compiler, start: int) -> bool {
        &&& post.fixed() == pre.fixed()
        // (`break` / `continue` only ever touch the innermost loop: Frame::push_loop_jump_placeholder uses loop_stack.last_mut())
        &&& post.g@.loops.len() == pre.g@.loops.len()
        &&& (pre.g@.loops.len() > 0 ==> post.g@.loops.drop_last() == pre.g@.loops.drop_last() && post.g@.loops.last().start == pre.g@.loops.last().start
                && post.g@.loops.last().result == pre.g@.loops.last().result && pre.g@.loops.last().holes.subset_of(post.g@.loops.last().holes))
        &&& Self::patches_below_same(pre, post, start)
    }
    spec fn patches_below_same(pre: &Compiler, post: &Compiler, lim: int) -> bool {
        &&& forall|h: int| #![trigger post.g@.patched.contains_key(h)] #![trigger pre.g@.patched.contains_key(h)] h < lim ==> post.g@.patched.contains_key(h) == pre.g@.patched.contains_key(h)
        &&& forall|h: int| #![trigger post.g@.patched[h]] #![trigger pre.g@.patched[h]] h < lim && pre.g@.patched.contains_key(h) ==> post.g@.patched[h] == pre.g@.patched[h]
    }
    #[verifier::external_body]
    fn compile_node(&mut self, node_index: AstIndex, ctx: CompileNodeContext) -> (r: Result<CompileNodeOutput>)
        requires old(self).g@.spans.len() > 0,
        ensures r matches Ok(out) ==> Self::node_post(old(self), final(self), node_index, ctx, out, old(self).len(), old(self).g@.trace),
    { unimplemented!() }

    // ---- the frame's register stack (PROVED in V-frame for the real Frame; Compiler::push_register etc. wrap them)
    #[verifier::external_body]
    fn push_register(&mut self) -> (r: Result<u8>)
        ensures final(self).bytes == old(self).bytes, final(self).g@.trace == old(self).g@.trace, final(self).g@.patched == old(self).g@.patched, final(self).g@.spans == old(self).g@.spans, final(self).g@.loops == old(self).g@.loops, final(self).fixed() == old(self).fixed(),
            r is Ok ==> final(self).g@.regs == old(self).g@.regs + 1, r is Err ==> final(self).g@.regs == old(self).g@.regs,
            // V-frame Frame::push_register: the next temporary, an error once number 255 would be reached
            r matches Ok(x) ==> x as int == old(self).g@.temp_base + old(self).g@.regs && x < 255,
    { unimplemented!() }
    // `self.frame().next_temporary_register()` (rule R5): the register the next push_register will hand out
    #[verifier::external_body]
    fn frame_next_temporary_register(&self) -> (r: u8) ensures r as int == self.g@.temp_base + self.g@.regs { unimplemented!() }
    #[verifier::external_body]
    fn pop_register(&mut self) -> (r: Result<u8>)
        ensures final(self).bytes == old(self).bytes, final(self).g@.trace == old(self).g@.trace, final(self).g@.patched == old(self).g@.patched, final(self).g@.spans == old(self).g@.spans, final(self).g@.loops == old(self).g@.loops, final(self).fixed() == old(self).fixed(),
            (r is Ok) == (old(self).g@.regs > 0), r is Ok ==> final(self).g@.regs == old(self).g@.regs - 1, r is Err ==> final(self).g@.regs == old(self).g@.regs,
    { unimplemented!() }
    #[verifier::external_body]
    fn stack_count(&self) -> (r: usize) ensures r == self.g@.regs { unimplemented!() }
    #[verifier::external_body]
    fn truncate_register_stack(&mut self, stack_count: usize) -> (r: Result<()>)
        ensures final(self).bytes == old(self).bytes, final(self).g@.trace == old(self).g@.trace, final(self).g@.patched == old(self).g@.patched, final(self).g@.spans == old(self).g@.spans, final(self).g@.loops == old(self).g@.loops, final(self).fixed() == old(self).fixed(),
            (r is Ok) == (stack_count <= old(self).g@.regs), r is Ok ==> final(self).g@.regs == stack_count, r is Err ==> final(self).g@.regs == old(self).g@.regs,
    { unimplemented!() }

    // ---- the span stack (`self.span_stack.push(*ast.span(node.span))` / `.pop()`)
    #[verifier::external_body]
    fn push_span(&mut self, node: &AstNode, ast: &Ast)
        ensures final(self).bytes == old(self).bytes, final(self).g@.trace == old(self).g@.trace, final(self).g@.patched == old(self).g@.patched, final(self).g@.regs == old(self).g@.regs, final(self).g@.loops == old(self).g@.loops, final(self).fixed() == old(self).fixed(),
            final(self).g@.spans == old(self).g@.spans.push(*node),
    { unimplemented!() }
    #[verifier::external_body]
    fn pop_span(&mut self)
        ensures final(self).bytes == old(self).bytes, final(self).g@.trace == old(self).g@.trace, final(self).g@.patched == old(self).g@.patched, final(self).g@.regs == old(self).g@.regs, final(self).g@.loops == old(self).g@.loops, final(self).fixed() == old(self).fixed(),
            final(self).g@.spans == (if old(self).g@.spans.len() > 0 { old(self).g@.spans.drop_last() } else { old(self).g@.spans }),
    { unimplemented!() }

    // ---- the frame's loop stack (PROVED in V-frame: push_loop / pop_loop; V-emit: pop_loop_and_update_placeholders)
    // `self.frame_mut().push_loop(start, result)` (rule R5)
    #[verifier::external_body]
    fn frame_push_loop(&mut self, start: usize, result: Option<u8>)
        ensures final(self).bytes == old(self).bytes, final(self).g@.trace == old(self).g@.trace, final(self).g@.patched == old(self).g@.patched, final(self).g@.regs == old(self).g@.regs, final(self).g@.spans == old(self).g@.spans, final(self).fixed() == old(self).fixed(),
            final(self).g@.loops == old(self).g@.loops.push(LoopG { start: start as int, result, holes: Set::empty() }),
    { unimplemented!() }
    #[verifier::external_body]
    fn push_loop_jump_placeholder(&mut self) -> (r: Result<()>)
        ensures final(self).g@.patched == old(self).g@.patched, final(self).g@.regs == old(self).g@.regs, final(self).g@.spans == old(self).g@.spans, final(self).fixed() == old(self).fixed(),
            (r is Ok) == (old(self).g@.loops.len() > 0),
            r is Ok ==> final(self).len() == old(self).len() + 2 && final(self).g@.trace == old(self).g@.trace.push(Ev::Hole { at: old(self).len() })
                && final(self).g@.loops == old(self).g@.loops.drop_last().push(LoopG { holes: old(self).g@.loops.last().holes.insert(old(self).len()), ..old(self).g@.loops.last() }),
    { unimplemented!() }
    #[verifier::external_body]
    fn pop_loop_and_update_placeholders(&mut self) -> (r: Result<()>)
        ensures final(self).len() == old(self).len(), final(self).g@.trace == old(self).g@.trace, final(self).g@.regs == old(self).g@.regs, final(self).g@.spans == old(self).g@.spans, final(self).fixed() == old(self).fixed(),
            r is Ok ==> old(self).g@.loops.len() > 0 && final(self).g@.loops == old(self).g@.loops.drop_last()
                // every jump registered with the loop lands at the end of the code; no other patch changes
                && (forall|h: int| #![trigger old(self).g@.loops.last().holes.contains(h)] old(self).g@.loops.last().holes.contains(h) ==> final(self).g@.patched.contains_key(h) && final(self).g@.patched[h] == old(self).len())
                // ASSUMED: the jumps registered with a loop were emitted after the loop was pushed (code only grows),
                // so no patch of an operand before the loop's start changes
                && (forall|h: int| #![trigger final(self).g@.patched.contains_key(h)] #![trigger old(self).g@.patched.contains_key(h)] h < old(self).g@.loops.last().start ==> final(self).g@.patched.contains_key(h) == old(self).g@.patched.contains_key(h))
                && (forall|h: int| #![trigger final(self).g@.patched[h]] #![trigger old(self).g@.patched[h]] h < old(self).g@.loops.last().start && old(self).g@.patched.contains_key(h) ==> final(self).g@.patched[h] == old(self).g@.patched[h]),
    { unimplemented!() }

    #[verifier::external_body]
    fn make_error(&self, e: ErrorKind) -> Error { unimplemented!() }
    // `self.frame_mut().assign_local_register(id)`: a LOCAL's register (not the temporary stack); emits nothing
    #[verifier::external_body]
    fn assign_local_register(&mut self, local: ConstantIndex) -> (r: Result<u8>) ensures *final(self) == *old(self) { unimplemented!() }
    // ASSUMED contract of try_unpack_map (a map pattern as catch argument): it appends code, the jumps taken on a mismatch
    // are handed to the caller (operands inside the code it appended), the rest of the state is as for any compile_* function
    #[verifier::external_body]
    fn try_unpack_map(&mut self, map_register: u8, entries: &AstVec<AstIndex>, type_hint: &Option<AstIndex>, jumps: &mut Vec<usize>, ctx: CompileNodeContext<'_>) -> (r: Result<()>)
        requires old(self).g@.spans.len() > 0,
        ensures r is Ok ==> prefix(old(self).g@.trace, final(self).g@.trace) && final(self).len() >= old(self).len() && final(self).g@.regs == old(self).g@.regs
            && Self::frame_post(old(self), final(self), old(self).len())
            && prefix(old(jumps)@, final(jumps)@)
            && (forall|q: int| old(jumps)@.len() <= q < final(jumps)@.len() ==> old(self).len() <= (#[trigger] final(jumps)@[q]) && final(jumps)@[q] + 2 <= final(self).len()),
    { unimplemented!() }
    // what compile_comparison_op emits for `lhs0 op0 rs[0]` where rs unrolls the chain (cmp_chain), c: the comparison register
    spec fn cmp_post(pre: &Compiler, post: &Compiler, ast: &Ast, op0: AstBinaryOp, lhs0: AstIndex, rs: Seq<AstIndex>, c: u8, out: CompileNodeOutput) -> bool {
        let t = post.g@.trace; let n = pre.g@.trace.len() as int; let links = rs.len() - 1; let q = n + 1 + 4 * links;
        // C01: the operands are evaluated ONCE each, left to right ...
        &&& t.len() >= q + 1 && t[n].is_node(lhs0, ResultRegister::Any)
        // ... each comparison but the last goes into the comparison register, and a false one skips everything that follows
        &&& (forall|i: int| 0 <= i < links ==> cmp_link(t, n + 1 + 4 * i, cmp_prev(n, i), bin_lhs(ast, #[trigger] rs[i]), cmp_chain_op(ast, op0, rs, i), c)
                && post.g@.patched.contains_key(t[n + 1 + 4 * i + 3].pos()) && post.g@.patched[t[n + 1 + 4 * i + 3].pos()] == post.len())
        // the last operand, and the last comparison into the result register (when a result is wanted)
        &&& t[q].is_node(rs.last(), ResultRegister::Any)
        &&& (match out.register {
                Some(x) => c == x && t.len() == q + 2 && (cmp_op_spec(cmp_chain_op(ast, op0, rs, links)) matches Ok(o) && t[q + 1].is_op(o, seq![x, t[cmp_prev(n, links)].reg(), t[q].reg()])),
                None => t.len() == q + 1,
            })
    }

    // ASSUMED contracts of compile_call (94 lines) and compile_chain (375 lines), as for compile_node: the code is
    // appended, the result request is honoured, nothing but the reported temporary stays on the register stack
    spec fn sub_post(pre: &Compiler, post: &Compiler, want: ResultRegister, out: CompileNodeOutput) -> bool {
        &&& post.len() >= pre.len() && post.g@.trace.len() == pre.g@.trace.len() + 1 && prefix(pre.g@.trace, post.g@.trace)
        &&& (want matches ResultRegister::Fixed(x) ==> (out.register is Some ==> out.register == Some(x) && !out.is_temporary))
        &&& (out.is_temporary ==> out.register is Some && want is Any)
        &&& post.g@.regs == pre.g@.regs + (if out.is_temporary { 1int } else { 0 })
        &&& Self::frame_post(pre, post, pre.len())
    }
    // compile_call: PROVED in V-callseq against the layout it really emits; here one Call event stands for that layout
    #[verifier::external_body]
    fn compile_call(&mut self, function_register: u8, args: &[AstIndex], piped_arg: Option<u8>, instance: Option<u8>, ctx: CompileNodeContext) -> (r: Result<CompileNodeOutput>)
        requires old(self).g@.spans.len() > 0,
        ensures r matches Ok(out) ==> Self::sub_post(old(self), final(self), ctx.result_register, out)
            && final(self).g@.trace.last() == (Ev::Call { at: old(self).len(), end: final(self).len(), function: function_register, piped: piped_arg, want: ctx.result_register }),
    { unimplemented!() }
    #[verifier::external_body]
    fn compile_chain(&mut self, chain: &(ChainNode, Option<AstIndex>), piped_arg_register: Option<u8>, rhs: Option<u8>, rhs_op: Option<Op>, ctx: CompileNodeContext) -> (r: Result<CompileNodeOutput>)
        requires old(self).g@.spans.len() > 0,
        ensures r matches Ok(out) ==> Self::sub_post(old(self), final(self), ctx.result_register, out)
            && final(self).g@.trace.last() == (if rhs is None && rhs_op is None { Ev::Chain { at: old(self).len(), end: final(self).len(), chain: *chain, piped: piped_arg_register, want: ctx.result_register } }
                    else { Ev::ChainAssign { at: old(self).len(), end: final(self).len(), chain: *chain, rhs, rhs_op, want: ctx.result_register } }),
    { unimplemented!() }
    // `self.frame_stack.len() == 1` (rule R5): the code being compiled is at the top level of the script
    #[verifier::external_body]
    fn at_top_level(&self) -> (r: bool) ensures r == self.top_level() { unimplemented!() }
    spec fn top_level(&self) -> bool { self.g@.top_level }
    // ASSUMED contract of compile_value_export (the REPL's `export_top_level_ids` mode): one Export event, nothing else changes
    #[verifier::external_body]
    fn compile_value_export(&mut self, id: ConstantIndex, value_register: u8) -> (r: Result<()>)
        requires old(self).g@.spans.len() > 0,
        ensures r is Ok ==> final(self).len() >= old(self).len() && final(self).g@.trace == old(self).g@.trace.push(Ev::Export { at: old(self).len(), id, register: value_register })
            && final(self).same_frame_state(old(self)) && final(self).g@.patched == old(self).g@.patched,
    { unimplemented!() }
    // `self.frame().output_type` / `self.frame().is_generator` (rule R5): fields of the current compile frame
    spec fn output_type(&self) -> Option<AstIndex> { self.g@.output_type }
    spec fn is_generator(&self) -> bool { self.g@.is_generator }
    #[verifier::external_body]
    fn frame_output_type(&self) -> (r: Option<AstIndex>) ensures r == self.output_type() { unimplemented!() }
    #[verifier::external_body]
    fn frame_is_generator(&self) -> (r: bool) ensures r == self.is_generator() { unimplemented!() }
    // how many events the assertion of the frame's output type adds: none without a type hint on the function or
    // with type checks disabled
    spec fn output_check_len(&self) -> int { if self.output_type() is Some && self.settings.enable_type_checks { 2 } else { 0 } }
    // the assertion, at trace index i
    spec fn output_check_at(&self, ast: &Ast, t: Seq<Ev>, i: int, register: u8, span: Option<AstNode>) -> bool {
        self.output_check_len() == 2 ==> (ast.at(self.output_type()->0).node matches Node::Type { type_index, allow_null }
            && t[i].is_spanned_op(if allow_null { Op::AssertOptionalType } else { Op::AssertType }, seq![register], span) && t[i + 1].is_var(type_index.0))
    }
    // `self.frame().get_local_assigned_register(id)` (rule R5): the register of a local that has been assigned, if `id` is one
    #[verifier::external_body]
    fn frame_local_assigned_register(&self, id: ConstantIndex) -> (r: Option<u8>) ensures r == self.local_register_of(id) { unimplemented!() }
    uninterp spec fn local_register_of(&self, id: ConstantIndex) -> Option<u8>;
    // `self.error(ErrorKind::..)` (rule R5: the error value is not part of any property here)
    #[verifier::external_body]
    fn error_any<T>(&self) -> (r: Result<T>) ensures r is Err { unimplemented!() }
"""

# `self.error(ErrorKind::X { .. })` -> `self.error_any()`
# hint only: the pieces of the postcondition, one at a time (the conjunction is too big a step for the solver)
TAIL = ("Ok(result)", "proof { assert(Self::frame_post(old(self), self, old(self).len())); assert(prefix(old(self).g@.trace, self.g@.trace)); }", -1)
ERR = (r"self\.error\(ErrorKind::\w+\s*\{[^{}]*\}\)", "self.error_any()", None, "re")
MAP_OR = (r"(\w+)\s*\.register\s*\.map_or\(ResultRegister::None, ResultRegister::Fixed\)", r"fixed_or_none(\1.register)", None, "re")
MAP_OR2 = (r"(\w+)\.map_or\(ResultRegister::None, ResultRegister::Fixed\)", r"fixed_or_none(\1)", None, "re")
# `opt.map_or_else(|| self.push_register(), Ok)?` is `match opt { Some(r) => r, None => self.push_register()? }` (std Option::map_or_else)
MAP_OR_ELSE = (r"(\w+)\.register\.map_or_else\(\|\| self\.push_register\(\), Ok\)\?", r"(match \1.register { Some(r__) => r__, None => self.push_register()? })", None, "re")

P01 = ("C01", "C06")
P16 = ("C16", "C12", "C06")

UNIT = Unit(
    name="V-codegen",
    prelude=PRELUDE,
    items=[
        Type(OPF, "enum Op", derive="Clone, Copy, PartialEq, Eq"),
        Type(NODEF, "enum AstBinaryOp", derive="Clone, Copy, PartialEq, Eq"),
        Type(NODEF, "enum AstUnaryOp", derive="Clone, Copy, PartialEq, Eq"),
        Type(NODEF, "struct AstIf"),
        Type(NODEF, "struct AstTry"),
        Type(NODEF, "struct AstCatch"),
        Type(NODEF, "enum Node"),
        Type(F, "enum ResultRegister", derive="Clone, Copy"),
        Type(F, "struct CompileNodeOutput", derive="Clone, Copy"),
        Type(F, "struct CompilerSettings", derive="Clone, Copy"),
        Type(F, "struct CompileNodeContext", derive="Clone, Copy"),
        # ---- the result-register request helpers: real code
        Fn(F, "impl CompileNodeOutput :: fn none", props=P01, spec="    ensures r.register is None && !r.is_temporary,\n"),
        Fn(F, "impl CompileNodeOutput :: fn with_assigned", props=P01, spec="    ensures r.register == Some(register) && !r.is_temporary,\n"),
        Fn(F, "impl CompileNodeOutput :: fn with_temporary", props=P01, spec="    ensures r.register == Some(register) && r.is_temporary,\n"),
        Fn(F, "impl<'a> CompileNodeContext<'a> :: fn with_register", props=P01, spec="    ensures r.ast == self.ast && r.result_register == result_register,\n"),
        Fn(F, "impl<'a> CompileNodeContext<'a> :: fn with_any_register", props=P01, spec="    ensures r.ast == self.ast && r.result_register is Any,\n"),
        Fn(F, "impl<'a> CompileNodeContext<'a> :: fn with_fixed_register", props=P01, spec="    ensures r.ast == self.ast && r.result_register == ResultRegister::Fixed(register),\n"),
        Fn(F, "impl<'a> CompileNodeContext<'a> :: fn node_with_span", props=P01, spec="    ensures *r == self.ast.at(ast_index),\n"),
        Fn(F, "impl<'a> CompileNodeContext<'a> :: fn node", props=P01, spec="    ensures *r == self.ast.at(ast_index).node,\n"),
        Raw(HELPERS, impl_of="impl Compiler"),
        Fn(F, "impl Compiler :: fn assign_result_register", props=P01, spec=r"""
    ensures
        final(self).bytes == old(self).bytes && final(self).g@.trace == old(self).g@.trace && final(self).g@.patched == old(self).g@.patched
            && final(self).g@.spans == old(self).g@.spans && final(self).g@.loops == old(self).g@.loops && final(self).fixed() == old(self).fixed(),
        // C01, the result-register protocol: Fixed(r) -> r, not temporary; Any -> a NEW temporary on top of
        // the register stack; None -> no register
        r matches Ok(out) ==> (ctx.result_register matches ResultRegister::Fixed(x) ==> out.register == Some(x) && !out.is_temporary),      // @fixed_request_is_honoured
        r matches Ok(out) ==> (ctx.result_register is Any ==> out.register is Some && out.is_temporary),                                   // @any_request_takes_a_temporary
        r matches Ok(out) ==> (ctx.result_register is None ==> out.register is None && !out.is_temporary),                                 // @no_request_no_register
        r matches Ok(out) ==> final(self).g@.regs == old(self).g@.regs + (if out.is_temporary { 1int } else { 0 }),                       // @one_register_for_a_temporary
        r is Err ==> final(self).g@.regs == old(self).g@.regs,
"""),
        # ---- C16: assert emission is guarded by enable_type_checks, check emission is not
        Fn(F, "impl Compiler :: fn compile_assert_type", props=P16,
           subst=[ERR, ("(*type_index).into()", "constant_index_u32(*type_index)", None)],
           spec=r"""
    requires old(self).g@.spans.len() > 0,
    ensures
        final(self).g@.patched == old(self).g@.patched, final(self).same_frame_state(old(self)), final(self).len() >= old(self).len(),  // @frame_state_restored
        ctx.ast.at(type_hint).node is Type ==> r is Ok,
        // C16: with type checks enabled exactly one AssertType / AssertOptionalType (for `T?`) instruction on the
        // value's register, followed by the type's constant; the failure is reported at `span` when given
        ctx.ast.at(type_hint).node matches Node::Type { type_index, allow_null } ==> (old(self).settings.enable_type_checks ==> ({
            let t = final(self).g@.trace; let n = old(self).g@.trace.len() as int;
            t.len() == n + 2 && prefix(old(self).g@.trace, t)
                && t[n].is_spanned_op(if allow_null { Op::AssertOptionalType } else { Op::AssertType }, seq![value_register],
                        Some(match span { Some(s) => ctx.ast.at(s), None => old(self).g@.spans.last() }))
                && t[n + 1].is_var(type_index.0) })),                                                                                    // @assertion_emitted_when_checks_are_enabled
        // C16: with type checks disabled NOTHING is emitted
        ctx.ast.at(type_hint).node is Type ==> (!old(self).settings.enable_type_checks ==> final(self).g@.trace == old(self).g@.trace && final(self).bytes == old(self).bytes),   // @nothing_emitted_when_checks_are_disabled
        !(ctx.ast.at(type_hint).node is Type) ==> r is Err,                                                                              // @not_a_type_node_is_an_error
"""),
        Fn(F, "impl Compiler :: fn compile_check_type", props=P16,
           subst=[ERR, ("(*type_index).into()", "constant_index_u32(*type_index)", None)],
           spec=r"""
    ensures
        final(self).g@.patched == old(self).g@.patched, final(self).same_frame_state(old(self)),                                        // @frame_state_restored
        // C16: match arms and typed catches select by type WHATEVER enable_type_checks says: a CheckType /
        // CheckOptionalType instruction (reported at the type's span), the type's constant, and the jump taken on a
        // mismatch, which is handed to the caller for patching
        ctx.ast.at(type_hint).node matches Node::Type { type_index, allow_null } ==> ({
            let t = final(self).g@.trace; let n = old(self).g@.trace.len() as int;
            &&& t.len() == n + 3 && prefix(old(self).g@.trace, t)
            &&& t[n].is_spanned_op(if allow_null { Op::CheckOptionalType } else { Op::CheckType }, seq![value_register], Some(ctx.ast.at(type_hint)))
            &&& t[n + 1].is_var(type_index.0)
            &&& (r matches Ok(hole) && t[n + 2] == (Ev::Hole { at: hole as int }) && hole >= old(self).len() && hole + 2 == final(self).len())
        }),                                                                                                                              // @check_always_emitted_with_its_mismatch_jump
        !(ctx.ast.at(type_hint).node is Type) ==> r is Err,                                                                              // @not_a_type_node_is_an_error
"""),
        # ---- C01: short-circuiting and / or
        Fn(F, "impl Compiler :: fn compile_logic_op", props=P01,
           subst=[MAP_OR_ELSE], before=[TAIL],
           spec=r"""
    requires old(self).g@.spans.len() > 0,
        op is And || op is Or,   // @only_and_or_get_here - the `_ => unreachable!()` arm; compile_binary_op proves it for its call
    ensures
        r is Ok ==> final(self).g@.trace.len() == old(self).g@.trace.len() + 4 && prefix(old(self).g@.trace, final(self).g@.trace),
        // C01: the lhs is evaluated first, into the register the jump tests: `and` skips the rhs when the lhs is falsy,
        // `or` when it is truthy; otherwise the rhs is evaluated into the SAME register; the jump skips exactly the rhs
        r matches Ok(out) ==> ({
            let t = final(self).g@.trace; let n = old(self).g@.trace.len() as int;
            t[n] matches Ev::Node { node, want: ResultRegister::Fixed(reg), .. } && node == lhs && {
                &&& t[n + 1].is_op(if op is And { Op::JumpIfFalse } else { Op::JumpIfTrue }, seq![reg])
                &&& t[n + 2] is Hole
                &&& t[n + 3].is_node(rhs, ResultRegister::Fixed(reg))
                &&& final(self).g@.patched.contains_key(t[n + 2].pos()) && final(self).g@.patched[t[n + 2].pos()] == final(self).len()
                &&& (ctx.result_register matches ResultRegister::Fixed(x) ==> reg == x)
                &&& (ctx.result_register is Any ==> out.register == Some(reg))
            } }),                                                                                                                         // @lhs_then_short_circuit_jump_over_exactly_the_rhs
        r matches Ok(out) ==> (ctx.result_register matches ResultRegister::Fixed(x) ==> out.register == Some(x) && !out.is_temporary),
        r matches Ok(out) ==> (ctx.result_register is Any ==> out.register is Some && out.is_temporary),
        r matches Ok(out) ==> (ctx.result_register is None ==> out.register is None),                                                     // @result_request_is_honoured
        r matches Ok(out) ==> final(self).g@.regs == old(self).g@.regs + (if out.is_temporary { 1int } else { 0 }),                       // @temporaries_released
        r is Ok ==> Self::frame_post(old(self), final(self), old(self).len()),                                                           // @earlier_code_and_enclosing_loops_untouched
"""),
        # ---- C01: while / until / loop
        Fn(F, "impl Compiler :: fn compile_loop", props=P01,
           subst=[MAP_OR2, (r"self\.frame_mut\(\)\s*\.push_loop\(", "self.frame_push_loop(", None, "re")],
           # hints only: the condition's exit jump is the first one registered with this loop, and still is after the body
           # hints only: the loop that was pushed sits on top of the caller's loops; the condition's exit jump stays registered with it
           before=[("if let Some((condition, negate_condition)) = condition {", "assert(self.g@.loops.drop_last() =~= old(self).g@.loops); let ghost mut exit_hole: int = 0;"),
                   ("if condition_register.is_temporary {", "proof { exit_hole = self.len() - 2; assert(self.g@.loops.last().holes.contains(exit_hole)); }"),
                   ("let body_result = self.compile_node(", "assert(self.g@.loops.drop_last() =~= old(self).g@.loops);"),
                   ("self.pop_loop_and_update_placeholders()?;", "proof { if condition is Some { assert(self.g@.loops.last().holes.contains(exit_hole)); } }"),
                   TAIL],
           spec=r"""
    requires old(self).g@.spans.len() > 0, old(self).len() < 0x4000_0000_0000_0000,
    ensures
        r is Ok ==> prefix(old(self).g@.trace, final(self).g@.trace),
        // a loop with a condition and a wanted value starts as null (in case the body never runs)
        r matches Ok(out) ==> (condition is Some && out.register is Some ==> final(self).g@.trace[old(self).g@.trace.len() as int].is_op(Op::SetNull, seq![out.register->0])),   // @value_starts_as_null
        // while / until: the condition is evaluated at the start of every iteration; `while` leaves when it is falsy,
        // `until` when it is truthy, to the first instruction AFTER the backward jump, which goes to the condition
        r matches Ok(out) ==> (condition matches Some((c, negate)) ==> ({
            let t = final(self).g@.trace; let k = old(self).g@.trace.len() + (if out.register is Some { 1int } else { 0 });
            &&& t.len() == k + 5 && t[k].is_node(c, ResultRegister::Any)
            &&& t[k + 1].is_op(if negate { Op::JumpIfTrue } else { Op::JumpIfFalse }, seq![t[k].reg()])
            &&& t[k + 2] is Hole && final(self).g@.patched.contains_key(t[k + 2].pos()) && final(self).g@.patched[t[k + 2].pos()] == final(self).len()
            &&& t[k + 3].is_node(body, fixed_or_none_spec(out.register))
            &&& (t[k + 4] matches Ev::Back { op, target, .. } && op == Op::JumpBack && target == t[k].pos())
        })),                                                                                                                              // @condition_at_the_top_exit_after_the_back_jump
        // loop: the body, and a jump back to its start
        r matches Ok(out) ==> (condition is None ==> ({
            let t = final(self).g@.trace; let k = old(self).g@.trace.len() as int;
            &&& t.len() == k + 2 && t[k].is_node(body, fixed_or_none_spec(out.register))
            &&& (t[k + 1] matches Ev::Back { op, target, .. } && op == Op::JumpBack && target == t[k].pos())
        })),                                                                                                                              // @back_jump_to_the_body
        // the loop is registered while its body is compiled and removed afterwards; earlier code and enclosing loops are left alone
        r is Ok ==> Self::frame_post(old(self), final(self), old(self).len()),                                                           // @loop_stack_balanced_earlier_code_untouched
        r matches Ok(out) ==> final(self).g@.regs == old(self).g@.regs + (if out.is_temporary { 1int } else { 0 }),                       // @temporaries_released
        r matches Ok(out) ==> (ctx.result_register matches ResultRegister::Fixed(x) ==> out.register == Some(x) && !out.is_temporary),
        r matches Ok(out) ==> (ctx.result_register is None ==> out.register is None),                                                     // @result_request_is_honoured
"""),
        # ---- C01: switch
        Fn(F, "impl Compiler :: fn compile_switch", props=P01, attrs=("verifier::rlimit(60)", "verifier::spinoff_prover"),
           subst=[ERR, MAP_OR, ("for arm in arms.iter() {", "for arm in it: arms.iter() {", 1),
                  # a type ascription (inference cannot see through the loop invariant)
                  ("let mut result_jump_placeholders = Vec::new();", "let mut result_jump_placeholders: Vec<usize> = Vec::new();", 1),
                  ("for jump_placeholder in result_jump_placeholders.iter() {", "for jump_placeholder in it2: result_jump_placeholders.iter() {", 1)],
           # ghost bookkeeping and hints only: where each arm's code starts in the trace, which operands belong to condition jumps
           before=[("let mut last_arm_is_else = false;", """let ghost n = old(self).g@.trace.len() as int; let ghost want = switch_arm_context.result_register;
let ghost mut arm_at: Seq<int> = Seq::empty(); let ghost mut cond_holes: Set<int> = Set::empty(); let ghost mut cond_target: Map<int, int> = Map::empty();
proof { lemma_sw_step(ctx.ast, arms@, 0); }"""),
                   ("let arm_end_jump_placeholder = if let Some(condition) = condition {", "let ghost s0 = *self; let ghost t0 = self.g@.trace; let ghost k = it.index@ as int; proof { arm_at = arm_at.push(t0.len() as int); }"),
                   ("last_arm_is_else = condition.is_none();", """proof {
    let t1 = self.g@.trace;
    assert(prefix(t0, t1));
    lemma_sw_step(ctx.ast, arms@, k);
    assert(sw_arm_shape(t1, arm_at[k], ctx.ast, arms@[k], want)) by { reveal(sw_arm_shape); }
    assert forall|j: int| 0 <= j < k implies sw_arm_shape(t1, arm_at[j], ctx.ast, #[trigger] arms@[j], want) by { lemma_shape_stable(t0, t1, arm_at[j], ctx.ast, arms@[j], want); }
    assert forall|h: int| cond_holes.contains(h) implies self.g@.patched.contains_key(h) && self.g@.patched[h] == cond_target[h] by { assert(s0.g@.patched.contains_key(h) && h + 2 <= s0.len()); }
    if condition is Some {
        let h = t1[arm_at[k] + 2].pos(); let e = t1[arm_at[k] + 5].pos();
        assert(t1[arm_at[k] + 2] is Hole && t1[arm_at[k] + 5] is Hole) by { reveal(sw_arm_shape); }
        cond_holes = cond_holes.insert(h); cond_target = cond_target.insert(h, e + 2);
    }
}"""),
                   ("if let Some(result_register) = result.register {", "let ghost t_arms = self.g@.trace;"),
                   ("for jump_placeholder in it2: result_jump_placeholders.iter() {", "let ghost t_end = self.g@.trace; proof { assert(prefix(old(self).g@.trace, t_end)); assert(prefix(t_arms, t_end)); }"),
                   ("Ok(result)", """proof {
    let t = self.g@.trace; let na = arms@.len() as int;
    assert(Self::frame_post(old(self), self, old(self).len()));
    assert forall|j: int| 0 <= j < na implies sw_arm_shape(t, n + sw_start(ctx.ast, arms@, j), ctx.ast, #[trigger] arms@[j], want) by { lemma_shape_stable(t_arms, t, arm_at[j], ctx.ast, arms@[j], want); }
    assert forall|j: int| 0 <= j < na implies sw_arm_jumps(t, n + sw_start(ctx.ast, arms@, j), ctx.ast, #[trigger] arms@[j], self.g@.patched, self.len()) by {
        if sw_cond(ctx.ast, arms@[j]) is Some {
            lemma_sw_step(ctx.ast, arms@, j); lemma_sw_conds_mono(ctx.ast, arms@, j + 1, na);
            let q = sw_conds(ctx.ast, arms@, j);
            assert(cond_holes.contains(t[arm_at[j] + 2].pos()));
            assert(result_jump_placeholders@[q] as int == t[arm_at[j] + 5].pos());
        }
    }
}""", -1)],
           loops={1: r"""
            invariant
                self.g@.spans == old(self).g@.spans, self.g@.spans.len() > 0, self.fixed() == old(self).fixed(),
                self.g@.regs == old(self).g@.regs + (if result.is_temporary { 1int } else { 0 }), stack_count == self.g@.regs,
                switch_arm_context.ast == ctx.ast, switch_arm_context.result_register == want, want == fixed_or_none_spec(result.register),
                n == old(self).g@.trace.len(), prefix(old(self).g@.trace, self.g@.trace), self.len() >= old(self).len(),
                self.g@.trace.len() == n + sw_start(ctx.ast, arms@, it.index@ as int),
                Self::frame_post(old(self), self, old(self).len()),
                // each arm compiled so far: where its code starts, that it has the shape of an arm
                arm_at.len() == it.index@,
                forall|j: int| 0 <= j < it.index@ ==> ctx.ast.at(#[trigger] arms@[j]).node is SwitchArm && arm_at[j] == n + sw_start(ctx.ast, arms@, j)
                    && 0 <= arm_at[j] && arm_at[j] + sw_len(ctx.ast, arms@[j]) <= self.g@.trace.len()
                    && sw_arm_shape(self.g@.trace, arm_at[j], ctx.ast, arms@[j], want),
                // a failing condition lands right after its arm; the jump that leaves the switch after the arm is remembered
                forall|j: int| 0 <= j < it.index@ && sw_cond(ctx.ast, #[trigger] arms@[j]) is Some ==> cond_holes.contains(self.g@.trace[arm_at[j] + 2].pos())
                    && cond_target[self.g@.trace[arm_at[j] + 2].pos()] == self.g@.trace[arm_at[j] + 5].pos() + 2
                    && 0 <= sw_conds(ctx.ast, arms@, j) < result_jump_placeholders@.len()
                    && result_jump_placeholders@[sw_conds(ctx.ast, arms@, j)] as int == self.g@.trace[arm_at[j] + 5].pos(),
                forall|h: int| #![trigger cond_holes.contains(h)] cond_holes.contains(h) ==> old(self).len() <= h && h + 2 <= self.len() && self.g@.patched.contains_key(h) && self.g@.patched[h] == cond_target[h],
                // none of the remembered jumps is a condition's jump
                result_jump_placeholders@.len() == sw_conds(ctx.ast, arms@, it.index@ as int),
                forall|q: int| 0 <= q < result_jump_placeholders@.len() ==> old(self).len() <= (#[trigger] result_jump_placeholders@[q]) && result_jump_placeholders@[q] + 2 <= self.len() && !cond_holes.contains(result_jump_placeholders@[q] as int),
                it.index@ > 0 ==> last_arm_is_else == (sw_cond(ctx.ast, arms@[it.index@ - 1]) is None),
                it.index@ == 0 ==> !last_arm_is_else,
""", 2: r"""
            invariant
                self.g@.trace == t_end, self.fixed() == old(self).fixed(), self.g@.regs == stack_count, self.len() >= old(self).len(),
                Self::frame_post(old(self), self, old(self).len()),
                forall|h: int| #![trigger cond_holes.contains(h)] cond_holes.contains(h) ==> self.g@.patched.contains_key(h) && self.g@.patched[h] == cond_target[h],
                forall|q: int| 0 <= q < result_jump_placeholders@.len() ==> old(self).len() <= (#[trigger] result_jump_placeholders@[q]) && result_jump_placeholders@[q] + 2 <= self.len() && !cond_holes.contains(result_jump_placeholders@[q] as int),
                forall|q: int| 0 <= q < it2.index@ ==> self.g@.patched.contains_key(#[trigger] result_jump_placeholders@[q] as int) && self.g@.patched[result_jump_placeholders@[q] as int] == self.len(),
"""},
           spec=r"""
    requires old(self).g@.spans.len() > 0,
    ensures
        r is Ok ==> prefix(old(self).g@.trace, final(self).g@.trace),
        // C01: the arms are tried in order; each condition is evaluated into a register of its own and guards ITS
        // expression, which goes into the switch's register
        r matches Ok(out) ==> (forall|j: int| 0 <= j < arms@.len() ==> sw_arm_shape(final(self).g@.trace, old(self).g@.trace.len() + sw_start(ctx.ast, arms@, j), ctx.ast, #[trigger] arms@[j], fixed_or_none_spec(out.register))),   // @arms_in_order_each_condition_guards_its_expression
        // a falsy condition jumps to the next arm; after an arm's expression the switch is left (lands after everything it emitted)
        r matches Ok(out) ==> (forall|j: int| 0 <= j < arms@.len() ==> sw_arm_jumps(final(self).g@.trace, old(self).g@.trace.len() + sw_start(ctx.ast, arms@, j), ctx.ast, #[trigger] arms@[j], final(self).g@.patched, final(self).len())),   // @failing_condition_goes_to_the_next_arm_and_an_arm_leaves_the_switch
        // when no arm runs the value is null (unless the last arm is an `else`): nothing else is emitted
        r matches Ok(out) ==> ({
            let t = final(self).g@.trace; let m = old(self).g@.trace.len() + sw_start(ctx.ast, arms@, arms@.len() as int);
            let null_needed = out.register is Some && !(arms@.len() > 0 && sw_cond(ctx.ast, arms@.last()) is None);
            t.len() == m + (if null_needed { 1int } else { 0 }) && (null_needed ==> t[m].is_op(Op::SetNull, seq![out.register->0])) }),          // @null_when_no_arm_runs
        r matches Ok(out) ==> final(self).g@.regs == old(self).g@.regs + (if out.is_temporary { 1int } else { 0 }),                       // @temporaries_released
        r is Ok ==> Self::frame_post(old(self), final(self), old(self).len()),                                                           // @earlier_code_and_enclosing_loops_untouched
        r matches Ok(out) ==> (ctx.result_register matches ResultRegister::Fixed(x) ==> out.register == Some(x) && !out.is_temporary),
        r matches Ok(out) ==> (ctx.result_register is None ==> out.register is None),                                                     // @result_request_is_honoured
"""),
        # ---- C01: if / else if / else
        Fn(F, "impl Compiler :: fn compile_if", props=P01, attrs=("verifier::rlimit(60)", "verifier::spinoff_prover"),
           subst=[MAP_OR,
                  # rule R15: `iter().map(|(a, b)| -> Result<T> { ..; Ok(x) }).collect::<Result<Vec<_>>>()?` written as the loop it
                  # stands for (the closure runs once per element, in order; the first Err ends the iteration and is returned
                  # by the `?` after collect, exactly as a `?` inside the loop body returns it)
                  (r"(?s)let (\w+) = (\w+)\s*\.iter\(\)\s*\.map\(\|\((\w+), (\w+)\)\| -> Result<usize> \{(.*?)\n\s*Ok\((\w+)\)\s*\}\)\s*\.collect::<Result<Vec<_>>>\(\)\?;",
                   r"let mut \1: Vec<usize> = Vec::new();\nfor pair__ in it: \2.iter() {\nlet (\3, \4) = pair__;\5\n\1.push(\6);\n}", 1, "re"),
                  ("for else_if_jump_ip in else_if_jump_ips.iter() {", "for else_if_jump_ip in it2: else_if_jump_ips.iter() {", 1)],
           before=[("let mut else_if_jump_ips: Vec<usize> = Vec::new();", """let ghost n = old(self).g@.trace.len() as int; let ghost want = expression_context.result_register;
let ghost t_head = self.g@.trace; let ghost b = t_head.len() as int; let ghost hc = t_head[n + 2].pos();
let ghost len_head = self.len();
let ghost mut cond_holes: Set<int> = Set::empty().insert(hc); let ghost mut cond_target: Map<int, int> = Map::empty().insert(hc, len_head);
proof {
    assert(b == n + (if if_jump_ip is Some { 6int } else { 4 }));
    assert(if_jump_ip matches Some(x) ==> x as int == t_head[n + 5].pos() && len_head == x + 2);
    assert(t_head[n].is_node(ast_if.condition, ResultRegister::Any) && t_head[n + 1].is_op(Op::JumpIfFalse, seq![t_head[n].reg()]) && t_head[n + 2] is Hole && t_head[n + 3].is_node(ast_if.then_node, want));
    assert(if_jump_ip is Some ==> t_head[n + 4].is_op(Op::Jump, Seq::empty()) && t_head[n + 5] is Hole);
}"""),
                   ("let condition = self.compile_node(*else_if_condition, ctx.with_any_register())?;", "let ghost s0 = *self; let ghost t0 = self.g@.trace; let ghost k = it.index@ as int;"),
                   ("else_if_jump_ips.push(else_if_jump_ip);", """proof {
    let t1 = self.g@.trace; let i = b + 6 * k;
    assert(prefix(t0, t1));
    assert(elif_shape(t1, i, else_if_blocks@[k], want)) by { reveal(elif_shape); }
    assert forall|j: int| 0 <= j < k implies elif_shape(t1, b + 6 * j, #[trigger] else_if_blocks@[j], want) by { lemma_elif_stable(t0, t1, b + 6 * j, else_if_blocks@[j], want); }
    assert forall|h: int| cond_holes.contains(h) implies self.g@.patched.contains_key(h) && self.g@.patched[h] == cond_target[h] by { assert(s0.g@.patched.contains_key(h) && h + 2 <= s0.len()); }
    let h = t1[i + 2].pos(); let e = t1[i + 5].pos();
    assert(t1[i + 2] is Hole && t1[i + 5] is Hole) by { reveal(elif_shape); }
    assert(!cond_holes.contains(h) && h >= s0.len());
    assert forall|j: int| 0 <= j < k implies t1[b + 6 * j + 2] == t0[b + 6 * j + 2] && t1[b + 6 * j + 5] == t0[b + 6 * j + 5] && #[trigger] else_if_blocks@[j] == else_if_blocks@[j] by { }
    cond_holes = cond_holes.insert(h); cond_target = cond_target.insert(h, e + 2);
}"""),
                   ("if let Some(else_node) = else_node {", "let ghost t_blocks = self.g@.trace; let ghost s_blocks = *self;"),
                   ("if let Some(if_jump_ip) = if_jump_ip {", "let ghost t_end = self.g@.trace; let ghost len_end = self.len(); proof { assert(prefix(t_blocks, t_end)); assert(prefix(t_head, t_end)); assert(prefix(old(self).g@.trace, t_end)); assert forall|h: int| cond_holes.contains(h) implies self.g@.patched.contains_key(h) && self.g@.patched[h] == cond_target[h] by { assert(s_blocks.g@.patched.contains_key(h) && h + 2 <= s_blocks.len()); } }"),
                   ("Ok(result)", """proof {
    let t = self.g@.trace;
    assert(Self::frame_post(old(self), self, old(self).len()));
    assert(cond_holes.contains(hc));
    assert(else_if_blocks@ == ast_if.else_if_blocks@ && *else_node == ast_if.else_node);
    assert(b == n + (if ast_if.else_if_blocks@.len() > 0 || ast_if.else_node is Some || result.register is Some { 6int } else { 4 }));
    assert forall|j: int| 0 <= j < ast_if.else_if_blocks@.len() implies elif_shape(t, b + 6 * j, #[trigger] ast_if.else_if_blocks@[j], want) by {
        lemma_elif_stable(t_blocks, t, b + 6 * j, else_if_blocks@[j], want);
    }
    assert forall|j: int| 0 <= j < ast_if.else_if_blocks@.len() implies #[trigger] elif_jumps(t, b + 6 * j, self.g@.patched, self.len()) by {
        assert(elif_shape(t_blocks, b + 6 * j, else_if_blocks@[j], want));
        assert(t[b + 6 * j + 2] == t_blocks[b + 6 * j + 2] && t[b + 6 * j + 5] == t_blocks[b + 6 * j + 5]);
        assert(cond_holes.contains(t[b + 6 * j + 2].pos()));
        assert(else_if_jump_ips@[j] as int == t[b + 6 * j + 5].pos());
        reveal(elif_jumps);
    }
    assert(want == fixed_or_none_spec(result.register));
    let bb = n + (if ast_if.else_if_blocks@.len() > 0 || ast_if.else_node is Some || result.register is Some { 6int } else { 4 });
    assert(bb == b);
    assert(forall|j: int| 0 <= j < ast_if.else_if_blocks@.len() ==> elif_shape(t, bb + 6 * j, #[trigger] ast_if.else_if_blocks@[j], fixed_or_none_spec(result.register)));
    assert(forall|j: int| 0 <= j < ast_if.else_if_blocks@.len() ==> #[trigger] elif_jumps(t, bb + 6 * j, self.g@.patched, self.len()));
}""", -1)],
           loops={1: r"""
            invariant
                self.g@.spans == old(self).g@.spans, self.g@.spans.len() > 0, self.fixed() == old(self).fixed(),
                self.g@.regs == old(self).g@.regs + (if result.is_temporary { 1int } else { 0 }),
                expression_context.ast == ctx.ast, expression_context.result_register == want, want == fixed_or_none_spec(result.register),
                n == old(self).g@.trace.len(), prefix(t_head, self.g@.trace), b == t_head.len(), n + 4 <= b, self.len() >= old(self).len(),
                self.g@.trace.len() == b + 6 * it.index@,
                Self::frame_post(old(self), self, old(self).len()),
                else_if_jump_ips@.len() == it.index@,
                // each block compiled so far has the shape of a block; a failing condition lands right after it; the jump that
                // leaves the `if` after the block is remembered
                forall|j: int| 0 <= j < it.index@ ==> elif_shape(self.g@.trace, b + 6 * j, #[trigger] else_if_blocks@[j], want)
                    && cond_holes.contains(self.g@.trace[b + 6 * j + 2].pos())
                    && cond_target[self.g@.trace[b + 6 * j + 2].pos()] == self.g@.trace[b + 6 * j + 5].pos() + 2
                    && else_if_jump_ips@[j] as int == self.g@.trace[b + 6 * j + 5].pos(),
                cond_holes.contains(hc), cond_target[hc] == len_head, it.index@ == 0 ==> self.len() == len_head,
                forall|h: int| #![trigger cond_holes.contains(h)] cond_holes.contains(h) ==> old(self).len() <= h && h + 2 <= self.len() && self.g@.patched.contains_key(h) && self.g@.patched[h] == cond_target[h],
                forall|q: int| 0 <= q < else_if_jump_ips@.len() ==> old(self).len() <= (#[trigger] else_if_jump_ips@[q]) && else_if_jump_ips@[q] + 2 <= self.len() && !cond_holes.contains(else_if_jump_ips@[q] as int),
                if_jump_ip matches Some(x) ==> old(self).len() <= x && x + 2 <= self.len() && !cond_holes.contains(x as int),
""", 2: r"""
            invariant
                self.g@.trace == t_end, self.fixed() == old(self).fixed(), self.g@.regs == old(self).g@.regs + (if result.is_temporary { 1int } else { 0 }), self.len() == len_end,
                Self::frame_post(old(self), self, old(self).len()),
                forall|h: int| #![trigger cond_holes.contains(h)] cond_holes.contains(h) ==> self.g@.patched.contains_key(h) && self.g@.patched[h] == cond_target[h],
                forall|q: int| 0 <= q < else_if_jump_ips@.len() ==> old(self).len() <= (#[trigger] else_if_jump_ips@[q]) && else_if_jump_ips@[q] + 2 <= self.len() && !cond_holes.contains(else_if_jump_ips@[q] as int),
                forall|q: int| 0 <= q < it2.index@ ==> self.g@.patched.contains_key(#[trigger] else_if_jump_ips@[q] as int) && self.g@.patched[else_if_jump_ips@[q] as int] == self.len(),
                if_jump_ip matches Some(x) ==> self.g@.patched.contains_key(x as int) && self.g@.patched[x as int] == self.len(),
"""},
           spec=r"""
    requires old(self).g@.spans.len() > 0,
    ensures
        r is Ok ==> prefix(old(self).g@.trace, final(self).g@.trace),
        // C01: the condition is evaluated first, into a register of its own; when it is falsy the `then` block is
        // skipped; the `then` block goes into the if's register
        r matches Ok(out) ==> ({
            let t = final(self).g@.trace; let n = old(self).g@.trace.len() as int;
            t.len() >= n + 4 && t[n].is_node(ast_if.condition, ResultRegister::Any) && t[n + 1].is_op(Op::JumpIfFalse, seq![t[n].reg()]) && t[n + 2] is Hole
                && t[n + 3].is_node(ast_if.then_node, fixed_or_none_spec(out.register)) }),                                                // @condition_guards_the_then_block
        // after the `then` block everything else is skipped whenever there IS something else (an else-if, an else, or
        // the null the if yields when no block runs); a falsy condition lands right behind that jump
        r matches Ok(out) ==> ({
            let t = final(self).g@.trace; let n = old(self).g@.trace.len() as int;
            let more = ast_if.else_if_blocks@.len() > 0 || ast_if.else_node is Some || out.register is Some;
            &&& (more ==> t.len() >= n + 6 && t[n + 4].is_op(Op::Jump, Seq::empty()) && t[n + 5] is Hole
                    && final(self).g@.patched.contains_key(t[n + 5].pos()) && final(self).g@.patched[t[n + 5].pos()] == final(self).len())
            &&& final(self).g@.patched.contains_key(t[n + 2].pos())
            &&& final(self).g@.patched[t[n + 2].pos()] == (if more { t[n + 5].pos() + 2 } else { final(self).len() })
            &&& (!more ==> t.len() == n + 4) }),                                                                                           // @then_block_leaves_the_if_falsy_condition_goes_on
        // the else-if blocks follow in order, each condition guarding ITS block
        r matches Ok(out) ==> ({
            let t = final(self).g@.trace; let n = old(self).g@.trace.len() as int;
            let more = ast_if.else_if_blocks@.len() > 0 || ast_if.else_node is Some || out.register is Some;
            let b = n + (if more { 6int } else { 4 });
            &&& (forall|j: int| 0 <= j < ast_if.else_if_blocks@.len() ==> elif_shape(t, b + 6 * j, #[trigger] ast_if.else_if_blocks@[j], fixed_or_none_spec(out.register)))
            &&& (forall|j: int| 0 <= j < ast_if.else_if_blocks@.len() ==> #[trigger] elif_jumps(t, b + 6 * j, final(self).g@.patched, final(self).len())) }),                                                // @else_if_blocks_in_order_each_condition_guards_its_block
        // last the else block, or null for the if's value when there is none
        r matches Ok(out) ==> ({
            let t = final(self).g@.trace; let n = old(self).g@.trace.len() as int;
            let more = ast_if.else_if_blocks@.len() > 0 || ast_if.else_node is Some || out.register is Some;
            let m = n + (if more { 6int } else { 4 }) + 6 * ast_if.else_if_blocks@.len();
            match ast_if.else_node {
                Some(e) => t.len() == m + 1 && t[m].is_node(e, fixed_or_none_spec(out.register)),
                None => match out.register { Some(x) => t.len() == m + 1 && t[m].is_op(Op::SetNull, seq![x]), None => t.len() == m },
            } }),                                                                                                                         // @else_block_or_null_last
        r matches Ok(out) ==> final(self).g@.regs == old(self).g@.regs + (if out.is_temporary { 1int } else { 0 }),                       // @temporaries_released
        r is Ok ==> Self::frame_post(old(self), final(self), old(self).len()),                                                           // @earlier_code_and_enclosing_loops_untouched
        r matches Ok(out) ==> (ctx.result_register matches ResultRegister::Fixed(x) ==> out.register == Some(x) && !out.is_temporary),
        r matches Ok(out) ==> (ctx.result_register is None ==> out.register is None),                                                     // @result_request_is_honoured
"""),
        # ---- C01: chained comparisons
        Fn(F, "impl Compiler :: fn compile_comparison_op", props=P01, attrs=("verifier::rlimit(80)", "verifier::spinoff_prover", "verifier::exec_allows_no_decreases_clause"),
           subst=[MAP_OR_ELSE, ('"comparison".into()', 'err_str("comparison")', 1),
                  # the closure's parameter type, result type and contract (nothing else is added to it)
                  ("let get_comparision_op = |ast_op| {", "let get_comparision_op = |ast_op: AstBinaryOp| -> (r: core::result::Result<Op, ErrorKind>) ensures (r is Ok) == (cmp_op_spec(ast_op) is Ok), r matches Ok(o) ==> cmp_op_spec(ast_op) == Ok::<Op, ErrorKind>(o) {", 1),
                  # `f(x).map_err(|e| self.make_error(e))?` written out (std Result::map_err, then `?`)
                  (r"get_comparision_op\(ast_op\)\.map_err\(\|e\| self\.make_error\(e\)\)\?", "(match get_comparision_op(ast_op) { Ok(v__) => v__, Err(e__) => { return Err(self.make_error(e__)); } })", 2, "re"),
                  ("let mut jump_offsets = Vec::new();", "let mut jump_offsets: Vec<usize> = Vec::new();", 1),
                  ("for jump_offset in jump_offsets.iter() {", "for jump_offset in it2: jump_offsets.iter() {", 1)],
           # ghost bookkeeping and hints only: the chain unrolled (rs), the operand and operator of each link
           before=[("let mut rhs = rhs;", """let ghost n = old(self).g@.trace.len() as int; let ghost rhs0 = rhs; let ghost op0 = ast_op; let ghost c = comparison_register;
let ghost mut rs: Seq<AstIndex> = seq![rhs0]; let ghost mut operands: Seq<AstIndex> = Seq::empty(); let ghost mut ops: Seq<AstBinaryOp> = seq![op0];"""),
                   ("let rhs_lhs_register = self", "let ghost t0 = self.g@.trace; let ghost l = rs.len() - 1;"),
                   (("lhs_register = rhs_lhs_register;", "rhs = *rhs_rhs;", "ast_op = *rhs_ast_op;"), """proof {
    let t1 = self.g@.trace; let p = n + 1 + 4 * l;
    assert(prefix(t0, t1));
    assert(cmp_link(t1, p, cmp_prev(n, l), *rhs_lhs, ops[l], c)) by { reveal(cmp_link); }
    assert forall|i: int| 0 <= i < l implies cmp_link(t1, n + 1 + 4 * i, cmp_prev(n, i), #[trigger] operands[i], ops[i], c) by {
        lemma_cmp_link_stable(t0, t1, n + 1 + 4 * i, cmp_prev(n, i), operands[i], ops[i], c);
    }
    assert forall|i: int| 0 <= i < l + 1 implies t1[n + 1 + 4 * i + 3].pos() == #[trigger] jump_offsets@.push((self.len() - 2) as usize)[i] as int by { if i < l { assert(t1[n + 1 + 4 * i + 3] == t0[n + 1 + 4 * i + 3]); } else { reveal(cmp_link); } }
    rs = rs.push(*rhs_rhs); operands = operands.push(*rhs_lhs); ops = ops.push(*rhs_ast_op);
}"""),
                   ("let rhs_register = self", "let ghost t_links = self.g@.trace;"),
                   ("for jump_offset in it2: jump_offsets.iter() {", "let ghost t_end = self.g@.trace; let ghost len_end = self.len(); let ghost links = rs.len() - 1; proof { assert(prefix(t_links, t_end)); }"),
                   ("self.truncate_register_stack(stack_count)?;", """proof {
    let t = self.g@.trace;
    assert forall|i: int| 0 <= i < links implies cmp_link(t, n + 1 + 4 * i, cmp_prev(n, i), bin_lhs(ctx.ast, #[trigger] rs[i]), cmp_chain_op(ctx.ast, op0, rs, i), c) by {
        lemma_cmp_link_stable(t_links, t, n + 1 + 4 * i, cmp_prev(n, i), operands[i], ops[i], c);
        assert(operands[i] == bin_lhs(ctx.ast, rs[i])); assert(ops[i] == cmp_chain_op(ctx.ast, op0, rs, i));
    }
    assert forall|i: int| 0 <= i < links implies self.g@.patched.contains_key(t[n + 1 + 4 * i + 3].pos()) && self.g@.patched[t[n + 1 + 4 * i + 3].pos()] == self.len() && #[trigger] rs[i] == rs[i] by {
        assert(t[n + 1 + 4 * i + 3] == t_links[n + 1 + 4 * i + 3]);
        assert(jump_offsets@[i] as int == t_links[n + 1 + 4 * i + 3].pos());
    }
    assert(ops[links] == cmp_chain_op(ctx.ast, op0, rs, links));
}""", -1),
                   ("Ok(result)", """proof {
    assert(Self::frame_post(old(self), self, old(self).len()));
    assert(cmp_chain(ctx.ast, rhs0, rs));
    assert(Self::cmp_post(old(self), self, ctx.ast, op0, lhs, rs, c, result));
}""", -1)],
           loops={1: r"""
            invariant
                forall|x: AstBinaryOp| #[trigger] get_comparision_op.requires((x,)),
                forall|x: AstBinaryOp, y: core::result::Result<Op, ErrorKind>| #[trigger] get_comparision_op.ensures((x,), y) ==> ((y is Ok) == (cmp_op_spec(x) is Ok)) && (y matches Ok(o) ==> cmp_op_spec(x) == Ok::<Op, ErrorKind>(o)),
                self.g@.spans == old(self).g@.spans, self.g@.spans.len() > 0, self.fixed() == old(self).fixed(), self.g@.regs >= stack_count,
                n == old(self).g@.trace.len(), prefix(old(self).g@.trace, self.g@.trace), self.len() >= old(self).len(),
                Self::frame_post(old(self), self, old(self).len()),
                // the chain so far
                rs.len() >= 1, rs[0] == rhs0, rs.last() == rhs, ops.len() == rs.len(), operands.len() == rs.len() - 1, ops[0] == op0, ast_op == ops.last(), is_cmp(ast_op),
                forall|i: int| 0 <= i < rs.len() - 1 ==> ctx.ast.at(#[trigger] rs[i]).node is BinaryOp && is_cmp(bin_op(ctx.ast, rs[i])) && rs[i + 1] == bin_rhs(ctx.ast, rs[i])
                    && operands[i] == bin_lhs(ctx.ast, rs[i]) && ops[i + 1] == bin_op(ctx.ast, rs[i]),
                // what was emitted for it
                self.g@.trace.len() == n + 1 + 4 * (rs.len() - 1),
                self.g@.trace[n].is_node(lhs, ResultRegister::Any),
                lhs_register == self.g@.trace[cmp_prev(n, rs.len() - 1)].reg(),
                forall|i: int| 0 <= i < rs.len() - 1 ==> cmp_link(self.g@.trace, n + 1 + 4 * i, cmp_prev(n, i), #[trigger] operands[i], ops[i], c),
                jump_offsets@.len() == rs.len() - 1,
                forall|i: int| 0 <= i < rs.len() - 1 ==> self.g@.trace[n + 1 + 4 * i + 3].pos() == (#[trigger] jump_offsets@[i]) as int,
                forall|q: int| 0 <= q < jump_offsets@.len() ==> old(self).len() <= (#[trigger] jump_offsets@[q]) && jump_offsets@[q] + 2 <= self.len(),
                c == comparison_register, result.register matches Some(x) ==> c == x,
            ensures
                // the chain ends at the first rhs that is not itself a comparison
                !(ctx.ast.at(rhs).node is BinaryOp && is_cmp(bin_op(ctx.ast, rhs))),
""", 2: r"""
            invariant
                self.g@.trace == t_end, self.fixed() == old(self).fixed(), self.g@.regs >= stack_count, self.len() == len_end, self.g@.spans == old(self).g@.spans,
                Self::frame_post(old(self), self, old(self).len()),
                forall|q: int| 0 <= q < jump_offsets@.len() ==> old(self).len() <= (#[trigger] jump_offsets@[q]) && jump_offsets@[q] + 2 <= self.len(),
                forall|q: int| 0 <= q < it2.index@ ==> self.g@.patched.contains_key(#[trigger] jump_offsets@[q] as int) && self.g@.patched[jump_offsets@[q] as int] == self.len(),
"""},
           spec=r"""
    requires old(self).g@.spans.len() > 0,
        is_cmp(ast_op),   // @only_comparison_operators_get_here - compile_binary_op proves it for its call
    ensures
        r is Ok ==> prefix(old(self).g@.trace, final(self).g@.trace),
        // C01: `a < b < c` is `(a < b) and (b < c)` with every operand evaluated once, left to right, and nothing
        // after a false comparison evaluated
        r matches Ok(out) ==> exists|rs: Seq<AstIndex>, c: u8| cmp_chain(ctx.ast, rhs, rs) && #[trigger] Self::cmp_post(old(self), final(self), ctx.ast, ast_op, lhs, rs, c, out),   // @operands_once_left_to_right_false_comparison_skips_the_rest
        r matches Ok(out) ==> final(self).g@.regs == old(self).g@.regs + (if out.is_temporary { 1int } else { 0 }),                       // @temporaries_released
        r is Ok ==> Self::frame_post(old(self), final(self), old(self).len()),                                                           // @earlier_code_and_enclosing_loops_untouched
        r matches Ok(out) ==> (ctx.result_register matches ResultRegister::Fixed(x) ==> out.register == Some(x) && !out.is_temporary),
        r matches Ok(out) ==> (ctx.result_register is None ==> out.register is None),                                                     // @result_request_is_honoured
"""),
        # ---- C04: try / catch / finally
        Fn(F, "impl Compiler :: fn compile_try_expression", props=("C04", "C01", "C06"), attrs=("verifier::rlimit(80)", "verifier::spinoff_prover"),
           subst=[ERR, (r"self\.error\(ErrorKind::\w+\)", "self.error_any()", None, "re"),
                  # SmallVec<[usize; 4]> treated as a Vec
                  ("SmallVec::<[usize; 4]>::new()", "Vec::<usize>::new()", None),
                  # rule R16: `for (i, x) in v.iter().enumerate()` written with an explicit counter (std Enumerate: i counts from 0)
                  ("for (i, catch_block) in catch_blocks.iter().enumerate() {", "let mut i__: usize = 0;\n        for catch_block in it: catch_blocks.iter() {\n            assert(it.index@ < catch_blocks@.len());\n            let i = i__; i__ = i__ + 1;", 1),
                  # a Vec consumed by value, element by element: iterated by reference (usize is Copy)
                  ("for placeholder in type_check_jump_placeholders {\n                self.update_offset_placeholder(placeholder)?;", "for placeholder in it3: type_check_jump_placeholders.iter() {\n                self.update_offset_placeholder(*placeholder)?;", 1),
                  ("for placeholder in finally_jump_placeholders {\n            self.update_offset_placeholder(placeholder)?;", "for placeholder in it2: finally_jump_placeholders.iter() {\n            self.update_offset_placeholder(*placeholder)?;", 1)],
           before=[("let mut i__: usize = 0;", "let ghost n = old(self).g@.trace.len() as int; let ghost t_head = self.g@.trace; let ghost r0 = self.g@.regs; proof { assert(catch_blocks@.len() == catch_blocks.len()); }"),
                   ("let mut type_check_jump_placeholders = Vec::<usize>::new();", "let ghost s_it = *self;"),
                   ("for placeholder in it3: type_check_jump_placeholders.iter() {", "let ghost t3 = self.g@.trace; let ghost len3 = self.len(); let ghost sp3 = self.g@.spans;"),
                   ("self.pop_span(); // catch arg", "assert(self.g@.spans.drop_last() =~= old(self).g@.spans);"),
                   ("self.pop_span(); // catch block", "assert(self.g@.spans.drop_last() =~= old(self).g@.spans);"),
                   ("for placeholder in it2: finally_jump_placeholders.iter() {", "let ghost t_end = self.g@.trace; let ghost len_end = self.len(); proof { assert(prefix(t_head, t_end)); }"),
                   ("if let Some(finally_block) = finally_block {", "proof { assert(finally_jump_placeholders@[0] as int == t_head[n + 5].pos()); assert(try_expression.finally_block == *finally_block && try_expression.try_block == *try_block); }")],
           loops={1: r"""
            invariant
                i__ == it.index@, catch_blocks@.len() <= usize::MAX, !(try_result_register is Any),
                self.g@.spans == old(self).g@.spans, self.g@.spans.len() > 0, self.fixed() == old(self).fixed(), self.g@.regs == r0,
                n == old(self).g@.trace.len(), t_head.len() == n + 7, prefix(t_head, self.g@.trace), self.len() >= old(self).len(),
                Self::frame_post(old(self), self, old(self).len()),
                // the jumps to the finally block: all inside the code emitted here; the first one is the try block's
                finally_jump_placeholders@.len() >= 1, finally_jump_placeholders@[0] as int == t_head[n + 5].pos(),
                forall|q: int| 0 <= q < finally_jump_placeholders@.len() ==> old(self).len() <= (#[trigger] finally_jump_placeholders@[q]) && finally_jump_placeholders@[q] + 2 <= self.len(),
                self.g@.patched.contains_key(t_head[n + 1].pos()) && self.g@.patched[t_head[n + 1].pos()] == t_head[n + 6].pos(), old(self).len() <= t_head[n + 1].pos() < t_head[n + 5].pos(),
                t_head[n + 1].pos() + 2 <= self.len(),
                forall|q: int| 0 <= q < finally_jump_placeholders@.len() ==> t_head[n + 1].pos() + 2 <= #[trigger] finally_jump_placeholders@[q],
""", 2: r"""
            invariant
                self.g@.trace == t3, self.len() == len3, self.g@.spans == sp3, self.fixed() == old(self).fixed(), self.g@.regs == r0,
                Self::code_frame_post(old(self), self, old(self).len()), old(self).len() <= s_it.len(), t_head[n + 1].pos() + 2 <= s_it.len(),
                forall|q: int| 0 <= q < type_check_jump_placeholders@.len() ==> s_it.len() <= (#[trigger] type_check_jump_placeholders@[q]) && type_check_jump_placeholders@[q] + 2 <= self.len(),
                self.g@.patched.contains_key(t_head[n + 1].pos()) && self.g@.patched[t_head[n + 1].pos()] == t_head[n + 6].pos(),
""", 3: r"""
            invariant
                self.g@.trace == t_end, self.len() == len_end, self.g@.spans == old(self).g@.spans, self.fixed() == old(self).fixed(), self.g@.regs == r0 - 1,
                Self::frame_post(old(self), self, old(self).len()),
                forall|q: int| 0 <= q < finally_jump_placeholders@.len() ==> old(self).len() <= (#[trigger] finally_jump_placeholders@[q]) && finally_jump_placeholders@[q] + 2 <= self.len(),
                forall|q: int| 0 <= q < finally_jump_placeholders@.len() ==> t_head[n + 1].pos() + 2 <= #[trigger] finally_jump_placeholders@[q],
                self.g@.patched.contains_key(t_head[n + 1].pos()) && self.g@.patched[t_head[n + 1].pos()] == t_head[n + 6].pos(),
                forall|q: int| 0 <= q < it2.index@ ==> self.g@.patched.contains_key(#[trigger] finally_jump_placeholders@[q] as int) && self.g@.patched[finally_jump_placeholders@[q] as int] == self.len(),
"""},
           spec=r"""
    requires old(self).g@.spans.len() > 0,
    ensures
        r is Ok ==> prefix(old(self).g@.trace, final(self).g@.trace) && final(self).g@.trace.len() >= old(self).g@.trace.len() + 7,
        // C04: TryStart names the register that receives the thrown value and points at the start of the catch blocks;
        // the try block's value is the expression's value only when there is no finally block; reaching the end of the
        // try block clears the catch point (TryEnd) and jumps over the catch blocks; the catch section starts by
        // clearing the catch point (an error in a catch block must not re-enter it)
        r matches Ok(out) ==> ({
            let t = final(self).g@.trace; let n = old(self).g@.trace.len() as int;
            &&& (t[n] matches Ev::Op { op, args, .. } && op == Op::TryStart && args.len() == 1)
            &&& t[n + 1] is Hole
            &&& t[n + 2].is_node(try_expression.try_block, if try_expression.finally_block is None { fixed_or_none_spec(out.register) } else { ResultRegister::None })
            &&& t[n + 3].is_op(Op::TryEnd, seq![0u8]) && t[n + 4].is_op(Op::Jump, Seq::empty()) && t[n + 5] is Hole
            &&& t[n + 6].is_op(Op::TryEnd, seq![0u8])
            &&& final(self).g@.patched.contains_key(t[n + 1].pos()) && final(self).g@.patched[t[n + 1].pos()] == t[n + 6].pos()
        }),                                                                                                                               // @try_block_layout_and_catch_point
        // the finally block comes last, runs on every path that reaches the end of the try block or of a catch block
        // (the jump after the try block lands on it), and provides the expression's value
        r matches Ok(out) ==> ({
            let t = final(self).g@.trace; let n = old(self).g@.trace.len() as int;
            match try_expression.finally_block {
                Some(f) => t.last().is_node(f, fixed_or_none_spec(out.register)) && final(self).g@.patched.contains_key(t[n + 5].pos()) && final(self).g@.patched[t[n + 5].pos()] == t.last().pos(),
                None => final(self).g@.patched.contains_key(t[n + 5].pos()) && final(self).g@.patched[t[n + 5].pos()] == final(self).len(),
            } }),                                                                                                                         // @finally_block_last_reached_from_the_try_block_gives_the_value
        // C01: the result-register protocol (the catch register is released; a temporary result is reported as one)
        r matches Ok(out) ==> final(self).g@.regs == old(self).g@.regs + (if out.is_temporary { 1int } else { 0 }),                       // @temporaries_released
        r is Ok ==> Self::frame_post(old(self), final(self), old(self).len()),                                                           // @earlier_code_and_enclosing_loops_untouched
        r matches Ok(out) ==> (ctx.result_register matches ResultRegister::Fixed(x) ==> out.register == Some(x) && !out.is_temporary),
        r matches Ok(out) ==> (ctx.result_register is Any ==> out.register is Some && out.is_temporary),
        r matches Ok(out) ==> (ctx.result_register is None ==> out.register is None),                                                     // @result_request_is_honoured
"""),
        # ---- C01: arithmetic and unary operators
        Fn(F, "impl Compiler :: fn compile_arithmetic_op", props=P01,
           subst=[ERR, ('"arithmetic".into()', 'err_str("arithmetic")', 1)], before=[TAIL],
           spec=r"""
    requires old(self).g@.spans.len() > 0,
    ensures
        arith_op_spec(op) is None ==> r is Err,                                                                                           // @not_an_arithmetic_operator_is_an_error
        r is Ok ==> prefix(old(self).g@.trace, final(self).g@.trace),
        // C01: lhs first, then rhs, each into a register of its own, then ONE instruction for the operator with the
        // result register first; without a result request both operands are still evaluated (side effects), in order
        r matches Ok(out) ==> ({
            let t = final(self).g@.trace; let n = old(self).g@.trace.len() as int;
            match out.register {
                Some(x) => t.len() == n + 3 && t[n].is_node(lhs, ResultRegister::Any) && t[n + 1].is_node(rhs, ResultRegister::Any)
                    && (arith_op_spec(op) matches Some(o) && t[n + 2].is_op(o, seq![x, t[n].reg(), t[n + 1].reg()])),
                None => t.len() == n + 2 && t[n].is_node(lhs, ResultRegister::None) && t[n + 1].is_node(rhs, ResultRegister::None),
            } }),                                                                                                                         // @lhs_then_rhs_then_the_operator
        r matches Ok(out) ==> final(self).g@.regs == old(self).g@.regs + (if out.is_temporary { 1int } else { 0 }),                       // @temporaries_released
        r is Ok ==> Self::frame_post(old(self), final(self), old(self).len()),                                                           // @earlier_code_and_enclosing_loops_untouched
        r matches Ok(out) ==> (ctx.result_register matches ResultRegister::Fixed(x) ==> out.register == Some(x) && !out.is_temporary),
        r matches Ok(out) ==> (ctx.result_register is Any ==> out.register is Some && out.is_temporary),
        r matches Ok(out) ==> (ctx.result_register is None ==> out.register is None),                                                     // @result_request_is_honoured
"""),
        Fn(F, "impl<'a> CompileNodeContext<'a> :: fn compile_for_side_effects", props=P01, spec="    ensures r.ast == self.ast && r.result_register is None,\n"),
        Fn(F, "impl Compiler :: fn compile_unary_op", props=P01, before=[TAIL],
           spec=r"""
    requires old(self).g@.spans.len() > 0,
    ensures
        r is Ok ==> prefix(old(self).g@.trace, final(self).g@.trace),
        // C01: the operand into a register of its own, then Negate / Not into the result register
        r matches Ok(out) ==> ({
            let t = final(self).g@.trace; let n = old(self).g@.trace.len() as int;
            t.len() == n + (if out.register is Some { 2int } else { 1 }) && t[n].is_node(value, ResultRegister::Any)
                && (out.register matches Some(x) ==> t[n + 1].is_op(if op is Negate { Op::Negate } else { Op::Not }, seq![x, t[n].reg()])) }),   // @operand_then_the_operator
        r matches Ok(out) ==> final(self).g@.regs == old(self).g@.regs + (if out.is_temporary { 1int } else { 0 }),                       // @temporaries_released
        r is Ok ==> Self::frame_post(old(self), final(self), old(self).len()),                                                           // @earlier_code_and_enclosing_loops_untouched
        r matches Ok(out) ==> (ctx.result_register matches ResultRegister::Fixed(x) ==> out.register == Some(x) && !out.is_temporary),
        r matches Ok(out) ==> (ctx.result_register is Any ==> out.register is Some && out.is_temporary),
        r matches Ok(out) ==> (ctx.result_register is None ==> out.register is None),                                                     // @result_request_is_honoured
"""),
        # ---- C01: compound assignment `a OP= b`
        Fn(F, "impl<'a> CompileNodeContext<'a> :: fn with_fixed_register_or_none", props=P01,
           subst=[("register.map_or(ResultRegister::None, ResultRegister::Fixed)", "fixed_or_none(register)", 1)],
           spec="    ensures r.ast == self.ast && r.result_register == fixed_or_none_spec(register),\n"),
        Fn(F, "impl Compiler :: fn compile_compound_assignment_op", props=P01, let_chains=True,
           subst=[ERR, ('"compound assignment".into()', 'err_str("compound assignment")', 1),
                  ("self.frame_stack.len() == 1", "self.at_top_level()", 1)],
           before=[TAIL],
           spec=r"""
    requires old(self).g@.spans.len() > 0,
    ensures
        compound_op_spec(ast_op) is None ==> r is Err,                                                                                    // @not_a_compound_assignment_operator_is_an_error
        r is Ok ==> prefix(old(self).g@.trace, final(self).g@.trace) && final(self).g@.trace.len() >= old(self).g@.trace.len() + 2,
        // the value on the right is evaluated first (as for a plain assignment), into a register of its own
        r matches Ok(out) ==> final(self).g@.trace[old(self).g@.trace.len() as int].is_node(rhs, ResultRegister::Any),                      // @value_first
        // `x[i] OP= v`, `x.y OP= v`: the chain is compiled with the value and the operator, its new value goes where this
        // expression's result goes
        r matches Ok(out) ==> (ctx.ast.at(lhs).node matches Node::Chain(c) ==> ({
            let t = final(self).g@.trace; let n = old(self).g@.trace.len() as int;
            t.len() == n + 2 && (t[n + 1] matches Ev::ChainAssign { chain, rhs: rv, rhs_op, want, .. } && chain == c && rv == Some(t[n].reg())
                && rhs_op == compound_op_spec(ast_op) && want == fixed_or_none_spec(out.register)) })),                                     // @chain_target_gets_value_and_operator
        // `x OP= v`: the target is loaded, ONE instruction applies the operator to it in place, the new value is copied
        // to where the result goes (and exported under its name in the REPL's export mode, at the top level)
        r matches Ok(out) ==> (!(ctx.ast.at(lhs).node is Chain) ==> ({
            let t = final(self).g@.trace; let n = old(self).g@.trace.len() as int;
            let exported = ctx.ast.at(lhs).node is Id && old(self).settings.export_top_level_ids && old(self).top_level();
            let e = if exported { 1int } else { 0 };
            &&& t.len() == n + 3 + e + (if out.register is Some { 1int } else { 0 })
            &&& t[n + 1].is_node(lhs, ResultRegister::Any)
            &&& (compound_op_spec(ast_op) matches Some(o) && t[n + 2].is_op(o, seq![t[n + 1].reg(), t[n].reg()]))
            &&& (exported ==> (t[n + 3] matches Ev::Export { id, register, .. } && register == t[n + 1].reg() && (ctx.ast.at(lhs).node matches Node::Id(i, _) && i == id)))
            &&& (out.register matches Some(x) ==> t[n + 3 + e].is_op(Op::Copy, seq![x, t[n + 1].reg()])) })),                               // @target_updated_in_place_then_copied_to_the_result
        r matches Ok(out) ==> final(self).g@.regs == old(self).g@.regs + (if out.is_temporary { 1int } else { 0 }),                       // @temporaries_released
        r is Ok ==> Self::frame_post(old(self), final(self), old(self).len()),                                                           // @earlier_code_and_enclosing_loops_untouched
        r matches Ok(out) ==> (ctx.result_register matches ResultRegister::Fixed(x) ==> out.register == Some(x) && !out.is_temporary),
        r matches Ok(out) ==> (ctx.result_register is Any ==> out.register is Some && out.is_temporary),
        r matches Ok(out) ==> (ctx.result_register is None ==> out.register is None),                                                     // @result_request_is_honoured
"""),
        # ---- C01: piped calls `x -> f`
        Fn(F, "impl Compiler :: fn compile_load_non_local", props=P01,
           spec=r"""
    requires old(self).g@.spans.len() > 0,
    ensures final(self).g@.trace.len() == old(self).g@.trace.len() + 2 && prefix(old(self).g@.trace, final(self).g@.trace)
        && final(self).g@.trace[old(self).g@.trace.len() as int].is_op(Op::LoadNonLocal, seq![result_register]) && final(self).g@.trace.last().is_var(id.0)
        && final(self).same_frame_state(old(self)) && final(self).g@.patched == old(self).g@.patched && final(self).len() >= old(self).len(),
"""),
        Fn(F, "impl Compiler :: fn compile_constant_op", props=P01, subst=[("id.into()", "constant_index_u32(id)", 1)],
           spec=r"""
    requires old(self).g@.spans.len() > 0,
    ensures final(self).g@.trace.len() == old(self).g@.trace.len() + 2 && prefix(old(self).g@.trace, final(self).g@.trace)
        && final(self).g@.trace[old(self).g@.trace.len() as int].is_op(op, seq![result_register]) && final(self).g@.trace.last().is_var(id.0)
        && final(self).same_frame_state(old(self)) && final(self).g@.patched == old(self).g@.patched && final(self).len() >= old(self).len(),
"""),
        Fn(F, "impl Compiler :: fn compile_piped_call", props=("C01", "C02", "C06"),
           subst=[(r"self\.frame\(\)\.get_local_assigned_register\(", "self.frame_local_assigned_register(", None, "re")],
           before=[TAIL],
           spec=r"""
    requires old(self).g@.spans.len() > 0,
    ensures
        r is Ok ==> prefix(old(self).g@.trace, final(self).g@.trace) && final(self).g@.trace.len() >= old(self).g@.trace.len() + 2,
        // C01: the piped value is evaluated first, into a register of its own; the call gets it as its piped argument and
        // puts its result where THIS expression's result goes (never anywhere else)
        r matches Ok(out) ==> ({
            let t = final(self).g@.trace; let n = old(self).g@.trace.len() as int; let want = fixed_or_none_spec(out.register);
            &&& t[n].is_node(lhs, ResultRegister::Any)
            &&& (match ctx.ast.at(rhs).node {
                    // a local function that has been assigned is called where it is, any other name is loaded into a
                    // register of its own first
                    Node::Id(id, _) => (t.len() == n + 2 && (t[n + 1] matches Ev::Call { piped, want: w, .. } && piped == Some(t[n].reg()) && w == want))
                        || (t.len() == n + 4 && (t[n + 1] matches Ev::Op { op, args, .. } && op == Op::LoadNonLocal && args.len() == 1
                            && t[n + 2].is_var(id.0) && (t[n + 3] matches Ev::Call { function, piped, want: w, .. } && function == args[0] && piped == Some(t[n].reg()) && w == want))),
                    // a chain: the piped value becomes the last argument of the call that ends it
                    Node::Chain(c) => t.len() == n + 2 && (t[n + 1] matches Ev::Chain { chain, piped, want: w, .. } && chain == c && piped == Some(t[n].reg()) && w == want),
                    // anything else is evaluated and called
                    _ => t.len() == n + 3 && t[n + 1].is_node(rhs, ResultRegister::Any)
                        && (t[n + 2] matches Ev::Call { function, piped, want: w, .. } && function == t[n + 1].reg() && piped == Some(t[n].reg()) && w == want),
                }) }),                                                                                                                    // @piped_value_first_then_the_call_into_the_result_register
        r matches Ok(out) ==> final(self).g@.regs == old(self).g@.regs + (if out.is_temporary { 1int } else { 0 }),                       // @temporaries_released
        r is Ok ==> Self::frame_post(old(self), final(self), old(self).len()),                                                           // @earlier_code_and_enclosing_loops_untouched
        r matches Ok(out) ==> (ctx.result_register matches ResultRegister::Fixed(x) ==> out.register == Some(x) && !out.is_temporary),
        r matches Ok(out) ==> (ctx.result_register is Any ==> out.register is Some && out.is_temporary),
        r matches Ok(out) ==> (ctx.result_register is None ==> out.register is None),                                                     // @result_request_is_honoured
"""),
        # the dispatch on the operator: discharges the preconditions of the functions above at their call site
        Fn(F, "impl Compiler :: fn compile_binary_op", props=P01,
           spec=r"""
    requires old(self).g@.spans.len() > 0,
    ensures
        // arithmetic operators go to compile_arithmetic_op: what it guarantees is what a binary arithmetic node gets
        (arith_op_spec(op) is Some && r is Ok) ==> prefix(old(self).g@.trace, final(self).g@.trace) && Self::frame_post(old(self), final(self), old(self).len()),   // @arithmetic_operators_dispatched
"""),
        # ---- C16: the declared output type of a function is asserted on every returned / yielded value
        Fn(F, "impl Compiler :: fn compile_check_output_type", props=P16,
           subst=[("self.frame().output_type", "self.frame_output_type()", 1)],
           spec=r"""
    requires old(self).g@.spans.len() > 0,
    ensures
        final(self).g@.patched == old(self).g@.patched, final(self).same_frame_state(old(self)), final(self).len() >= old(self).len(),
        // C16: nothing without a declared output type (or with type checks disabled), else ONE assertion of that type on
        // the register, reported at `span`
        r is Ok ==> final(self).g@.trace.len() == old(self).g@.trace.len() + old(self).output_check_len() && prefix(old(self).g@.trace, final(self).g@.trace)
            && old(self).output_check_at(ctx.ast, final(self).g@.trace, old(self).g@.trace.len() as int, register, Some(match span { Some(s) => ctx.ast.at(s), None => old(self).g@.spans.last() })),   // @declared_output_type_asserted
"""),
        Fn(F, "impl Compiler :: fn compile_yield", props=("C16", "C01", "C02", "C06"), before=[TAIL],
           spec=r"""
    requires old(self).g@.spans.len() > 0,
    ensures
        r is Ok ==> prefix(old(self).g@.trace, final(self).g@.trace),
        // the value is evaluated, its type asserted against the generator's declared output type (C16: hints on yield),
        // THEN it is yielded; what the generator is resumed with is the yield expression's value
        r matches Ok(out) ==> ({
            let t = final(self).g@.trace; let n = old(self).g@.trace.len() as int; let c = old(self).output_check_len();
            &&& t.len() == n + 1 + c + 1 + (if out.register is Some { 1int } else { 0 })
            &&& t[n].is_node(expression, ResultRegister::Any)
            &&& old(self).output_check_at(ctx.ast, t, n + 1, t[n].reg(), Some(ctx.ast.at(yield_node)))
            &&& t[n + 1 + c].is_op(Op::Yield, seq![t[n].reg()])
            &&& (out.register matches Some(x) ==> t[n + 2 + c].is_op(Op::Copy, seq![x, t[n].reg()])) }),                                   // @value_checked_then_yielded
        r matches Ok(out) ==> final(self).g@.regs == old(self).g@.regs + (if out.is_temporary { 1int } else { 0 }),                       // @temporaries_released
        r is Ok ==> Self::frame_post(old(self), final(self), old(self).len()),                                                           // @earlier_code_and_enclosing_loops_untouched
        r matches Ok(out) ==> (ctx.result_register matches ResultRegister::Fixed(x) ==> out.register == Some(x) && !out.is_temporary),
        r matches Ok(out) ==> (ctx.result_register is Any ==> out.register is Some && out.is_temporary),
        r matches Ok(out) ==> (ctx.result_register is None ==> out.register is None),                                                     // @result_request_is_honoured
"""),
        Fn(F, "impl Compiler :: fn compile_return", props=("C16", "C01", "C06"),
           subst=[("self.frame().is_generator", "self.frame_is_generator()", 1)],
           before=[("Ok(result)", "proof { assert(Self::frame_post(old(self), self, old(self).len())); assert(prefix(old(self).g@.trace, self.g@.trace)); }", -1)],
           spec=r"""
    requires old(self).g@.spans.len() > 0,
    ensures
        r is Ok ==> prefix(old(self).g@.trace, final(self).g@.trace),
        // `return expr`: the value is evaluated, its type asserted against the function's declared output type (not in a
        // generator, whose declared type is about what it yields), then returned
        r matches Ok(out) ==> (expression matches Some(e) ==> ({
            let t = final(self).g@.trace; let n = old(self).g@.trace.len() as int; let c = if old(self).is_generator() { 0 } else { old(self).output_check_len() };
            &&& t.len() >= n + 1 + c + 1 && t[n].is_node(e, ResultRegister::Any)
            &&& (!old(self).is_generator() ==> old(self).output_check_at(ctx.ast, t, n + 1, t[n].reg(), Some(ctx.ast.at(return_node))))
            &&& (match ctx.result_register {
                    ResultRegister::Fixed(x) => t.len() == n + 3 + c && t[n + 1 + c].is_op(Op::Copy, seq![x, t[n].reg()]) && t[n + 2 + c].is_op(Op::Return, seq![x]),
                    _ => t.len() == n + 2 + c && t[n + 1 + c].is_op(Op::Return, seq![t[n].reg()]),
                }) })),                                                                                                                   // @value_checked_then_returned
        // a bare `return` returns null, which is checked like any other value
        r matches Ok(out) ==> (expression is None ==> ({
            let t = final(self).g@.trace; let n = old(self).g@.trace.len() as int; let c = if old(self).is_generator() { 0 } else { old(self).output_check_len() };
            t.len() == n + 2 + c && (t[n] matches Ev::Op { op, args, .. } && op == Op::SetNull && args.len() == 1
                && (!old(self).is_generator() ==> old(self).output_check_at(ctx.ast, t, n + 1, args[0], Some(old(self).g@.spans.last())))
                && t[n + 1 + c].is_op(Op::Return, seq![args[0]])) })),                                                                    // @bare_return_returns_null
        r matches Ok(out) ==> final(self).g@.regs == old(self).g@.regs + (if out.is_temporary { 1int } else { 0 }),                       // @temporaries_released
        r is Ok ==> Self::frame_post(old(self), final(self), old(self).len()),                                                           // @earlier_code_and_enclosing_loops_untouched
        r matches Ok(out) ==> (ctx.result_register matches ResultRegister::Fixed(x) ==> out.register == Some(x) && !out.is_temporary),
        r matches Ok(out) ==> (out.is_temporary ==> ctx.result_register is Any),
        r matches Ok(out) ==> (ctx.result_register is None ==> out.register is None),                                                     // @result_request_is_honoured
"""),
        # ---- compile_node, arm by arm (rule R13): the `debug` expression
        Fn(F, "impl Compiler :: fn compile_node", props=("C01", "C12", "C06"), rename="compile_node__debug_arm",
           fragment=dict(start="let expression_context = match ctx.result_register {", to_block_end=True, prologue="use Op::*;", wrap=("Ok({", "})"),
                         sig="fn compile_node(&mut self, expression_string: &ConstantIndex, expression: &AstIndex, ctx: CompileNodeContext) -> Result<CompileNodeOutput>"),
           subst=[("u32::from(*expression_string)", "constant_index_u32(*expression_string)", 1)],
           spec=r"""
    requires old(self).g@.spans.len() > 0,
    ensures
        // the expression is evaluated where the caller wants it (in a register of its own when the caller wants nothing),
        // then the Debug instruction on that register with the expression's text
        r matches Ok(out) ==> ({
            let t = final(self).g@.trace; let n = old(self).g@.trace.len() as int;
            t.len() == n + 3 && prefix(old(self).g@.trace, t)
                && t[n].is_node(*expression, if ctx.result_register is None { ResultRegister::Any } else { ctx.result_register })
                && t[n + 1].is_spanned_op(Op::Debug, seq![t[n].reg()], Some(old(self).g@.spans.last())) && t[n + 2].is_var(expression_string.0) }),   // @expression_then_the_debug_instruction
        // C01, the result-register protocol: the caller is told about a temporary exactly when it asked for Any, and
        // every other register taken on the way is released
        r matches Ok(out) ==> final(self).g@.regs == old(self).g@.regs + (if out.is_temporary { 1int } else { 0 }),                       // @temporaries_released
        r matches Ok(out) ==> (out.is_temporary ==> ctx.result_register is Any),
        r matches Ok(out) ==> (ctx.result_register is None ==> out.register is None),                                                     // @result_request_is_honoured
        r is Ok ==> Self::frame_post(old(self), final(self), old(self).len()),                                                           // @earlier_code_and_enclosing_loops_untouched
"""),
        # small integer literals
        Fn(F, "impl Compiler :: fn compile_node", props=("C01", "C06"), rename="compile_node__small_int_arm",
           fragment=dict(start="if let Some(result) = result.register {\n                    match *n {", to_block_end=True, prologue="use Op::*;",
                         sig="fn compile_node(&mut self, n: &i16, result: CompileNodeOutput) -> CompileNodeOutput"),
           subst=[("n.unsigned_abs() as u8", "i16_unsigned_abs(n) as u8", 1)],
           spec=r"""
    requires old(self).g@.spans.len() > 0,
        // ASSUMED: the parser stores a literal as a SmallInt only when its magnitude fits a byte (parser.rs: `u8::try_from(n).is_ok()`)
        -255 <= *n <= 255,
    ensures
        r == result, final(self).same_frame_state(old(self)), final(self).g@.patched == old(self).g@.patched,
        // C01: the literal's value: 0 and 1 have instructions of their own, other magnitudes travel as one byte with the
        // sign in the instruction
        result.register matches Some(x) ==> final(self).g@.trace.len() == old(self).g@.trace.len() + 1 && prefix(old(self).g@.trace, final(self).g@.trace)
            && final(self).g@.trace.last().is_op(if *n == 0 { Op::Set0 } else if *n == 1 { Op::Set1 } else if *n > 0 { Op::SetNumberU8 } else { Op::SetNumberNegU8 },
                    if *n == 0 || *n == 1 { seq![x] } else if *n > 0 { seq![x, *n as u8] } else { seq![x, (-(*n as int)) as u8] }),          // @literal_value_in_one_instruction
        result.register is None ==> final(self).g@.trace == old(self).g@.trace,                                                           // @nothing_without_a_result_register
"""),
        # throw
        Fn(F, "impl Compiler :: fn compile_node", props=("C04", "C01", "C12", "C06"), rename="compile_node__throw_arm",
           fragment=dict(start="// A throw will prevent the result from being used, but the caller should be", to_block_end=True, prologue="use Op::*;", wrap=("Ok({", "})"),
                         sig="fn compile_node(&mut self, expression: &AstIndex, ctx: CompileNodeContext) -> Result<CompileNodeOutput>"),
           spec=r"""
    requires old(self).g@.spans.len() > 0,
    ensures
        // C04: the thrown value is evaluated into a register of its own, then thrown (under the throw expression's span)
        r matches Ok(out) ==> ({
            let t = final(self).g@.trace; let n = old(self).g@.trace.len() as int;
            t.len() == n + 2 && prefix(old(self).g@.trace, t) && t[n].is_node(*expression, ResultRegister::Any)
                && t[n + 1].is_spanned_op(Op::Throw, seq![t[n].reg()], Some(old(self).g@.spans.last())) }),                                // @value_then_throw
        r matches Ok(out) ==> final(self).g@.regs == old(self).g@.regs + (if out.is_temporary { 1int } else { 0 }),                       // @temporaries_released
        r is Ok ==> Self::frame_post(old(self), final(self), old(self).len()),
        r matches Ok(out) ==> (ctx.result_register matches ResultRegister::Fixed(x) ==> out.register == Some(x) && !out.is_temporary),
        r matches Ok(out) ==> (ctx.result_register is Any ==> out.register is Some && out.is_temporary),
        r matches Ok(out) ==> (ctx.result_register is None ==> out.register is None),                                                     // @result_request_is_honoured
"""),
    ],
    epilogue=r"""
// ---- vacuity guard: MUST FAIL
proof fn canary_codegen(c: Compiler, d: Compiler, node: AstIndex, ctx: CompileNodeContext, out: CompileNodeOutput) requires Compiler::node_post(&c, &d, node, ctx, out, c.len(), c.g@.trace), out.is_temporary ensures false {}
""",
    canaries=("canary_codegen",),
)
