"""V-truthy: truthiness of values in the VM (crates/runtime/src/vm.rs run_not, run_jump_if_true,
run_jump_if_false, run_jump_if_null, jump_ip, jump_ip_back) over the REAL KValue enum declaration.

Contracts only. Function bodies come from /repo at run time.
"""
from engine.unit import Fn, Raw, Type, Unit

VM = "crates/runtime/src/vm.rs"
VAL = "crates/runtime/src/types/value.rs"
P = ("C01", "C06")

PRELUDE = r"""
global size_of usize == 8;   // assumption: 64-bit target
// ---- shims (assumptions): the payload types of KValue are opaque
#[verifier::external_body] struct KNumber { _p: u8 }
#[verifier::external_body] struct KRange { _p: u8 }
#[verifier::external_body] struct KList { _p: u8 }
#[verifier::external_body] struct KTuple { _p: u8 }
#[verifier::external_body] struct KMap { _p: u8 }
#[verifier::external_body] struct KString { _p: u8 }
#[verifier::external_body] struct KFunction { _p: u8 }
#[verifier::external_body] struct KNativeFunction { _p: u8 }
#[verifier::external_body] struct KIterator { _p: u8 }
#[verifier::external_body] struct KObject { _p: u8 }
#[verifier::external_body] struct RegisterSlice { _p: u8 }
#[verifier::external_body] struct Error { _p: u8 }
type Result<T> = core::result::Result<T, Error>;
struct Reader { ip: usize }
struct KotoVm { reader: Reader, regs: Ghost<Seq<KValue>> }
"""

SPECS = r"""
    // ghost: the value in register r of the current frame
    uninterp spec fn reg(&self, r: u8) -> KValue;
    // the last value written by set_register
    uninterp spec fn written(&self) -> (u8, KValue);

    // assumed: reads a register of the current frame (bounds: bytecode well-formedness, C05)
    #[verifier::external_body]
    fn get_register(&self, register: u8) -> (r: &KValue) ensures *r == self.reg(register) { unimplemented!() }
    #[verifier::external_body]
    fn set_register(&mut self, register: u8, value: KValue)
        ensures final(self).written() == (register, value), final(self).reader == old(self).reader,
    { unimplemented!() }

    // C01: "null / false as the only falsy values", stated over every variant of the real enum
    spec fn falsy(v: KValue) -> bool { v is Null || v == KValue::Bool(false) }
"""

UNIT = Unit(
    name="V-truthy",
    prelude=PRELUDE,
    items=[
        # the real declaration: a new variant added to KValue shows up here and is covered by `falsy`
        Type(VAL, "enum KValue"),
        Raw(r"""
// `result_bool.into()` (impl From<bool> for KValue, value.rs): rule R5
#[verifier::external_body]
fn bool_into_value(b: bool) -> (r: KValue) ensures r == KValue::Bool(b) { unimplemented!() }
"""),
        Raw(SPECS, impl_of="impl KotoVm"),
        Fn(VM, "impl KotoVm :: fn jump_ip", props=P, spec=r"""
    requires old(self).reader.ip + offset <= usize::MAX,
    ensures final(self).reader.ip == old(self).reader.ip + offset, final(self).regs == old(self).regs,    // @jumps_forward_by_offset
"""),
        Fn(VM, "impl KotoVm :: fn jump_ip_back", props=P, spec=r"""
    requires old(self).reader.ip >= offset,
    ensures final(self).reader.ip == old(self).reader.ip - offset, final(self).regs == old(self).regs,    // @jumps_back_by_offset
"""),
        Fn(VM, "impl KotoVm :: fn run_not", props=P, subst=[("result_bool.into()", "bool_into_value(result_bool)", 1)], spec=r"""
    ensures
        r is Ok,
        final(self).written() == (result, KValue::Bool(Self::falsy(old(self).reg(value)))),              // @not_is_true_exactly_for_null_and_false
        final(self).reader == old(self).reader,
"""),
        Fn(VM, "impl KotoVm :: fn run_jump_if_true", props=P, spec=r"""
    requires old(self).reader.ip + offset <= usize::MAX,
    ensures
        r is Ok,
        final(self).reader.ip == (if Self::falsy(old(self).reg(register)) { old(self).reader.ip as int } else { old(self).reader.ip + offset }),   // @jumps_exactly_for_truthy_values
"""),
        # rule R10: `KValue::Bool(b) if !b => self.jump_ip(offset), _ => {}` is desugared to an if/else
        # inside the arm (Verus loses the state after a guarded arm that mutates self, DESIGN 11.1)
        Fn(VM, "impl KotoVm :: fn run_jump_if_false", props=P, final_guards=1, spec=r"""
    requires old(self).reader.ip + offset <= usize::MAX,
    ensures
        r is Ok,
        final(self).reader.ip == (if Self::falsy(old(self).reg(register)) { old(self).reader.ip + offset } else { old(self).reader.ip as int }),   // @jumps_exactly_for_null_and_false
"""),
        Fn(VM, "impl KotoVm :: fn run_jump_if_null", props=P, spec=r"""
    requires old(self).reader.ip + offset <= usize::MAX,
    ensures
        r is Ok,
        final(self).reader.ip == (if old(self).reg(register) is Null { old(self).reader.ip + offset } else { old(self).reader.ip as int }),   // @jumps_exactly_for_null
"""),
    ],
    epilogue=r"""
// ---- vacuity guard: MUST FAIL
proof fn canary_truthy(v: KValue) requires !KotoVm::falsy(v) ensures false {}
""",
    canaries=("canary_truthy",),
)
