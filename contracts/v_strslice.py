"""V-strslice: bounds bookkeeping of StringSlice (crates/parser/src/string_slice.rs) and TupleSlice
(crates/runtime/src/types/tuple.rs), unbounded in the data length, over an axiomatised
`str::get` / `is_char_boundary` (their real implementations are executed by the Kani twin K-strslice).

Contracts only. Function bodies come from /repo at run time.
"""
from engine.unit import Fn, Raw, Type, Unit

F = "crates/parser/src/string_slice.rs"
T = "crates/runtime/src/types/tuple.rs"
P = ("C15", "C14", "C06")

PRELUDE = r"""
global size_of usize == 8;   // assumption: 64-bit target
use core::ops::Range;

// ---- shims (assumptions): the shared string buffer. `boundary(i)` is std's
// str::is_char_boundary (true at 0 and at len, false beyond len); `get(a..b)` is Some exactly when
// a <= b <= len and both are character boundaries (std documentation)
#[verifier::external_body]
struct StrData { _p: u8 }
impl StrData {
    uninterp spec fn len(&self) -> int;
    uninterp spec fn boundary(&self, i: int) -> bool;
    spec fn valid_range(&self, a: int, b: int) -> bool { 0 <= a <= b <= self.len() && self.boundary(a) && self.boundary(b) }

    #[verifier::external_body]
    fn get_is_some(&self, r: Range<usize>) -> (b: bool)
        ensures b == self.valid_range(r.start as int, r.end as int)
    { unimplemented!() }

    #[verifier::external_body]
    fn is_char_boundary(&self, i: usize) -> (b: bool)
        ensures b == (0 <= i <= self.len() && self.boundary(i as int))
    { unimplemented!() }

    #[verifier::external_body]
    fn clone(&self) -> (r: Self) ensures r == *self { unimplemented!() }
}

// the shared tuple buffer: `get(a..b)` on a slice is Some exactly when a <= b <= len (std)
#[verifier::external_body]
struct TupleData { _p: u8 }
impl TupleData {
    uninterp spec fn len(&self) -> int;
    #[verifier::external_body]
    fn get_is_some(&self, r: Range<usize>) -> (b: bool) ensures b == (r.start <= r.end && r.end <= self.len()) { unimplemented!() }
    #[verifier::external_body]
    fn clone(&self) -> (r: Self) ensures r == *self { unimplemented!() }
}
struct TupleSlice { data: TupleData, bounds: Range<usize> }

// StringSlice<usize> (the u16 variant only differs in the width of its bounds)
struct StringSlice { data: StrData, bounds: Range<usize>, _niche: bool }

"""

KSTRING_PRELUDE = r"""
// ---- KString (crates/parser/src/string.rs): three representations of the same thing. The 16-bit and
// the boxed slice are both the StringSlice shim above (Ptr deref and bound width elided)
enum Inner { Full(StrData), Slice(StringSlice), SliceLarge(StringSlice) }
struct KString(Inner);
impl StringSlice {
    // assumed contract of StringSlice::new (checked on the real code by K-strslice::strslice_new_validates)
    #[verifier::external_body]
    fn new(string: StrData, bounds: Range<usize>) -> (r: Option<StringSlice>)
        ensures (r is Some) == string.valid_range(bounds.start as int, bounds.end as int),
                r matches Some(sl) ==> sl.data == string && sl.bounds.start == bounds.start && sl.bounds.end == bounds.end,
    { unimplemented!() }
    // assumed: try_convert only narrows the bound type (K-strslice::strslice_u16_conversion)
    #[verifier::external_body]
    fn try_convert(&self) -> (r: Option<StringSlice>) ensures r matches Some(sl) ==> sl == *self { unimplemented!() }
}
"""

SPECS = r"""
    // C15 type invariant: what the unchecked `as_str()` relies on
    spec fn valid(&self) -> bool { self.data.valid_range(self.bounds.start as int, self.bounds.end as int) }
    // the child reads a part of the parent (C14: never reaches outside its parent)
    spec fn inside(&self, parent: &StringSlice) -> bool {
        &&& self.data == parent.data
        &&& parent.bounds.start <= self.bounds.start <= self.bounds.end <= parent.bounds.end
    }
"""

UNIT = Unit(
    name="V-strslice",
    prelude=PRELUDE + KSTRING_PRELUDE,
    items=[
        Raw(SPECS, impl_of="impl StringSlice"),
        Fn(F, "impl<T> StringSlice<T> :: fn with_bounds", props=P, impl_as="impl StringSlice",
           subst=[
               ("self.bounds.start.to_usize()", "self.bounds.start", 1),
               ("self.bounds.end.to_usize()", "self.bounds.end", 1),
               ("self.data.get(new_bounds.clone()).is_some()", "self.data.get_is_some(new_bounds.start..new_bounds.end)", None),
               # T = usize: try_from_range is the identity (its closure builds the struct)
               ("""            try_from_range(&new_bounds).map(|bounds| Self {
                data: self.data.clone(),
                bounds,
                _niche: false,
            })""", """            Some(Self {
                data: self.data.clone(),
                bounds: new_bounds,
                _niche: false,
            })""", 1),
           ],
           spec=r"""
    requires self.valid(),
    ensures
        // Some exactly when the requested bounds select valid UTF-8 INSIDE THIS SLICE
        (r is Some) == (bounds.start <= bounds.end && self.bounds.start + bounds.end <= self.bounds.end
                        && self.data.boundary(self.bounds.start + bounds.start) && self.data.boundary(self.bounds.start + bounds.end)),   // @some_iff_valid_inside_parent
        r matches Some(child) ==> child.valid(),                                                          // @child_is_valid_text
        r matches Some(child) ==> child.inside(self),                                                     // @child_inside_parent
        r matches Some(child) ==> child.bounds.start == self.bounds.start + bounds.start && child.bounds.end == self.bounds.start + bounds.end,   // @bounds_are_relative_to_parent
"""),
        Fn(F, "impl<T> StringSlice<T> :: fn split", props=P, impl_as="impl StringSlice",
           subst=[
               ("self.bounds.start.to_usize()", "self.bounds.start", 1),
               ("self.bounds.end.to_usize()", "self.bounds.end", 1),
               ("if let Ok(split_point_t) = T::try_from(split_point) {", "if let Ok::<usize, ()>(split_point_t) = Ok(split_point) {", 1),
           ],
           spec=r"""
    requires self.valid(),
    ensures
        // Some exactly when the offset is a character boundary INSIDE THIS SLICE
        (r is Some) == (self.bounds.start + offset <= self.bounds.end && self.data.boundary(self.bounds.start + offset)),   // @some_iff_boundary_inside_parent
        r matches Some(parts) ==> parts.0.valid() && parts.1.valid(),                                      // @parts_are_valid_text
        r matches Some(parts) ==> parts.0.inside(self) && parts.1.inside(self),                            // @parts_inside_parent
        r matches Some(parts) ==> parts.0.bounds.start == self.bounds.start && parts.0.bounds.end == self.bounds.start + offset
                                  && parts.1.bounds.start == self.bounds.start + offset && parts.1.bounds.end == self.bounds.end,   // @parts_meet_at_offset
"""),

        Raw(r"""
    spec fn valid(&self) -> bool { self.bounds.start <= self.bounds.end && self.bounds.end <= self.data.len() }
""", impl_of="impl TupleSlice"),
        Fn(T, "impl TupleSlice :: fn with_bounds", props=("C14", "C06"),
           subst=[("self.data.get(new_bounds.clone()).is_some()", "self.data.get_is_some(new_bounds.start..new_bounds.end)", 1)],
           spec=r"""
    requires self.valid(),
    ensures
        // C14: a sub-tuple is always a subset of the tuple it was made from
        (r is Some) == (bounds.start <= bounds.end && self.bounds.start + bounds.end <= self.bounds.end),   // @some_iff_inside_parent
        r matches Some(child) ==> child.valid() && child.data == self.data,                               // @child_is_valid
        r matches Some(child) ==> self.bounds.start <= child.bounds.start && child.bounds.end <= self.bounds.end,   // @child_inside_parent
        r matches Some(child) ==> child.bounds.start == self.bounds.start + bounds.start && child.bounds.end == self.bounds.start + bounds.end,   // @bounds_are_relative_to_parent
"""),

        # ------------------------------------------------------------------ KString
        Raw(r"""
    // the text a KString reads: (buffer, start, end)
    spec fn lo(&self) -> int { match self.0 { Inner::Full(_) => 0, Inner::Slice(sl) => sl.bounds.start as int, Inner::SliceLarge(sl) => sl.bounds.start as int } }
    spec fn hi(&self) -> int { match self.0 { Inner::Full(d) => d.len(), Inner::Slice(sl) => sl.bounds.end as int, Inner::SliceLarge(sl) => sl.bounds.end as int } }
    spec fn data(&self) -> StrData { match self.0 { Inner::Full(d) => d, Inner::Slice(sl) => sl.data, Inner::SliceLarge(sl) => sl.data } }
    spec fn valid(&self) -> bool { match self.0 { Inner::Full(d) => d.len() >= 0 && d.boundary(0) && d.boundary(d.len()), Inner::Slice(sl) => sl.valid(), Inner::SliceLarge(sl) => sl.valid() } }
""", impl_of="impl KString"),
        Fn("crates/parser/src/string.rs", "impl From<StringSlice<usize>> for KString :: fn from", props=P, impl_as="impl KString", rename="from_slice",
           subst=[("slice: StringSlice<usize>", "slice: StringSlice", 1), ("slice.into()", "slice", 1)],
           spec=r"""
    ensures r.lo() == slice.bounds.start && r.hi() == slice.bounds.end && r.data() == slice.data,   // @same_text_in_either_representation
            slice.valid() ==> r.valid(),
"""),
        Fn("crates/parser/src/string.rs", "impl KString :: fn with_bounds", props=P,
           subst=[("StringSlice::<usize>::new", "StringSlice::new", 1), (".map(Self::from)", ".map(KString::from_slice)", 3)],
           spec=r"""
    requires self.valid(),
    ensures
        // C15: for every representation (runtime-built Full strings included, the F2 path), Some exactly
        // when the bounds select valid UTF-8 INSIDE THIS STRING, and then exactly that text
        (r is Some) == (new_bounds.start <= new_bounds.end && self.lo() + new_bounds.end <= self.hi()
                        && self.data().boundary(self.lo() + new_bounds.start) && self.data().boundary(self.lo() + new_bounds.end)),   // @some_iff_valid_inside_this_string
        r matches Some(sub) ==> sub.valid() && sub.data() == self.data()
                        && sub.lo() == self.lo() + new_bounds.start && sub.hi() == self.lo() + new_bounds.end,   // @reads_exactly_the_selected_text
"""),
    ],
    epilogue=r"""
// ---- vacuity guard: MUST FAIL
proof fn canary_strslice(s: StringSlice) requires s.valid(), s.bounds.end > s.bounds.start ensures false {}
""",
    canaries=("canary_strslice",),
)
