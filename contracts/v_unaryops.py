"""V-unaryops: negation, size and `.`-assignment (crates/runtime/src/vm.rs run_negate, run_size,
run_access_assign) over the REAL KValue enum declaration: C17's "negation ... access-assign ... size
... invokes the corresponding metakey function with the documented operands", and what these operations
do for the built-in kinds (C01).

Contracts only. Function bodies come from /repo at run time.
"""
from engine.unit import Fn, Raw, Type, Unit

F = "crates/runtime/src/vm.rs"
M = "crates/runtime/src/types/meta_map.rs"
VAL = "crates/runtime/src/types/value.rs"
P = ("C17", "C01", "C06")

PRELUDE = r"""
global size_of usize == 8;   // assumption: 64-bit target
// ---- shims (assumptions): the payload types of KValue
#[verifier::external_body] pub struct KNumber { _p: u8 }
#[verifier::external_body] pub struct KRange { _p: u8 }
#[verifier::external_body] pub struct KList { _p: u8 }
#[verifier::external_body] pub struct KTuple { _p: u8 }
#[verifier::external_body] pub struct KMap { _p: u8 }
#[verifier::external_body] pub struct KString { _p: u8 }
#[verifier::external_body] pub struct KFunction { _p: u8 }
#[verifier::external_body] pub struct KNativeFunction { _p: u8 }
#[verifier::external_body] pub struct KIterator { _p: u8 }
#[verifier::external_body] pub struct KObject { _p: u8 }
#[verifier::external_body] pub struct ObjectRef { _p: u8 }
#[verifier::external_body] pub struct ObjectRefMut { _p: u8 }
pub struct RegisterSlice { pub start: usize, pub count: usize }
#[verifier::external_body] pub struct ValueKey { _p: u8 }
#[verifier::external_body] pub struct Error { _p: u8 }
pub type Result<T> = core::result::Result<T, Error>;
impl Clone for KMap { #[verifier::external_body] fn clone(&self) -> (r: Self) ensures r == *self { unimplemented!() } }

pub enum MetaKey { UnaryOp(UnaryOp), WriteOp(WriteOp), Other(u8) }
// `UnaryOp::X.into()` / `WriteOp::X.into()` (impl From<..> for MetaKey), rule R5
fn unary_key(op: UnaryOp) -> (r: MetaKey) ensures r == MetaKey::UnaryOp(op) { MetaKey::UnaryOp(op) }
fn write_key(op: WriteOp) -> (r: MetaKey) ensures r == MetaKey::WriteOp(op) { MetaKey::WriteOp(op) }
#[verifier::external_body] pub struct MapDataMut { _p: u8 }
impl MapDataMut {
    pub uninterp spec fn of(&self) -> KMap;
    // IndexMap::insert through the RefCell guard: logged (which map, key, value)
    #[verifier::external_body]
    fn insert(&mut self, k: ValueKey, v: KValue) ensures final(self).of() == old(self).of(), map_written(old(self).of(), k, v) { unimplemented!() }
}
// "this (key, value) was written into that map" - a fact that only MapDataMut::insert establishes
pub uninterp spec fn map_written(m: KMap, k: ValueKey, v: KValue) -> bool;
impl KMap {
    pub uninterp spec fn meta(&self) -> Map<MetaKey, KValue>;
    pub uninterp spec fn slen(&self) -> nat;
    #[verifier::external_body]
    fn contains_meta_key(&self, k: &MetaKey) -> (r: bool) ensures r == self.meta().contains_key(*k) { unimplemented!() }
    #[verifier::external_body]
    fn get_meta_value(&self, k: &MetaKey) -> (r: Option<KValue>)
        ensures r == (if self.meta().contains_key(*k) { Some(self.meta()[*k]) } else { None }) { unimplemented!() }
    #[verifier::external_body] fn len(&self) -> (r: usize) ensures r == self.slen() { unimplemented!() }
    #[verifier::external_body] fn data_mut(&self) -> (r: MapDataMut) ensures r.of() == *self { unimplemented!() }
}
impl KList { pub uninterp spec fn slen(&self) -> nat; #[verifier::external_body] fn len(&self) -> (r: usize) ensures r == self.slen() { unimplemented!() } }
impl KTuple { pub uninterp spec fn slen(&self) -> nat; #[verifier::external_body] fn len(&self) -> (r: usize) ensures r == self.slen() { unimplemented!() } }
impl KString { pub uninterp spec fn slen(&self) -> nat; #[verifier::external_body] fn len(&self) -> (r: usize) ensures r == self.slen() { unimplemented!() } }
// KRange::size: PROVED in V-range
impl KRange { pub uninterp spec fn ssize(&self) -> Option<usize>; #[verifier::external_body] fn size(&self) -> (r: Option<usize>) ensures r == self.ssize() { unimplemented!() } }
impl KObject {
    #[verifier::external_body] fn try_borrow(&self) -> Result<ObjectRef> { unimplemented!() }
    #[verifier::external_body] fn try_borrow_mut(&self) -> Result<ObjectRefMut> { unimplemented!() }
}
impl ObjectRef {
    #[verifier::external_body] fn negate(&self) -> Result<KValue> { unimplemented!() }
    #[verifier::external_body] fn size(&self) -> Option<usize> { unimplemented!() }
}
impl ObjectRefMut { #[verifier::external_body] fn access_assign(&mut self, key: &KString, value: &KValue) -> Result<()> { unimplemented!() } }
// `-n` (impl Neg for KNumber: K-number's territory), `size.into()` (usize -> KValue), rule R5
pub uninterp spec fn neg_of(n: KNumber) -> KNumber;
pub uninterp spec fn number_of(n: usize) -> KNumber;
#[verifier::external_body] fn number_neg(n: KNumber) -> (r: KNumber) ensures r == neg_of(n) { unimplemented!() }
pub uninterp spec fn key_of(v: KValue) -> Option<ValueKey>;
impl ValueKey {
    #[verifier::external_body]
    fn try_from_value(v: KValue) -> (r: Result<ValueKey>) ensures r matches Ok(k) ==> key_of(v) == Some(k), r is Err ==> key_of(v) is None { unimplemented!() }
}
pub enum Pending { None, Op1 { result: Option<u8>, value_register: u8, op: KValue }, Op3 { result: Option<u8>, instance: KValue, a: KValue, b: KValue, op: KValue } }
pub struct KotoVm { pub pending: Ghost<Pending> }
"""

AFTER_ENUM = r"""
impl Clone for KValue { #[verifier::external_body] fn clone(&self) -> (r: Self) ensures r == *self { unimplemented!() } }
fn usize_into_value(n: usize) -> (r: KValue) ensures r == KValue::Number(number_of(n)) { KValue::Number(number_of_exec(n)) }
#[verifier::external_body] fn number_of_exec(n: usize) -> (r: KNumber) ensures r == number_of(n) { unimplemented!() }
#[verifier::external_body] fn unexpected_type<T>(expected: &str, unexpected: &KValue) -> (r: Result<T>) ensures r is Err { unimplemented!() }
// the size of a value of a built-in kind (None: the kind has no size)
spec fn builtin_size(v: KValue) -> Option<usize> {
    match v {
        KValue::List(l) => Some(l.slen() as usize),
        KValue::Tuple(t) => Some(t.slen() as usize),
        KValue::Str(s) => Some(s.slen() as usize),
        KValue::Range(r) => r.ssize(),
        KValue::Map(m) => Some(m.slen() as usize),
        KValue::TemporaryTuple(rs) => Some(rs.count),
        _ => None,
    }
}
"""

VM_SPECS = r"""
    pub uninterp spec fn reg(&self, r: u8) -> KValue;
    #[verifier::external_body] fn get_register(&self, r: u8) -> (v: &KValue) ensures *v == self.reg(r) { unimplemented!() }
    #[verifier::external_body] fn clone_register(&self, r: u8) -> (v: KValue) ensures v == self.reg(r) { unimplemented!() }
    #[verifier::external_body]
    fn set_register(&mut self, r: u8, v: KValue) ensures final(self).reg(r) == v, final(self).pending == old(self).pending { unimplemented!() }
    // assumed: set up the call `op(value in that register)` / `op(instance, a, b)`; logged
    #[verifier::external_body]
    fn call_overridden_op_1(&mut self, result: Option<u8>, value_register: u8, op: KValue) -> (r: Result<()>)
        ensures r is Ok ==> final(self).pending@ == (Pending::Op1 { result, value_register, op }) { unimplemented!() }
    #[verifier::external_body]
    fn call_overridden_op_3(&mut self, result: Option<u8>, instance: KValue, a: KValue, b: KValue, op: KValue) -> (r: Result<()>)
        ensures r is Ok ==> final(self).pending@ == (Pending::Op3 { result, instance, a, b, op }) { unimplemented!() }
"""

KEYS = [(r"&?(UnaryOp::)?(Negate|Size)\.into\(\)", None)]

UNIT = Unit(
    name="V-unaryops",
    prelude=PRELUDE,
    items=[
        Type(M, "enum UnaryOp", derive="PartialEq, Eq, Clone, Copy"),
        Type(M, "enum WriteOp", derive="PartialEq, Eq, Clone, Copy"),
        Type(VAL, "enum KValue"),
        Raw(AFTER_ENUM),
        Raw(VM_SPECS, impl_of="impl KotoVm"),
        Fn(F, "impl KotoVm :: fn run_negate", props=P,
           subst=[(r"&Negate\.into\(\)", "&unary_key(Negate)", None, "re"), ("Number(-n)", "Number(number_neg(n))", None)],
           spec=r"""
    ensures
        // C17: a map with @negate: that function is called on the value, its result goes to `result`
        old(self).reg(value) matches KValue::Map(m) ==> (m.meta().contains_key(MetaKey::UnaryOp(UnaryOp::Negate)) && r is Ok ==>
            final(self).pending@ == (Pending::Op1 { result: Some(result), value_register: value, op: m.meta()[MetaKey::UnaryOp(UnaryOp::Negate)] })),   // @metakey_function_called_on_the_value
        old(self).reg(value) matches KValue::Number(n) ==> r is Ok && final(self).reg(result) == KValue::Number(neg_of(n)),   // @numbers_are_negated
        // anything else that is not a host object cannot be negated
        !(old(self).reg(value) is Number) && !(old(self).reg(value) is Object)
            && !(old(self).reg(value) matches KValue::Map(m) && m.meta().contains_key(MetaKey::UnaryOp(UnaryOp::Negate))) ==> r is Err,   // @not_negatable_is_an_error
"""),
        Fn(F, "impl KotoVm :: fn run_size", props=P,
           subst=[("UnaryOp::Size.into()", "unary_key(UnaryOp::Size)", None), ("size.into()", "usize_into_value(size)", None)],
           spec=r"""
    ensures
        // C17: a map with @size: that function is called on the value
        old(self).reg(value_register) matches KValue::Map(m) ==> (m.meta().contains_key(MetaKey::UnaryOp(UnaryOp::Size)) && r is Ok ==>
            final(self).pending@ == (Pending::Op1 { result: Some(result_register), value_register, op: m.meta()[MetaKey::UnaryOp(UnaryOp::Size)] })),   // @metakey_function_called_on_the_value
        // built-in kinds: the number of elements / bytes / entries
        !(old(self).reg(value_register) is Object) && !(old(self).reg(value_register) matches KValue::Map(m) && m.meta().contains_key(MetaKey::UnaryOp(UnaryOp::Size))) ==>
            (builtin_size(old(self).reg(value_register)) matches Some(n) ==> r is Ok && final(self).reg(result_register) == KValue::Number(number_of(n))),   // @builtin_size
        // no size: an error, or null when the caller asked for that
        !(old(self).reg(value_register) is Object) && !(old(self).reg(value_register) matches KValue::Map(m) && m.meta().contains_key(MetaKey::UnaryOp(UnaryOp::Size))) ==>
            (builtin_size(old(self).reg(value_register)) is None ==>
                (if throw_if_value_has_no_size { r is Err } else { r is Ok && final(self).reg(result_register) is Null })),                        // @no_size_is_an_error_or_null
"""),
        Fn(F, "impl KotoVm :: fn run_access_assign", props=P,
           subst=[(r"&WriteOp::AccessAssign\.into\(\)", "&write_key(WriteOp::AccessAssign)", None, "re"),
                  ("map.clone().into()", "KValue::Map(map.clone())", None),
                  ("ValueKey::try_from(key.clone())?", "ValueKey::try_from_value(key.clone())?", None)],
           spec=r"""
    ensures
        // C17: a map with @access_assign: that function is called with (map, key, value)
        old(self).reg(map_register) matches KValue::Map(m) ==> (m.meta().contains_key(MetaKey::WriteOp(WriteOp::AccessAssign)) && r is Ok ==>
            final(self).pending@ == (Pending::Op3 { result: None, instance: old(self).reg(map_register), a: old(self).reg(key_register), b: old(self).reg(value_register),
                                                    op: m.meta()[MetaKey::WriteOp(WriteOp::AccessAssign)] })),                                 // @metakey_function_called_with_map_key_value
        // a plain map: (key, value) is written into THAT map; an unhashable key is an error
        old(self).reg(map_register) matches KValue::Map(m) ==> (!m.meta().contains_key(MetaKey::WriteOp(WriteOp::AccessAssign)) ==>
            (key_of(old(self).reg(key_register)) matches Some(k) ==> r is Ok && map_written(m, k, old(self).reg(value_register)))),           // @entry_written_into_the_map
        old(self).reg(map_register) matches KValue::Map(m) ==> (!m.meta().contains_key(MetaKey::WriteOp(WriteOp::AccessAssign)) ==>
            (key_of(old(self).reg(key_register)) is None ==> r is Err)),                                                                      // @unhashable_key_is_an_error
        !(old(self).reg(map_register) is Map) && !(old(self).reg(map_register) is Object) ==> r is Err,                                       // @not_assignable_is_an_error
"""),
    ],
    epilogue=r"""
// ---- vacuity guard: MUST FAIL
proof fn canary_unaryops(vm: KotoVm, r: u8, m: KMap) requires vm.reg(r) == KValue::Map(m), m.meta().contains_key(MetaKey::UnaryOp(UnaryOp::Size)) ensures false {}
""",
    canaries=("canary_unaryops",),
)
