"""V-dispatch: the interpreter's dispatch function (crates/runtime/src/vm.rs execute_instruction, all ~90
arms, over the REAL `enum Instruction` declaration of crates/bytecode/src/instruction.rs).

V-vmproto ASSUMES one thing about execute_instruction: `step_post` (the frames below the innermost
execution barrier are untouched, a Return that reaches the barrier pops exactly it, the barrier frame
keeps its register base, the execution state is not changed). This unit PROVES that contract for the real
function, from the assumed contracts of the instruction handlers it dispatches to (`op_post`: a handler
works on registers of the current window and may push ONE frame for a call) and from the real text of
the arms that are implemented inline (NewFrame, Copy, Set*, Load*, MakeTempTuple, Sequence/String
start, SequencePushN, Jump*, Call*, Return, Yield, Throw, TryStart, TryEnd, Access*String ..).

It shares V-vmproto's prelude, type declarations and spec functions (imported, not copied).
Assumed here and NOT in V-vmproto's stub: the registers a frame announced exist when one of its
instructions runs (NewFrame is the first instruction of every frame: bytecode well-formedness, C05),
and `start + count <= 255` for SequencePushN.

Contracts only. Function bodies come from /repo at run time.
"""
import re

from engine.unit import Fn, Raw, Type, Unit
from contracts import v_vmproto as vp

F = "crates/runtime/src/vm.rs"
I = "crates/bytecode/src/instruction.rs"
P = ("C04", "C07", "C08", "C06")

PRELUDE = vp.PRELUDE.replace("#[verifier::external_body]\nstruct Instruction { _p: u8 }", "").replace("struct Instruction { _p: u8 }", "")
assert "struct Instruction {" not in PRELUDE
PRELUDE = PRELUDE.replace("enum KValue { Null, Bool(bool), Str(KString), Map(KMap), Other(Opaque) }",
                          "struct RegisterSlice { start: usize, count: usize }\nenum KValue { Null, Bool(bool), Str(KString), Map(KMap), TemporaryTuple(RegisterSlice), Other(Opaque) }")
assert "TemporaryTuple(RegisterSlice)" in PRELUDE
PRELUDE += r"""
// ---- operand types of Instruction that the dispatch only passes on
#[verifier::external_body] #[derive(Clone, Copy)] struct ConstantIndex { _p: u8 }
#[verifier::external_body] struct MetaKeyId { _p: u8 }
#[verifier::external_body] struct StringFormatOptions { _p: u8 }
// conversions into KValue and constant-pool reads (value-only, rule R5)
#[verifier::external_body] fn bool_into_value(b: bool) -> KValue { unimplemented!() }
#[verifier::external_body] fn i64_into_value(i: i64) -> KValue { unimplemented!() }
#[verifier::external_body] fn string_into_value(s: KString) -> KValue { unimplemented!() }
#[verifier::external_body] fn new_map_value(size_hint: usize) -> KValue { unimplemented!() }
#[verifier::external_body] fn new_string_builder(size_hint: usize) -> String { unimplemented!() }
#[verifier::external_body] fn runtime_error_message<T>(message: String) -> (r: Result<T>) ensures r is Err { unimplemented!() }
#[verifier::external_body] fn error_from_koto_value(v: KValue) -> Error { unimplemented!() }
"""

# V-vmproto's spec block without its assumed execute_instruction (the real one is emitted below)
m = re.search(r"    #\[verifier::external_body\]\n    fn execute_instruction\(.*?\{ unimplemented!\(\) \}\n", vp.VM_SPECS, re.S)
assert m
VM_SPECS = vp.VM_SPECS[:m.start()] + vp.VM_SPECS[m.end():]
# `derived_step` is IMPLIED by op_post (lemma_op_post_gives_step_post, proved in the epilogue for all
# states); it is restated on the assumed handler contracts only so that the solver has it at every `?` exit
n_op = VM_SPECS.count("ensures Self::op_post(old(self), final(self), r is Ok)")
assert n_op > 20, n_op
VM_SPECS = VM_SPECS.replace("ensures Self::op_post(old(self), final(self), r is Ok)", "ensures Self::op_post(old(self), final(self), r is Ok), Self::derived_step(old(self), final(self))")
assert "ensures Self::call_post(old(self), final(self), r is Ok, info.frame_base)," in VM_SPECS
VM_SPECS = VM_SPECS.replace("ensures Self::call_post(old(self), final(self), r is Ok, info.frame_base),", "ensures Self::call_post(old(self), final(self), r is Ok, info.frame_base), Self::derived_step(old(self), final(self)),   // (implied: lemma_call_post_gives_step_post)")
VM_SPECS += r"""
    spec fn derived_step(o: &KotoVm, f: &KotoVm) -> bool { o.wf() && Self::barrier_index(o.call_stack@) >= 0 ==> Self::step_post(o, f, false) }
"""


def handler(sig):
    return ("    #[verifier::external_body]\n    fn %s -> (r: Result<()>)\n"
            "        requires old(self).wf(), ensures Self::op_post(old(self), final(self), r is Ok), Self::derived_step(old(self), final(self))\n    { unimplemented!() }\n" % sig)


EXTRA = r"""
    // ---- handlers V-vmproto does not name: the same assumed contract as the others (op_post)
""" + "".join(handler(s) for s in [
    "run_assert_type(&self_placeholder, value_register: u8, type_index: ConstantIndex, allow_null: bool)",
]) .replace("", "")

HANDLERS = [
    "run_capture_value(&mut self, function: u8, capture_index: u8, value: u8)",
    "run_check_size_equal(&mut self, value_register: u8, expected_size: usize)",
    "run_check_size_min(&mut self, value_register: u8, expected_size: usize)",
    "run_check_type(&mut self, value_register: u8, jump_offset: u32, type_index: ConstantIndex, allow_null: bool)",
    "run_debug_instruction(&mut self, register: u8, expression_constant: ConstantIndex)",
    "run_export_entry(&mut self, entry_register: u8)",
    "run_export_value(&mut self, key_register: u8, value_register: u8)",
    "run_import(&mut self, import_register: u8, import_all: bool)",
    "run_jump_if_false(&mut self, register: u8, offset: u32)",
    "run_jump_if_null(&mut self, register: u8, offset: u32)",
    "run_jump_if_true(&mut self, register: u8, offset: u32)",
    "run_load_non_local(&mut self, register: u8, constant_index: ConstantIndex)",
    "run_make_function(&mut self, function_instruction: Instruction)",
    "run_make_range(&mut self, register: u8, start_register: Option<u8>, end_register: Option<u8>, inclusive: bool)",
    "run_meta_export(&mut self, value: u8, meta_id: MetaKeyId)",
    "run_meta_export_named(&mut self, meta_id: MetaKeyId, name_register: u8, value_register: u8)",
    "run_meta_insert(&mut self, map_register: u8, value: u8, meta_id: MetaKeyId)",
    "run_meta_insert_named(&mut self, map_register: u8, value_register: u8, meta_id: MetaKeyId, name_register: u8)",
    "run_not(&mut self, result: u8, value: u8)",
    "run_slice(&mut self, register: u8, value: u8, index: i8, is_slice_to: bool)",
    "run_string_push(&mut self, value_register: u8, format_options: &Option<StringFormatOptions>)",
    "run_temp_index(&mut self, result: u8, value: u8, index: i8)",
    "run_temp_tuple_to_tuple(&mut self, register: u8, source_register: u8)",
    "run_try_access(&mut self, result_register: u8, value_register: u8, key_string: KString, jump_offset: u32)",
]
EXTRA = r"""
    // ---- handlers V-vmproto does not name: the same assumed contract as the others (op_post)
""" + "".join(handler(s) for s in HANDLERS) + r"""
    // run_assert_type takes &self: nothing changes
    #[verifier::external_body]
    fn run_assert_type(&self, value_register: u8, type_index: ConstantIndex, allow_null: bool) -> Result<()> { unimplemented!() }
    // jumps move the instruction pointer and nothing else
    #[verifier::external_body]
    fn jump_ip(&mut self, offset: u32) ensures final(self).same_but_reader(old(self)), final(self).cur_chunk() == old(self).cur_chunk() { unimplemented!() }
    #[verifier::external_body]
    fn jump_ip_back(&mut self, offset: u32) ensures final(self).same_but_reader(old(self)), final(self).cur_chunk() == old(self).cur_chunk() { unimplemented!() }
    #[verifier::external_body]
    fn koto_string_from_constant(&self, constant_index: ConstantIndex) -> KString { unimplemented!() }
    // `self.reader.chunk.constants.get_f64(c).into()` / `get_i64(c).into()` (rule R5)
    #[verifier::external_body] fn constant_f64_value(&self, c: ConstantIndex) -> KValue { unimplemented!() }
    #[verifier::external_body] fn constant_i64_value(&self, c: ConstantIndex) -> KValue { unimplemented!() }
"""

KEEP_FNS = {"frame", "frame_mut", "pop_frame", "register_index", "run_sequence_push", "run_sequence_to_list", "run_sequence_to_tuple", "run_string_finish"}
items = []
for it in vp.UNIT.items:
    if isinstance(it, Type):
        items.append(it)
    elif isinstance(it, Raw):
        if it.text is vp.VM_SPECS or it.text == vp.VM_SPECS:
            items.append(Type(I, "enum Instruction"))
            items.append(Raw(VM_SPECS + EXTRA, impl_of=it.impl_of))
        else:
            items.append(it)
    elif isinstance(it, Fn) and it.name in KEEP_FNS and not it.fragment:
        items.append(it)

items.append(
    Fn(F, "impl KotoVm :: fn execute_instruction", props=P,
       subst=[
           ("runtime_error!(message)?", "runtime_error_message(message)?", None),
           (r"self\.set_register\(register, value\.into\(\)\),\n(\s*)SetNumber", r"self.set_register(register, bool_into_value(value)),\n\1SetNumber", None, "re"),
           (r"SetNumber \{ register, value \} => self\.set_register\(register, value\.into\(\)\)", "SetNumber { register, value } => self.set_register(register, i64_into_value(value))", None, "re"),
           (r"let n = self\.reader\.chunk\.constants\.get_f64\(constant\);\s*self\.set_register\(register, n\.into\(\)\);", "self.set_register(register, self.constant_f64_value(constant));", None, "re"),
           (r"let n = self\.reader\.chunk\.constants\.get_i64\(constant\);\s*self\.set_register\(register, n\.into\(\)\);", "self.set_register(register, self.constant_i64_value(constant));", None, "re"),
           ("self.set_register(register, string.into());", "self.set_register(register, string_into_value(string));", None),
           ("KMap::with_capacity(size_hint as usize).into()", "new_map_value(size_hint as usize)", None),
           ("String::with_capacity(size_hint as usize)", "new_string_builder(size_hint as usize)", None),
           ("for value_register in start..(start + count) {", "for value_register in it: start..(start + count) {", None),
           ("crate::Error::from_koto_value(self.clone_register(register))", "error_from_koto_value(self.clone_register(register))", None),
       ],
       after_open="proof { lemma_barrier_index(self.call_stack@); }",
       loops={1: """    invariant self.wf(), self.call_stack@ == old(self).call_stack@, self.register_base == old(self).register_base,
        self.min_frame_registers == old(self).min_frame_registers, self.execution_state == old(self).execution_state,
        self.registers@.len() == old(self).registers@.len(), control_flow is Continue,
        0 <= Self::barrier_index(old(self).call_stack@) < old(self).call_stack@.len(),"""},
       before=[("Ok(control_flow)", """proof {
    lemma_barrier_index(old(self).call_stack@); lemma_barrier_index(self.call_stack@);
    // arms that only touch bookkeeping fields of the executing frame (NewFrame, TryStart, TryEnd):
    // no barrier flag changed, so the innermost barrier is where it was
    if self.call_stack@.len() == old(self).call_stack@.len()
        && (forall|i: int| 0 <= i < old(self).call_stack@.len() ==> (#[trigger] self.call_stack@[i]).execution_barrier == old(self).call_stack@[i].execution_barrier) {
        lemma_barrier_index_same_flags(old(self).call_stack@, self.call_stack@);
    }
}""")],
       spec=r"""
    requires
        old(self).wf(),
        Self::barrier_index(old(self).call_stack@) >= 0,
        // ASSUMED (bytecode well-formedness, C05): NewFrame is the first instruction of every frame, so
        // the registers the frame announced exist; SequencePushN's operand range is a register range
        old(self).registers@.len() >= old(self).min_frame_registers,
        instruction matches Instruction::SequencePushN { start, count } ==> start + count <= 255,
        instruction matches Instruction::TryStart { arg_register, catch_offset } ==> old(self).ip_spec() + catch_offset <= u32::MAX,   // the catch block lies inside the chunk
        old(self).registers@.len() < 0x3000_0000_0000_0000,
    ensures
        // exactly what V-vmproto assumes about this function
        Self::step_post(old(self), final(self), r matches Ok(ControlFlow::Return(_))),                        // @step_post
        final(self).execution_state == old(self).execution_state,                                               // @execution_state_unchanged
"""))

UNIT = Unit(
    name="V-dispatch",
    prelude=PRELUDE,
    items=items,
    epilogue=vp.UNIT.epilogue + r"""
// ---- what V-dispatch restates on the handler stubs follows from their assumed contract
proof fn lemma_op_post_gives_step_post(o: &KotoVm, f: &KotoVm, ok: bool)
    requires o.wf(), KotoVm::barrier_index(o.call_stack@) >= 0, KotoVm::op_post(o, f, ok),
    ensures KotoVm::step_post(o, f, false),
{
    lemma_barrier_index(o.call_stack@);
    lemma_barrier_index(f.call_stack@);
    let b = KotoVm::barrier_index(o.call_stack@);
    let n = o.call_stack@.len() as int;
    // the frames up to the barrier are the same (the top one up to its scratch fields), any new frame
    // is no barrier: the innermost barrier is where it was
    lemma_barrier_index_stable(o.call_stack@, f.call_stack@);
}
proof fn lemma_call_post_gives_step_post(o: &KotoVm, f: &KotoVm, ok: bool, frame_base: u8)
    requires o.wf(), KotoVm::barrier_index(o.call_stack@) >= 0, KotoVm::call_post(o, f, ok, frame_base),
    ensures KotoVm::step_post(o, f, false),
{
    lemma_barrier_index(o.call_stack@);
    lemma_barrier_index(f.call_stack@);
    lemma_barrier_index_stable(o.call_stack@, f.call_stack@);
}
proof fn lemma_barrier_index_stable(s: Seq<Frame>, t: Seq<Frame>)
    requires
        s.len() > 0, t.len() >= s.len(), t.len() <= s.len() + 1,
        forall|i: int| 0 <= i < s.len() ==> (#[trigger] t[i]).execution_barrier == s[i].execution_barrier,
        t.len() == s.len() + 1 ==> !t.last().execution_barrier,
    ensures KotoVm::barrier_index(t) == KotoVm::barrier_index(s),
    decreases s.len()
{
    if t.len() == s.len() + 1 {
        assert(t.drop_last().len() == s.len());
        lemma_barrier_index_same_flags(s, t.drop_last());
    } else {
        lemma_barrier_index_same_flags(s, t);
    }
}
proof fn lemma_barrier_index_same_flags(s: Seq<Frame>, t: Seq<Frame>)
    requires s.len() == t.len(), forall|i: int| 0 <= i < s.len() ==> (#[trigger] t[i]).execution_barrier == s[i].execution_barrier,
    ensures KotoVm::barrier_index(t) == KotoVm::barrier_index(s),
    decreases s.len()
{
    if s.len() > 0 && !s.last().execution_barrier {
        lemma_barrier_index_same_flags(s.drop_last(), t.drop_last());
    }
}
""",
    canaries=vp.UNIT.canaries,
)
