"""V-cursors: source cursors of the built-in iterators (crates/runtime/src/types/iterator.rs).

Contracts only. Function bodies come from /repo at run time.
"""
from engine.unit import Fn, Raw, Type, Unit

F = "crates/runtime/src/types/iterator.rs"
P = ("C13", "C06")

PRELUDE = r"""
global size_of usize == 8;   // assumption: 64-bit target

// ---- shims (assumptions): the containers are opaque; `get_output(i)` reads position i of the
// container (None when the container has become shorter in the meantime)
#[verifier::external_body] struct KList { _p: u8 }
#[verifier::external_body] struct KTuple { _p: u8 }
#[verifier::external_body] struct KMap { _p: u8 }
#[verifier::external_body] struct KIteratorOutput { _p: u8 }
type Output = KIteratorOutput;
// `len()` is the CURRENT length of the (shared, possibly growing) container: unrelated to the cursor
impl KList { uninterp spec fn at(&self, i: int) -> Option<KIteratorOutput>; uninterp spec fn cur_len(&self) -> usize;
    #[verifier::external_body] fn len(&self) -> (r: usize) ensures r == self.cur_len() { unimplemented!() } }
impl KTuple { uninterp spec fn at(&self, i: int) -> Option<KIteratorOutput>; uninterp spec fn cur_len(&self) -> usize;
    #[verifier::external_body] fn len(&self) -> (r: usize) ensures r == self.cur_len() { unimplemented!() } }
impl KMap { uninterp spec fn at(&self, i: int) -> Option<KIteratorOutput>; uninterp spec fn cur_len(&self) -> usize;
    #[verifier::external_body] fn len(&self) -> (r: usize) ensures r == self.cur_len() { unimplemented!() } }
"""


def specs(ty, field):
    return SPECS.replace("FIELD", field)


SPECS = r"""
    // ghost: what the container holds at position i right now
    spec fn at(&self, i: int) -> Option<KIteratorOutput> { self.FIELD.at(i) }
    spec fn wf(&self) -> bool { self.index <= self.end }
    // the positions that are still to be yielded
    spec fn remaining(&self) -> Seq<int> { Seq::new((self.end - self.index) as nat, |k: int| self.index + k) }

    // assumed contract of get_output (reads the shared container through its lock / RefCell)
    #[verifier::external_body]
    fn get_output(&self, index: usize) -> (r: Option<KIteratorOutput>)
        ensures r == self.at(index as int)
    { unimplemented!() }
"""


NEXT = r"""
    requires old(self).wf(),
    ensures
        final(self).wf(),                                                                              // @cursor_stays_ordered
        // yields the element at the FIRST remaining position and drops exactly that position
        old(self).end > old(self).index ==> r == old(self).at(old(self).index as int),                 // @yields_front_position
        old(self).end > old(self).index ==> final(self).remaining() =~= old(self).remaining().drop_first(),   // @front_position_consumed
        old(self).end > old(self).index ==> final(self).end == old(self).end,                          // @back_untouched
        old(self).end <= old(self).index ==> r is None && final(self).index == old(self).index && final(self).end == old(self).end,   // @exhausted_stays_exhausted
        forall|i: int| final(self).at(i) == old(self).at(i),
"""

NEXT_BACK = r"""
    requires old(self).wf(),
    ensures
        final(self).wf(),                                                                              // @cursor_stays_ordered
        // yields the element at the LAST remaining position and drops exactly that position
        old(self).end > old(self).index ==> r == old(self).at(old(self).end - 1),                      // @yields_back_position
        old(self).end > old(self).index ==> final(self).remaining() =~= old(self).remaining().drop_last(),   // @back_position_consumed
        old(self).end > old(self).index ==> final(self).index == old(self).index,                      // @front_untouched
        old(self).end <= old(self).index ==> r is None && final(self).index == old(self).index && final(self).end == old(self).end,   // @exhausted_stays_exhausted
        forall|i: int| final(self).at(i) == old(self).at(i),
"""

items = []
for ty, field in (("ListIterator", "list"), ("TupleIterator", "tuple"), ("MapIterator", "data")):
    items += [
        Type(F, "struct " + ty),
        Raw(specs(ty, field), impl_of="impl " + ty),
        Fn(F, "impl Iterator for %s :: fn next" % ty, props=P, impl_as="impl " + ty, spec=NEXT,
           subst=[("Option<Self::Item>", "Option<KIteratorOutput>", 1)]),
        Fn(F, "impl KotoIterator for %s :: fn next_back" % ty, props=P, impl_as="impl " + ty, spec=NEXT_BACK),
    ]

UNIT = Unit(
    name="V-cursors",
    prelude=PRELUDE,
    items=items,
    epilogue=r"""
// ---- C13 composition: under any interleaving of next and next_back every position of the
// original window index..end is yielded at most once, ascending from the front and descending
// from the back: the remaining positions are strictly increasing and each call removes exactly
// the first or the last of them
proof fn lemma_positions_distinct(it: ListIterator, i: int, j: int)
    requires it.wf(), 0 <= i < j < it.remaining().len(),
    ensures it.remaining()[i] < it.remaining()[j], it.remaining()[i] == it.index + i, it.remaining().len() == it.end - it.index,
{
}

// ---- vacuity guard: MUST FAIL
proof fn canary_cursor(it: ListIterator) requires it.wf(), it.end > it.index + 1 ensures false {}
""",
    canaries=("canary_cursor",),
)
