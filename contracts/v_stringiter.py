"""V-stringiter: the cursor arithmetic of the string iterators
(crates/runtime/src/core_lib/string/iterators.rs): Bytes, Lines, Split and the size_hint of
CharIndices and SplitWith.

The text itself (std's `str::find`, the bytes) is axiomatised; what is proved is what the iterators do
with the offsets: they never slice outside the string or through a character, every piece is a part of
the input, pieces and separators tile the input in order, the cursor moves forward, and `size_hint`
is total for every cursor the iterator can reach.

Contracts only. Function bodies come from /repo at run time.
"""
from engine.unit import Fn, Raw, Type, Unit

F = "crates/runtime/src/core_lib/string/iterators.rs"
P = ("C15", "C13", "C06")

PRELUDE = r"""
global size_of usize == 8;   // assumption: 64-bit target
use core::ops::Range;

// ---- shims (assumptions): KString as a window of valid UTF-8. `len()` is its byte length,
// `boundary(i)` is std's is_char_boundary (true at 0 and at len, false beyond len)
#[verifier::external_body]
pub struct KString { _p: u8 }
impl KString {
    pub uninterp spec fn slen(&self) -> int;
    pub uninterp spec fn boundary(&self, i: int) -> bool;
    // the byte at offset i
    pub uninterp spec fn byte(&self, i: int) -> u8;
    // `pat` occurs at byte offset i
    pub uninterp spec fn occurs_at(&self, i: int, pat: &KString) -> bool;
    // the text of `self` is bytes [lo, hi) of `parent`
    pub uninterp spec fn is_part_of(&self, parent: &KString, lo: int, hi: int) -> bool;

    pub open spec fn wf(&self) -> bool { 0 <= self.slen() <= isize::MAX && self.boundary(0) && self.boundary(self.slen()) }

    #[verifier::external_body]
    pub fn len(&self) -> (r: usize) requires self.wf() ensures r == self.slen() { unimplemented!() }

    // `self.input[start..].find(pattern.as_str())` (rule R5). The slice panics unless start is a
    // character boundary inside the string: precondition. The result is std's contract for str::find
    // with a &str pattern: the first occurrence at or after start, as an offset from start; a match
    // begins and ends on character boundaries
    #[verifier::external_body]
    pub fn find_from(&self, start: usize, pat: &KString) -> (r: Option<usize>)
        requires self.wf(), pat.wf(), start <= self.slen(), self.boundary(start as int),                     // @slice_from_is_valid
        ensures
            r matches Some(e) ==> start + e + pat.slen() <= self.slen() && self.occurs_at(start + e, pat)
                                  && self.boundary(start + e) && self.boundary(start + e + pat.slen())
                                  && (forall|k: int| start <= k < start + e ==> !self.occurs_at(k, pat)),
            r is None ==> (forall|k: int| start <= k <= self.slen() ==> !self.occurs_at(k, pat)),
    { unimplemented!() }

    // `&self.input[start..]` (rule R5): the rest of the string from a character boundary
    #[verifier::external_body]
    pub fn tail(&self, start: usize) -> (r: Tail)
        requires self.wf(), start <= self.slen(), self.boundary(start as int),                               // @slice_from_is_valid
        ensures r.of == *self, r.from == start,
    { unimplemented!() }

    // KString::with_bounds: assumed contract, PROVED on the real code in V-strslice (KString::with_bounds)
    #[verifier::external_body]
    pub fn with_bounds(&self, r: Range<usize>) -> (o: Option<KString>)
        requires self.wf(),
        ensures (o is Some) == (r.start <= r.end && r.end <= self.slen() && self.boundary(r.start as int) && self.boundary(r.end as int)),
                o matches Some(sub) ==> sub.is_part_of(self, r.start as int, r.end as int) && sub.wf() && sub.slen() == r.end - r.start,
    { unimplemented!() }

    // `self.input.as_bytes().get(i)` (rule R5): slice::get
    #[verifier::external_body]
    pub fn byte_get(&self, i: usize) -> (r: Option<u8>)
        requires self.wf(),
        ensures r == (if i < self.slen() { Some(self.byte(i as int)) } else { None }),
    { unimplemented!() }
}

// the rest of a string from a boundary (`&str`)
pub struct Tail { pub ghost of: KString, pub ghost from: int }
impl Tail {
    // `remaining.find('\n')`: std's contract for str::find with an ASCII char; the byte before and
    // after an ASCII byte are character boundaries
    #[verifier::external_body]
    pub fn find_newline(&self) -> (r: Option<usize>)
        ensures
            r matches Some(e) ==> self.from + e < self.of.slen() && self.of.byte(self.from + e) == 10u8
                                  && self.of.boundary(self.from + e) && self.of.boundary(self.from + e + 1)
                                  && (forall|k: int| self.from <= k < self.from + e ==> self.of.byte(k) != 10u8),
            r is None ==> (forall|k: int| self.from <= k < self.of.slen() ==> self.of.byte(k) != 10u8),
    { unimplemented!() }
    // `remaining.as_bytes()[i] == b'\r'` (rule R5): indexing panics beyond the end: precondition;
    // '\r' is ASCII, so it starts on a character boundary
    #[verifier::external_body]
    pub fn byte_is_cr(&self, i: usize) -> (r: bool)
        requires self.from + i < self.of.slen(),                                                             // @byte_index_in_bounds
        ensures r == (self.of.byte(self.from + i) == 13u8), r ==> self.of.boundary(self.from + i),
    { unimplemented!() }
}

pub enum KValue { Str(KString), Number(u8), Other }
pub enum Output { Value(KValue), ValuePair(KValue, KValue), Error(u8) }
// `byte.into()` (impl From<&u8> for KValue, rule R5)
pub fn byte_into_value(b: u8) -> (r: KValue) ensures r == KValue::Number(b) { KValue::Number(b) }
// `1.min(x)` (Ord::min on usize, rule R5)
pub fn one_min(x: usize) -> (r: usize) ensures r == (if x < 1 { x } else { 1 }) { if x < 1 { x } else { 1 } }

// fields of SplitWith that play no part in size_hint
#[verifier::external_body] pub struct KotoVm { _p: u8 }
#[verifier::external_body] pub struct InstructionFrame { _p: u8 }
"""

SPLIT_SPECS = r"""
    // what Split::new establishes and next() preserves: a cursor inside the string sits on a
    // character boundary; beyond the end means exhausted
    spec fn inv(&self) -> bool {
        &&& self.input.wf() && self.pattern.wf()
        &&& self.start <= self.input.slen() + self.pattern.slen()
        &&& self.start <= self.input.slen() ==> self.input.boundary(self.start as int)
    }
    spec fn exhausted(&self) -> bool { self.start > self.input.slen() }
"""

LINES_SPECS = r"""
    spec fn inv(&self) -> bool {
        &&& self.input.wf()
        &&& self.start <= self.input.slen() + 2
        &&& self.start <= self.input.slen() ==> self.input.boundary(self.start as int)
    }
    spec fn exhausted(&self) -> bool { self.start >= self.input.slen() }
"""

SIZE_HINT_TOTAL = r"""
    requires self.inv(),
    ensures
        // C06: total for every cursor the iterator reaches (an exhausted iterator included);
        // the lower bound never promises more than the upper
        r.1 matches Some(hi) && r.0 <= hi,                                                                  // @lower_le_upper
        self.exhausted() ==> r.0 == 0,                                                                      // @exhausted_promises_nothing
"""

UNIT = Unit(
    name="V-stringiter",
    prelude=PRELUDE,
    items=[
        # ------------------------------------------------------------------ Bytes
        Type(F, "struct Bytes"),
        Raw(r"""
    spec fn inv(&self) -> bool { self.input.wf() && self.index <= self.input.slen() }
    spec fn exhausted(&self) -> bool { self.index >= self.input.slen() }
""", impl_of="impl Bytes"),
        Fn(F, "impl Bytes :: fn new", props=P,
           spec=r"""
    requires input.wf(),
    ensures r.inv() && r.index == 0 && r.input == input,
"""),
        Fn(F, "impl Iterator for Bytes :: fn next", props=P, impl_as="impl Bytes",
           subst=[("Option<Self::Item>", "Option<Output>", 1),
                  ("self.input.as_bytes().get(self.index)", "self.input.byte_get(self.index)", 1),
                  ("byte.into()", "byte_into_value(byte)", 1)],
           spec=r"""
    requires old(self).inv(),
    ensures
        final(self).inv() && final(self).input == old(self).input,                                          // @cursor_stays_inside
        // C13/C15: the bytes, one at a time, in order; then None forever
        !old(self).exhausted() ==> r == Some(Output::Value(KValue::Number(old(self).input.byte(old(self).index as int)))) && final(self).index == old(self).index + 1,   // @yields_next_byte
        old(self).exhausted() ==> r is None && *final(self) == *old(self),                                  // @exhausted_stays_exhausted
"""),
        Fn(F, "impl Iterator for Bytes :: fn size_hint", props=P, impl_as="impl Bytes",
           spec=SIZE_HINT_TOTAL + r"""
        r.0 == self.input.slen() - self.index,                                                              // @exact
"""),

        # ------------------------------------------------------------------ CharIndices (size_hint only;
        # next() is a closure over grapheme_indices: outside Verus; its invariant is ASSUMED)
        Type(F, "struct CharIndices"),
        Raw(r"""
    spec fn inv(&self) -> bool { self.input.wf() && self.index <= self.input.slen() }
    spec fn exhausted(&self) -> bool { self.index >= self.input.slen() }
""", impl_of="impl CharIndices"),
        Fn(F, "impl Iterator for CharIndices :: fn size_hint", props=P, impl_as="impl CharIndices",
           spec=SIZE_HINT_TOTAL),

        # ------------------------------------------------------------------ Lines
        Type(F, "struct Lines"),
        Raw(LINES_SPECS, impl_of="impl Lines"),
        Fn(F, "impl Lines :: fn new", props=P,
           spec=r"""
    requires input.wf(),
    ensures r.inv() && r.start == 0 && r.input == input,
"""),
        Fn(F, "impl Iterator for Lines :: fn next", props=P, impl_as="impl Lines",
           subst=[("Option<Self::Item>", "Option<Output>", 1),
                  ("let remaining = &self.input[start..];", "let remaining = self.input.tail(start);", 1),
                  ("remaining.find('\\n')", "remaining.find_newline()", 1),
                  ("remaining.as_bytes()[end - 1] == b'\\r'", "remaining.byte_is_cr(end - 1)", 1)],
           spec=r"""
    requires old(self).inv(),
    ensures
        final(self).inv() && final(self).input == old(self).input,                                          // @cursor_stays_on_a_boundary
        old(self).exhausted() ==> r is None && *final(self) == *old(self),                                  // @exhausted_stays_exhausted
        // C15: a line is a part of the input that starts at the cursor, holds no '\n', and is followed
        // by "\n", "\r\n" or the end of the input; the cursor moves past the terminator
        !old(self).exhausted() ==> (r matches Some(Output::Value(KValue::Str(line)))
            && line.is_part_of(&old(self).input, old(self).start as int, old(self).start + line.slen())
            && (forall|k: int| old(self).start <= k < old(self).start + line.slen() ==> old(self).input.byte(k) != 10u8)),   // @line_is_part_of_input_without_newline
        !old(self).exhausted() ==> (r matches Some(Output::Value(KValue::Str(line))) && ({
            let e = old(self).start + line.slen();
            ||| (final(self).start == e + 1 && e == old(self).input.slen())
            ||| (final(self).start == e + 1 && e < old(self).input.slen() && old(self).input.byte(e) == 10u8)
            ||| (final(self).start == e + 2 && e + 1 < old(self).input.slen() && old(self).input.byte(e) == 13u8 && old(self).input.byte(e + 1) == 10u8)
        })),                                                                                                // @cursor_skips_exactly_the_terminator
        !old(self).exhausted() ==> final(self).start > old(self).start,                                     // @progress
"""),
        Fn(F, "impl Iterator for Lines :: fn size_hint", props=P, impl_as="impl Lines",
           subst=[("1.min(remaining_bytes)", "one_min(remaining_bytes)", 1)],
           spec=SIZE_HINT_TOTAL),

        # ------------------------------------------------------------------ Split
        Type(F, "struct Split"),
        Raw(SPLIT_SPECS, impl_of="impl Split"),
        Fn(F, "impl Split :: fn new", props=P,
           spec=r"""
    requires input.wf(), pattern.wf(),
    ensures r.inv() && r.start == 0 && r.input == input && r.pattern == pattern,
"""),
        Fn(F, "impl Iterator for Split :: fn next", props=P, impl_as="impl Split",
           subst=[("Option<Self::Item>", "Option<Output>", 1),
                  ("self.input[start..].find(self.pattern.as_str())", "self.input.find_from(start, &self.pattern)", 1)],
           spec=r"""
    requires old(self).inv(),
    ensures
        final(self).inv() && final(self).input == old(self).input && final(self).pattern == old(self).pattern,   // @cursor_stays_on_a_boundary
        old(self).exhausted() ==> r is None && *final(self) == *old(self),                                  // @exhausted_stays_exhausted
        // C15 "split(p) pieces re-joined with p reproduce it": each step consumes
        // [start, start') = piece ++ pattern (or piece up to the end of the input), the piece holds
        // no occurrence of the pattern
        !old(self).exhausted() ==> (r matches Some(Output::Value(KValue::Str(piece)))
            && piece.is_part_of(&old(self).input, old(self).start as int, old(self).start + piece.slen())
            && final(self).start == old(self).start + piece.slen() + old(self).pattern.slen()
            && (forall|k: int| old(self).start <= k < old(self).start + piece.slen() ==> !old(self).input.occurs_at(k, &old(self).pattern))),   // @piece_then_pattern_tile_the_input
        !old(self).exhausted() ==> (r matches Some(Output::Value(KValue::Str(piece))) && ({
            let e = old(self).start + piece.slen();
            ||| old(self).input.occurs_at(e, &old(self).pattern)
            ||| (e == old(self).input.slen() && (old(self).pattern.slen() > 0 ==> final(self).exhausted()))
        })),                                                                                                // @piece_ends_at_pattern_or_at_end
        // the cursor moves forward: the iterator terminates
        !old(self).exhausted() && old(self).pattern.slen() > 0 ==> final(self).start > old(self).start,     // @progress
"""),
        # the same function again for the empty pattern (separate obligation name: known finding F17)
        Fn(F, "impl Iterator for Split :: fn next", props=("C15",), impl_as="impl Split", rename="next__empty_pattern",
           subst=[("Option<Self::Item>", "Option<Output>", 1),
                  ("self.input[start..].find(self.pattern.as_str())", "self.input.find_from(start, &self.pattern)", 1)],
           spec=r"""
    requires old(self).inv(), old(self).pattern.slen() == 0, !old(self).exhausted(),
    ensures
        // C15/C13: splitting on "" still terminates: the cursor moves forward or the iterator is done
        final(self).start > old(self).start,                                                                // @empty_pattern_makes_progress
"""),
        Fn(F, "impl Iterator for Split :: fn size_hint", props=P, impl_as="impl Split",
           subst=[("1.min(remaining_bytes)", "one_min(remaining_bytes)", 1)],
           spec=SIZE_HINT_TOTAL),

        # ------------------------------------------------------------------ SplitWith (size_hint only;
        # next() calls back into the VM inside a grapheme loop: outside Verus. The cursor it leaves
        # behind is `end + grapheme_len`, beyond the end once exhausted: the invariant is ASSUMED)
        Type(F, "struct SplitWith"),
        Raw(r"""
    spec fn inv(&self) -> bool { self.input.wf() }
    spec fn exhausted(&self) -> bool { self.start >= self.input.slen() }
""", impl_of="impl SplitWith"),
        Fn(F, "impl Iterator for SplitWith :: fn size_hint", props=P, impl_as="impl SplitWith",
           subst=[("1.min(remaining_bytes)", "one_min(remaining_bytes)", 1)],
           spec=SIZE_HINT_TOTAL),
    ],
    epilogue=r"""
// ---- vacuity guards: MUST FAIL
proof fn canary_split(s: Split) requires s.inv(), !s.exhausted(), s.pattern.slen() > 0 ensures false {}
proof fn canary_lines(s: Lines) requires s.inv(), !s.exhausted() ensures false {}
""",
    canaries=("canary_split", "canary_lines"),
)
