"""V-callseq: the call sequence (crates/bytecode/src/compiler.rs compile_call) in the world of V-codegen: the frame
base, the piped argument first, the arguments in consecutive registers after the frame base, the indices of packed
arguments after them, then the Call / CallInstance instruction. V-codegen's stub for compile_call (one Call event)
stands for the layout proved here.

Contracts only. Function bodies come from /repo at run time.
"""
from engine.unit import Fn, Raw, Type, Unit
from contracts import v_codegen as cg

F = cg.F
P = ("C02", "C06")

KEEP_FNS = {"none", "with_assigned", "with_temporary", "with_register", "with_any_register", "with_fixed_register", "node_with_span", "node", "assign_result_register"}

def _base_items():
    out = []
    for it in cg.UNIT.items:
        if isinstance(it, Type):
            out.append(it)
        elif isinstance(it, Raw) and it.text is cg.HELPERS:
            txt = cg.HELPERS
            a = txt.index("    // compile_call: PROVED in V-callseq")
            b = txt.index("    #[verifier::external_body]\n    fn compile_chain(&mut self, chain:")
            out.append(Raw(txt[:a] + txt[b:], impl_of=it.impl_of))
        elif isinstance(it, Fn) and it.path[-1].replace("fn ", "").strip() in KEEP_FNS and not getattr(it, "rename", None):
            out.append(it)
    return out

SPECS = r"""
spec fn ev_args(e: Ev) -> Seq<u8> { match e { Ev::Op { args, .. } => args, _ => Seq::empty() } }
spec fn ev_has_op(e: Ev, o: Op) -> bool { e matches Ev::Op { op, .. } && op == o }
// the node an argument stands for: `xs...` stands for xs (and is unpacked at the call)
spec fn arg_node(ast: &Ast, a: AstIndex) -> AstIndex { match ast.at(a).node { Node::PackedExpression(inner) => inner, _ => a } }
spec fn arg_is_packed(ast: &Ast, a: AstIndex) -> bool { ast.at(a).node is PackedExpression }
// how many of the first k arguments are packed
spec fn packed_before(ast: &Ast, args: Seq<AstIndex>, k: int) -> int decreases k { if k <= 0 { 0 } else { packed_before(ast, args, k - 1) + (if arg_is_packed(ast, args[k - 1]) { 1int } else { 0 }) } }
"""

SPECS += r"""
proof fn lemma_packed_mono(ast: &Ast, args: Seq<AstIndex>, a: int, b: int)
    requires 0 <= a <= b,
    ensures 0 <= packed_before(ast, args, a) <= packed_before(ast, args, b) <= b,
    decreases b,
{ reveal_with_fuel(packed_before, 2); if b > 0 { if a < b { lemma_packed_mono(ast, args, a, b - 1); } else { lemma_packed_mono(ast, args, a - 1, b - 1); } } }
"""

UNIT = Unit(
    name="V-callseq",
    prelude=cg.PRELUDE + SPECS,
    items=_base_items() + [
        Fn(F, "impl Compiler :: fn compile_call", props=P, attrs=("verifier::rlimit(60)", "verifier::spinoff_prover"),
           subst=[(r"self\.frame\(\)\.next_temporary_register\(\)", "self.frame_next_temporary_register()", 1, "re"),
                  ("AstVec::<u8>::new()", "Vec::<u8>::new()", 1),
                  # rule R16: enumerate written with an explicit counter
                  ("for (i, arg) in args.iter().enumerate() {", "let mut i__: usize = 0;\n        for arg in it: args.iter() {\n            let i = i__; i__ = i__ + 1;", 1),
                  ("for index in packed_arg_indices.iter() {", "for index in it2: packed_arg_indices.iter() {", 1)],
           before=[("let mut i__: usize = 0;", """let ghost n = old(self).g@.trace.len() as int; let ghost t_head = self.g@.trace; let ghost h = t_head.len() as int; let ghost r0 = self.g@.regs;
proof { assert(args@.len() == args.len()); }"""),
                   ("let arg = if let Node::PackedExpression(packed_arg) = ctx.node(*arg) {", "let ghost t0 = self.g@.trace; let ghost k = it.index@ as int;"),
                   ("let arg_register = self.push_register()?;", """proof {
    reveal_with_fuel(packed_before, 2);
    lemma_packed_mono(ctx.ast, args@, k, k);
    assert forall|j: int| 0 <= j < k && arg_is_packed(ctx.ast, #[trigger] args@[j]) implies packed_before(ctx.ast, args@, j) < packed_before(ctx.ast, args@, k) by { lemma_packed_mono(ctx.ast, args@, j + 1, k); }
}""", -1),
                   ("for index in it2: packed_arg_indices.iter() {", "let ghost t_args = self.g@.trace; let ghost r_args = self.g@.regs;"),
                   ("let call_result_register = if let Some(result_register) = result.register {", "let ghost t_packed = self.g@.trace; proof { assert(prefix(t_args, t_packed)); assert(prefix(t_head, t_packed)); }"),
                   ("Ok(result)", """proof {
    let t = self.g@.trace;
    assert(Self::frame_post(old(self), self, old(self).len()));
    assert(prefix(old(self).g@.trace, t));
    assert forall|j: int| 0 <= j < args@.len() implies (#[trigger] t[h + j]).is_node(arg_node(ctx.ast, args@[j]), ResultRegister::Fixed((frame_base + 1 + arg_offset + j) as u8)) by { assert(t[h + j] == t_args[h + j]); }
    lemma_packed_mono(ctx.ast, args@, args@.len() as int, args@.len() as int);
    assert forall|q: int| 0 <= q < packed_arg_indices@.len() implies (#[trigger] t[h + args@.len() + q]).is_op(Op::SetNumberU8, seq![(frame_base + 1 + arg_count + q) as u8, packed_arg_indices@[q]]) by { assert(t[h + args@.len() + q] == t_packed[h + args@.len() + q]); }
    assert(Self::call_layout(old(self), self, ctx.ast, function_register, args@, piped_arg, instance, result, frame_base));
}""", -1)],
           loops={1: r"""
            invariant
                i__ == it.index@, args@.len() <= usize::MAX,
                self.g@.spans == old(self).g@.spans, self.g@.spans.len() > 0, self.fixed() == old(self).fixed(),
                n == old(self).g@.trace.len(), h == t_head.len(), prefix(t_head, self.g@.trace), self.len() >= old(self).len(),
                Self::frame_post(old(self), self, old(self).len()),
                // one register and one sub-expression per argument so far, in consecutive registers
                self.g@.regs == r0 + it.index@, self.g@.trace.len() == h + it.index@,
                self.g@.temp_base + r0 == frame_base + 1 + arg_offset, self.g@.temp_base + self.g@.regs <= 255, 0 <= arg_offset <= 1,
                forall|j: int| 0 <= j < it.index@ ==> (#[trigger] self.g@.trace[h + j]).is_node(arg_node(ctx.ast, args@[j]), ResultRegister::Fixed((frame_base + 1 + arg_offset + j) as u8)),
                // the positions of the packed arguments, in order
                packed_arg_indices@.len() == packed_before(ctx.ast, args@, it.index@ as int),
                forall|j: int| 0 <= j < it.index@ && arg_is_packed(ctx.ast, #[trigger] args@[j]) ==> 0 <= packed_before(ctx.ast, args@, j) < packed_arg_indices@.len()
                    && packed_arg_indices@[packed_before(ctx.ast, args@, j)] as int == arg_offset + j,
""", 2: r"""
            invariant
                self.g@.spans == old(self).g@.spans, self.g@.spans.len() > 0, self.fixed() == old(self).fixed(),
                prefix(t_args, self.g@.trace), self.len() >= old(self).len(),
                Self::frame_post(old(self), self, old(self).len()),
                self.g@.regs == r_args + it2.index@, self.g@.trace.len() == t_args.len() + it2.index@, t_args.len() == h + args@.len(),
                self.g@.temp_base + r_args == frame_base + 1 + arg_count, self.g@.temp_base + self.g@.regs <= 255,
                forall|q: int| 0 <= q < it2.index@ ==> (#[trigger] self.g@.trace[h + args@.len() + q]).is_op(Op::SetNumberU8, seq![(frame_base + 1 + arg_count + q) as u8, packed_arg_indices@[q]]),
"""},
           loop_open={1: r"""proof { reveal_with_fuel(packed_before, 2); }"""},
           spec=r"""
    requires old(self).g@.spans.len() > 0,
        // ASSUMED (V-frame Frame::new): register 0 is the frame's own, temporaries start after it and the locals
        old(self).g@.temp_base >= 1, old(self).g@.regs >= 0,
        args@.len() < usize::MAX,   // (a slice of 4-byte items is shorter than that)
    ensures
        r is Ok ==> prefix(old(self).g@.trace, final(self).g@.trace),
        // C02: the call's frame starts at `fb` (the instance itself when it already sits on top of the register stack);
        // a piped value is copied into the FIRST argument register (`a -> f b` is `f(a, b)`); the arguments are evaluated
        // left to right straight into the consecutive registers that follow; the positions of packed arguments (`xs...`)
        // follow the arguments; the Call / CallInstance instruction names the function, the frame base, the number of
        // arguments (the piped one included) and of packed arguments, and puts the result where it is wanted
        r matches Ok(out) ==> exists|fb: u8| #[trigger] Self::call_layout(old(self), final(self), ctx.ast, function_register, args@, piped_arg, instance, out, fb),   // @frame_base_piped_value_first_then_the_arguments_in_order
        r matches Ok(out) ==> final(self).g@.regs == old(self).g@.regs + (if out.is_temporary { 1int } else { 0 }),                       // @temporaries_released
        r is Ok ==> Self::frame_post(old(self), final(self), old(self).len()),                                                           // @earlier_code_and_enclosing_loops_untouched
        r matches Ok(out) ==> (ctx.result_register matches ResultRegister::Fixed(x) ==> out.register == Some(x) && !out.is_temporary),
        r matches Ok(out) ==> (ctx.result_register is Any ==> out.register is Some && out.is_temporary),
        r matches Ok(out) ==> (ctx.result_register is None ==> out.register is None),                                                     // @result_request_is_honoured
"""),
        Raw(r"""
    spec fn call_layout(pre: &Compiler, post: &Compiler, ast: &Ast, function: u8, args: Seq<AstIndex>, piped: Option<u8>, instance: Option<u8>, out: CompileNodeOutput, fb: u8) -> bool {
        let t = post.g@.trace; let n = pre.g@.trace.len() as int; let off = if piped is Some { 1int } else { 0 }; let h = n + off;
        let count = args.len() + off; let packed = packed_before(ast, args, args.len() as int);
        let top = pre.g@.temp_base + pre.g@.regs + (if out.is_temporary { 1int } else { 0 });
        // the frame base: the instance when it is the register on top of the stack, else the next free register
        &&& (fb as int == (if instance is Some && instance->0 as int == top - 1 { top - 1 } else { top }))
        &&& t.len() == h + args.len() + packed + 1
        &&& (piped matches Some(p) ==> t[n].is_op(Op::Copy, seq![(fb + 1) as u8, p]))
        &&& (forall|j: int| 0 <= j < args.len() ==> (#[trigger] t[h + j]).is_node(arg_node(ast, args[j]), ResultRegister::Fixed((fb + 1 + off + j) as u8)))
        &&& (forall|q: int| 0 <= q < packed ==> ev_has_op(#[trigger] t[h + args.len() + q], Op::SetNumberU8) && ev_args(t[h + args.len() + q]).len() == 2 && ev_args(t[h + args.len() + q])[0] as int == fb + 1 + count + q)
        &&& (forall|j: int| 0 <= j < args.len() && arg_is_packed(ast, #[trigger] args[j]) ==> ev_args(t[h + args.len() + packed_before(ast, args, j)]).len() == 2 && ev_args(t[h + args.len() + packed_before(ast, args, j)])[1] as int == off + j)
        &&& count <= 255 && packed <= 255
        &&& ({ let res = match out.register { Some(x) => x, None => fb };
               match instance {
                   Some(i) => t.last().is_op(Op::CallInstance, seq![res, function, i, fb, count as u8, packed as u8]),
                   None => t.last().is_op(Op::Call, seq![res, function, fb, count as u8, packed as u8]),
               } })
    }
""", impl_of="impl Compiler"),
    ],
    epilogue=r"""
// ---- vacuity guard: MUST FAIL
proof fn canary_callseq(c: Compiler, d: Compiler, ast: &Ast, args: Seq<AstIndex>, out: CompileNodeOutput, fb: u8) requires Compiler::call_layout(&c, &d, ast, 3, args, Some(4u8), None, out, fb), args.len() == 2 ensures false {}
""",
    canaries=("canary_callseq",),
)
