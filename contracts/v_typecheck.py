"""V-typecheck: the run-time type comparison behind type hints (crates/runtime/src/vm.rs
compare_value_type).

Verus leaves string-literal patterns uninterpreted, so rule R14 turns the `match` on the hint
("Any", "Callable", ...) into the if-chain rustc compiles it to. Claimed: `?` admits null for every
hint; Any admits everything; Callable / Indexable / Iterable are exactly the three predicates; a type
name admits a value whose own type name it is, or one of whose @base ancestors has that name, and
nothing else passes without such an ancestor; the function cannot panic (unwrap after contains_meta_key).
Not claimed: termination on a cyclic @base chain.

Contracts only. Function bodies come from /repo at run time.
"""
from engine.unit import Fn, Raw, Type, Unit

VM = "crates/runtime/src/vm.rs"
P = ("C16", "C06")

PRELUDE = r"""
// ---- shims (assumptions)
#[verifier::external_body] struct Opaque { _p: u8 }
#[verifier::external_body] #[derive(Clone, Copy)] struct ConstantIndex { _p: u8 }
#[verifier::external_body] struct MetaKey { _p: u8 }
uninterp spec fn base_key() -> MetaKey;
// `&MetaKey::Base` (rule R5)
#[verifier::external_body]
fn meta_key_base() -> (r: MetaKey) ensures r == base_key() { unimplemented!() }

// `"lit" => ..` arms (rule R14): a &str pattern matches by equality
#[verifier::external_body]
fn str_is(s: &str, lit: &str) -> (r: bool) ensures r == (s@ == lit@) { unimplemented!() }

#[verifier::external_body] struct KMap { _p: u8 }
impl KMap {
    uninterp spec fn has_meta(&self, key: MetaKey) -> bool;
    uninterp spec fn meta(&self, key: MetaKey) -> KValue;
    // assumed contract of KMap (map.rs): a meta key that is contained can be read
    #[verifier::external_body]
    fn contains_meta_key(&self, key: &MetaKey) -> (r: bool) ensures r == self.has_meta(*key) { unimplemented!() }
    #[verifier::external_body]
    fn get_meta_value(&self, key: &MetaKey) -> (r: Option<KValue>) ensures (r is Some) == self.has_meta(*key), r matches Some(v) ==> v == self.meta(*key) { unimplemented!() }
}
enum KValue { Null, Map(KMap), Other(Opaque) }
// whether a value's type name (following @type) is the given string: uninterpreted
uninterp spec fn named(v: KValue, name: Seq<char>) -> bool;
// the @base parent of a value, and its k-th ancestor
spec fn base_of(v: KValue) -> Option<KValue> {
    match v { KValue::Map(m) => if m.has_meta(base_key()) { Some(m.meta(base_key())) } else { None }, _ => None }
}
spec fn ancestor(v: KValue, k: nat) -> Option<KValue> decreases k {
    if k == 0 { Some(v) } else { match ancestor(v, (k - 1) as nat) { Some(a) => base_of(a), None => None } }
}
impl KValue {
    #[verifier::external_body] fn clone(&self) -> (r: Self) ensures r == *self { unimplemented!() }
    uninterp spec fn callable(&self) -> bool;
    uninterp spec fn indexable(&self) -> bool;
    uninterp spec fn iterable(&self) -> bool;
    #[verifier::external_body] fn is_callable(&self) -> (r: bool) ensures r == self.callable() { unimplemented!() }
    #[verifier::external_body] fn is_indexable(&self) -> (r: bool) ensures r == self.indexable() { unimplemented!() }
    #[verifier::external_body] fn is_iterable(&self) -> (r: bool) ensures r == self.iterable() { unimplemented!() }
    // `v.type_as_string() == name` (KString compared with &str; rule R5)
    #[verifier::external_body]
    fn type_name_is(&self, name: &str) -> (r: bool) ensures r == named(*self, name@) { unimplemented!() }
}
struct Reader { ip: usize }
struct KotoVm { reader: Reader }
#[verifier::external_body] struct Error { _p: u8 }
type Result<T> = core::result::Result<T, Error>;
// unexpected_type(..) (error.rs): always an error; `&format!("{expected_type}?")` (rule R5)
#[verifier::external_body]
fn unexpected_type<T>(expected: &str, unexpected: &KValue) -> (r: Result<T>) ensures r is Err { unimplemented!() }
#[verifier::external_body]
fn optional_type_name(expected_type: &str) -> String { unimplemented!() }
"""

UNIT = Unit(
    name="V-typecheck",
    prelude=PRELUDE,
    items=[
        Raw(r"""
    uninterp spec fn reg(&self, r: u8) -> KValue;
    uninterp spec fn constant(&self, i: ConstantIndex) -> &str;
    #[verifier::external_body]
    fn get_register(&self, register: u8) -> (r: &KValue) ensures *r == self.reg(register) { unimplemented!() }
    #[verifier::external_body]
    fn get_constant_str(&self, i: ConstantIndex) -> (r: &str) ensures r == self.constant(i) { unimplemented!() }
""", impl_of="impl KotoVm"),
        Fn(VM, "impl KotoVm :: fn compare_value_type", props=P,
           # the @base chain of a well-formed program is finite; termination is not claimed
           attrs=("verifier::exec_allows_no_decreases_clause", "verifier::loop_isolation(false)"),
           final_guards=1, str_match=True,
           after_open=r"""proof {
    // the four literals are pairwise different
    reveal_strlit("Any"); reveal_strlit("Callable"); reveal_strlit("Indexable"); reveal_strlit("Iterable");
    assert("Any"@.len() == 3 && "Callable"@.len() == 8 && "Indexable"@.len() == 9 && "Iterable"@.len() == 8);
    assert("Callable"@[0] == 'C' && "Iterable"@[0] == 'I');
}
let ghost mut depth: nat = 0;
let ghost v0 = self.reg(value_register);""",
           loops={1: """    invariant ancestor(v0, depth) == Some(value), expected_type@ == self.constant(type_index)@, v0 == self.reg(value_register),
        !named(v0, expected_type@), !(allow_null && v0 is Null),
        depth > 0 ==> (base_of(v0) matches Some(b) && !named(b, expected_type@)),
        expected_type@ != "Any"@, expected_type@ != "Callable"@, expected_type@ != "Indexable"@, expected_type@ != "Iterable"@,"""},
           before=[("value = base;", "proof { depth = depth + 1; }"),
                   ("if base.type_name_is(expected_type) {", "proof { assert(ancestor(v0, depth + 1) == Some(base)); }")],
           subst=[("value.type_as_string() == expected_type", "value.type_name_is(expected_type)", 1),
                  ("base.type_as_string() == expected_type", "base.type_name_is(expected_type)", 1),
                  ("&MetaKey::Base", "&meta_key_base()", 2)],
           spec=r"""
    ensures
        // C16: "`?` admitting null": for EVERY hint (Any, Callable, Indexable, Iterable or a type name)
        allow_null && self.reg(value_register) is Null ==> r,                                            // @optional_hint_admits_null
        // the four built-in hints
        self.constant(type_index)@ == "Any"@ ==> r,                                                      // @any_admits_everything
        !(allow_null && self.reg(value_register) is Null) && self.constant(type_index)@ == "Callable"@ ==> r == self.reg(value_register).callable(),     // @callable_is_exactly_is_callable
        !(allow_null && self.reg(value_register) is Null) && self.constant(type_index)@ == "Indexable"@ ==> r == self.reg(value_register).indexable(),   // @indexable_is_exactly_is_indexable
        !(allow_null && self.reg(value_register) is Null) && self.constant(type_index)@ == "Iterable"@ ==> r == self.reg(value_register).iterable(),     // @iterable_is_exactly_is_iterable
        // a type name: the value's own type, or the type of one of its @base ancestors
        named(self.reg(value_register), self.constant(type_index)@)
          && self.constant(type_index)@ != "Callable"@ && self.constant(type_index)@ != "Indexable"@ && self.constant(type_index)@ != "Iterable"@ ==> r,   // @own_type_name_passes
        base_of(self.reg(value_register)) matches Some(b) && named(b, self.constant(type_index)@)
          && self.constant(type_index)@ != "Callable"@ && self.constant(type_index)@ != "Indexable"@ && self.constant(type_index)@ != "Iterable"@ ==> r,   // @base_type_name_passes
        r && !(allow_null && self.reg(value_register) is Null)
          && self.constant(type_index)@ != "Any"@ && self.constant(type_index)@ != "Callable"@
          && self.constant(type_index)@ != "Indexable"@ && self.constant(type_index)@ != "Iterable"@
          ==> exists|k: nat| (#[trigger] ancestor(self.reg(value_register), k)) matches Some(a) && named(a, self.constant(type_index)@),   // @passes_only_with_a_matching_ancestor
"""),
        Raw(r"""
    // vm.rs jump_ip: PROVED in V-truthy
    #[verifier::external_body]
    fn jump_ip(&mut self, offset: u32) ensures final(self).reader.ip == old(self).reader.ip + offset { unimplemented!() }
    // what the check decides: the function above, as a spec (its result is a function of the registers
    // and constants, which neither instruction changes)
    uninterp spec fn admits(&self, value_register: u8, type_index: ConstantIndex, allow_null: bool) -> bool;
    #[verifier::external_body]
    fn compare_value_type_(&self, value_register: u8, type_index: ConstantIndex, allow_null: bool) -> (r: bool)
        ensures r == self.admits(value_register, type_index, allow_null) { unimplemented!() }
""", impl_of="impl KotoVm"),
        Fn(VM, "impl KotoVm :: fn run_assert_type", props=P,
           subst=[("self.compare_value_type(", "self.compare_value_type_(", None),
                  (r'unexpected_type\(&format!\("\{expected_type\}\?"\), value\)', "unexpected_type(optional_type_name(expected_type).as_str(), value)", None, "re")],
           spec=r"""
    ensures
        // C16: a hint on `let` / an argument / a return value: an error exactly when the check fails
        (r is Ok) == self.admits(value_register, type_index, allow_null),                               // @error_exactly_when_the_check_fails
"""),
        Fn(VM, "impl KotoVm :: fn run_check_type", props=P,
           subst=[("self.compare_value_type(", "self.compare_value_type_(", None)],
           spec=r"""
    requires old(self).reader.ip + jump_offset <= usize::MAX,
    ensures
        // C16: a hint in a `match` pattern SELECTS: no error, the arm is skipped exactly when the check fails
        r is Ok,                                                                                         // @never_an_error
        final(self).reader.ip == (if old(self).admits(value_register, type_index, allow_null) { old(self).reader.ip as int } else { old(self).reader.ip + jump_offset }),   // @skips_the_arm_exactly_when_the_check_fails
"""),
    ],
    epilogue=r"""
// ---- vacuity guard: MUST FAIL
proof fn canary_typecheck(vm: KotoVm, r: u8) requires vm.reg(r) is Null ensures false {}
""",
    canaries=("canary_typecheck",),
)
