"""V-typecheck: the run-time type comparison behind type hints (crates/runtime/src/vm.rs
compare_value_type).

Verus treats the string patterns of the function ("Any", "Callable", ...) as uninterpreted, so only
what holds for EVERY hint is claimed: `?` admits null for every kind of hint, the function cannot
panic (the unwrap after contains_meta_key), and a value whose own type name is the hint passes.

Contracts only. Function bodies come from /repo at run time.
"""
from engine.unit import Fn, Raw, Type, Unit

VM = "crates/runtime/src/vm.rs"
P = ("C16", "C06")

PRELUDE = r"""
// ---- shims (assumptions)
#[verifier::external_body] struct Opaque { _p: u8 }
#[verifier::external_body] struct ConstantIndex { _p: u8 }
#[verifier::external_body] struct MetaKey { _p: u8 }
uninterp spec fn base_key() -> MetaKey;
// `&MetaKey::Base` (rule R5)
#[verifier::external_body]
fn meta_key_base() -> (r: MetaKey) ensures r == base_key() { unimplemented!() }

#[verifier::external_body] struct KMap { _p: u8 }
impl KMap {
    uninterp spec fn has_meta(&self, key: MetaKey) -> bool;
    // assumed contract of KMap (map.rs): a meta key that is contained can be read
    #[verifier::external_body]
    fn contains_meta_key(&self, key: &MetaKey) -> (r: bool) ensures r == self.has_meta(*key) { unimplemented!() }
    #[verifier::external_body]
    fn get_meta_value(&self, key: &MetaKey) -> (r: Option<KValue>) ensures (r is Some) == self.has_meta(*key) { unimplemented!() }
}
enum KValue { Null, Map(KMap), Other(Opaque) }
// whether a value's type name (following @type) is the given string: uninterpreted
uninterp spec fn named(v: KValue, name: &str) -> bool;
impl KValue {
    #[verifier::external_body] fn clone(&self) -> (r: Self) ensures r == *self { unimplemented!() }
    #[verifier::external_body] fn is_callable(&self) -> bool { unimplemented!() }
    #[verifier::external_body] fn is_indexable(&self) -> bool { unimplemented!() }
    #[verifier::external_body] fn is_iterable(&self) -> bool { unimplemented!() }
    // `v.type_as_string() == name` (KString compared with &str; rule R5)
    #[verifier::external_body]
    fn type_name_is(&self, name: &str) -> (r: bool) ensures r == named(*self, name) { unimplemented!() }
}
struct KotoVm { _p: u8 }
"""

UNIT = Unit(
    name="V-typecheck",
    prelude=PRELUDE,
    items=[
        Raw(r"""
    uninterp spec fn reg(&self, r: u8) -> KValue;
    uninterp spec fn constant(&self, i: ConstantIndex) -> &str;
    #[verifier::external_body]
    fn get_register(&self, register: u8) -> (r: &KValue) ensures *r == self.reg(register) { unimplemented!() }
    #[verifier::external_body]
    fn get_constant_str(&self, i: ConstantIndex) -> (r: &str) ensures r == self.constant(i) { unimplemented!() }
""", impl_of="impl KotoVm"),
        Fn(VM, "impl KotoVm :: fn compare_value_type", props=P,
           # the @base chain of a well-formed program is finite; termination is not claimed
           attrs=("verifier::exec_allows_no_decreases_clause",),
           final_guards=1,
           subst=[("value.type_as_string() == expected_type", "value.type_name_is(expected_type)", 1),
                  ("base.type_as_string() == expected_type", "base.type_name_is(expected_type)", 1),
                  ("&MetaKey::Base", "&meta_key_base()", 2)],
           spec=r"""
    ensures
        // C16: "`?` admitting null": for EVERY hint (Any, Callable, Indexable, Iterable or a type name)
        allow_null && self.reg(value_register) is Null ==> r,                                            // @optional_hint_admits_null
"""),
    ],
    epilogue=r"""
// ---- vacuity guard: MUST FAIL
proof fn canary_typecheck(vm: KotoVm, r: u8) requires vm.reg(r) is Null ensures false {}
""",
    canaries=("canary_typecheck",),
)
