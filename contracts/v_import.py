"""V-import: the import rollback of KotoVm::run_import (crates/runtime/src/vm.rs), C07's second mechanism.

What is proved, on the real text of run_import / successful_import and of the closure run_import
invokes on the spot (rule R11 turns that closure into a method so that it can carry a contract):
whatever the module's script, its tests or its @main do - succeed, fail, throw - the importing VM gets
its own exports map back, and the module cache holds no new "being imported" placeholder (the `None`
entry that makes every later import of that path fail with "recursive import").

Assumed (listed by the scan): what run / run_tests / call_function do to these two pieces of state
(nested imports obey this same contract; nothing else writes placeholders), the module loader, the
module cache as a map.

Contracts only. Function bodies come from /repo at run time.
"""
from engine.unit import Fn, Raw, Type, Unit

F = "crates/runtime/src/vm.rs"
P = ("C07", "C18", "C06")

PRELUDE = r"""
global size_of usize == 8;   // assumption: 64-bit target

// ---- shims (assumptions)
pub struct Ptr<T> { pub v: T }
impl<T> core::ops::Deref for Ptr<T> {
    type Target = T;
    fn deref(&self) -> (r: &T) ensures *r == self.v { &self.v }
}
#[verifier::external_body] pub struct Error { _p: u8 }
pub type Result<T> = core::result::Result<T, Error>;
#[verifier::external_body] pub struct KString { _p: u8 }
#[verifier::external_body] pub struct Chunk { _p: u8 }
#[verifier::external_body] pub struct InstructionReader { _p: u8 }
#[verifier::external_body] pub struct Frame { _p: u8 }
#[verifier::external_body] pub struct ExecutionState { _p: u8 }
#[verifier::external_body] pub struct ValueKey { _p: u8 }
pub uninterp spec fn key_of(v: KValue) -> Option<ValueKey>;
impl ValueKey {
    // `ValueKey::try_from(value)` (impl TryFrom<KValue> for ValueKey): only hashable values are keys
    #[verifier::external_body]
    pub fn try_from_value(v: KValue) -> (r: Result<ValueKey>) ensures r matches Ok(k) ==> key_of(v) == Some(k), r is Err ==> key_of(v) is None { unimplemented!() }
}
pub struct ConstantIndex(pub u32);
// runtime_error!("'{name}' not found") (rule R5)
#[verifier::external_body]
pub fn runtime_error_not_found<T>(name: &str) -> (r: Result<T>) ensures r is Err { unimplemented!() }
// std::path::PathBuf: the key of the module cache
#[verifier::external_body] pub struct PathBuf { _p: u8 }
impl Clone for PathBuf { #[verifier::external_body] fn clone(&self) -> (r: Self) ensures r == *self { unimplemented!() } }
impl<T> Clone for Ptr<T> { #[verifier::external_body] fn clone(&self) -> (r: Self) ensures r == *self { unimplemented!() } }

// KMap: a shared (reference-counted) map; equality here is identity of the map object
#[verifier::external_body] pub struct KMap { _p: u8 }
impl Clone for KMap { #[verifier::external_body] fn clone(&self) -> (r: Self) ensures r == *self { unimplemented!() } }
// (Copy only so that a binding in a match pattern does not move out of the scrutinee: rule R10 turns
// a guarded arm into an unguarded one, which would otherwise move earlier than the original)
impl Copy for KMap {}
impl Default for KMap { #[verifier::external_body] fn default() -> Self { unimplemented!() } }
pub enum MetaKey { Main, Other }
impl KMap {
    #[verifier::external_body]
    pub fn get_meta_value(&self, key: &MetaKey) -> Option<KValue> { unimplemented!() }
}
pub enum KValue { Null, Str(KString), Map(KMap), Other(u8) }
impl Clone for KValue { #[verifier::external_body] fn clone(&self) -> (r: Self) ensures r == *self { unimplemented!() } }
impl From<KMap> for KValue { #[verifier::external_body] fn from(m: KMap) -> KValue { KValue::Map(m) } }
impl KValue {
    #[verifier::external_body]
    pub fn is_callable(&self) -> bool { unimplemented!() }
}
// unexpected_type(..) (error.rs): always an error
#[verifier::external_body]
pub fn unexpected_type<T>(expected: &str, unexpected: &KValue) -> (r: Result<T>) ensures r is Err { unimplemented!() }
// runtime_error!("recursive import of module '{import_name}'") (rule R5)
#[verifier::external_body]
pub fn runtime_error_recursive_import<T>(name: &KString) -> (r: Result<T>) ensures r is Err { unimplemented!() }

// koto_bytecode::CompileResult (module_loader.rs)
pub struct CompileResult { pub chunk: Ptr<Chunk>, pub path: PathBuf, pub loaded_from_cache: bool }

// VmContext: the settings and the module cache (KCell<HashMap<PathBuf, Option<KMap>>>) as a map:
// `None` = "this module is being imported right now"
pub struct KotoVmSettings { pub run_import_tests: bool }
#[verifier::external_body] pub struct ModuleCache { _p: u8 }
impl ModuleCache { pub uninterp spec fn view(&self) -> Map<PathBuf, Option<KMap>>; }
// `code_runs` (ghost): how many times code was executed through this runtime (run / run_tests / call_function)
pub struct VmContext { pub settings: KotoVmSettings, pub module_cache: ModuleCache, pub code_runs: Ghost<nat> }
// the path the module loader resolves a module name to (find_module, V-modloader): ASSUMED stable during one import
pub uninterp spec fn resolved_path(name: KString) -> PathBuf;
"""

VM_SPECS = r"""
    spec fn cache(&self) -> Map<PathBuf, Option<KMap>> { self.context.v.module_cache@ }
    // the paths that are marked "being imported"
    spec fn placeholders(&self) -> Set<PathBuf> { self.cache().dom().filter(|p: PathBuf| self.cache()[p] is None) }
    // C07: what an import - finished or failed - leaves of its own bookkeeping: nothing
    spec fn runs(&self) -> nat { self.context.v.code_runs@ }
    // read at entry only
    uninterp spec fn reg(&self, r: u8) -> KValue;
    uninterp spec fn non_local_or_prelude(&self, name: KString) -> Option<KValue>;
    uninterp spec fn loader_has_chunk(&self, p: PathBuf) -> bool;
    // the module file an `import` of the value in register r has to load (None: the name is already
    // bound as a non-local / in the prelude, or the value is a map)
    spec fn module_to_load(&self, r: u8) -> Option<PathBuf> {
        match self.reg(r) {
            KValue::Str(n) => if self.non_local_or_prelude(n) is None { Some(resolved_path(n)) } else { None },
            _ => None,
        }
    }
    spec fn clean(o: &KotoVm, f: &KotoVm) -> bool {
        &&& f.exports == o.exports
        &&& f.placeholders() =~= o.placeholders()
        &&& f.context.v.settings == o.context.v.settings
    }
    // executing code: nested imports obey `clean`, nothing else writes a placeholder or swaps the
    // exports map; the entry of a module that is being imported is not touched (a recursive import of
    // it is an error) - ASSUMED for run / run_tests / call_function
    spec fn code_ran(o: &KotoVm, f: &KotoVm) -> bool { Self::clean(o, f) && f.runs() > o.runs() }

    #[verifier::external_body]
    fn run(&mut self, chunk: Ptr<Chunk>) -> (r: Result<KValue>) ensures Self::code_ran(old(self), final(self)) { unimplemented!() }
    #[verifier::external_body]
    fn run_tests(&mut self, test_map: KMap) -> (r: Result<KValue>) ensures Self::code_ran(old(self), final(self)) { unimplemented!() }
    #[verifier::external_body]
    fn call_function(&mut self, function: KValue, args: &[KValue]) -> (r: Result<KValue>) ensures Self::code_ran(old(self), final(self)) { unimplemented!() }

    // ---- exports and non-locals (C18)
    uninterp spec fn exports_data(m: KMap) -> Map<ValueKey, KValue>;
    // `self.exports.data_mut().insert(k, v)` (rule R5): writes THE map object that `self.exports` points to
    #[verifier::external_body]
    fn exports_insert(&mut self, key: ValueKey, value: KValue)
        ensures final(self).exports == old(self).exports, final(self).context == old(self).context,
                final(self).written() == old(self).written().push((old(self).exports, key, value)) { unimplemented!() }
    // ghost log of map writes made by this VM: (map, key, value)
    uninterp spec fn written(&self) -> Seq<(KMap, ValueKey, KValue)>;
    // `self.get_constant_str(i)` (constant pool)
    #[verifier::external_body]
    fn get_constant_str(&self, i: ConstantIndex) -> (r: &str) ensures r@ == self.constant(i) { unimplemented!() }
    uninterp spec fn constant(&self, i: ConstantIndex) -> Seq<char>;
    // `self.frame().non_local(name).or_else(|| self.context.prelude.get(name))` (rule R5)
    #[verifier::external_body]
    fn lookup_non_local_or_prelude_str(&self, name: &str) -> (r: Option<KValue>) ensures r == self.non_local_by_name(name@) { unimplemented!() }
    uninterp spec fn non_local_by_name(&self, name: Seq<char>) -> Option<KValue>;

    // registers and frames: no part in this unit
    #[verifier::external_body]
    fn clone_register(&self, register: u8) -> (r: KValue) ensures r == self.reg(register) { unimplemented!() }
    #[verifier::external_body]
    fn set_register(&mut self, register: u8, value: KValue)
        ensures final(self).exports == old(self).exports, final(self).context == old(self).context,
                final(self).reg(register) == value, final(self).written() == old(self).written() { unimplemented!() }
    // `self.frame_mut().non_locals.get_or_insert_default().add_wildcard_import(imported)` (rule R5)
    #[verifier::external_body]
    fn add_wildcard_import(&mut self, imported: KValue)
        ensures final(self).exports == old(self).exports, final(self).context == old(self).context { unimplemented!() }
    // `self.frame().non_local(&name).or_else(|| self.context.prelude.get(&name))` (rule R5)
    #[verifier::external_body]
    fn lookup_non_local_or_prelude(&self, name: &KString) -> (r: Option<KValue>) ensures r == self.non_local_or_prelude(*name) { unimplemented!() }
    // `self.context.loader.borrow_mut().compile_module(&name, <path of the current chunk>)?` (rule R5)
    #[verifier::external_body]
    fn compile_module(&mut self, name: &KString) -> (r: Result<CompileResult>)
        ensures *final(self) == *old(self),
                r matches Ok(c) ==> c.path == resolved_path(*name) && c.loaded_from_cache == old(self).loader_has_chunk(c.path),
    { unimplemented!() }
    // the host's module_imported_callback (rule R5): host code, assumed not to reach into the VM
    #[verifier::external_body]
    fn notify_module_imported(&mut self, path: &PathBuf) ensures *final(self) == *old(self) { unimplemented!() }

    // the module cache (rule R5: `self.context.module_cache.borrow()/borrow_mut()` + HashMap method)
    #[verifier::external_body]
    fn cache_get(&self, path: &PathBuf) -> (r: Option<Option<KMap>>)
        ensures r == (if self.cache().contains_key(*path) { Some(self.cache()[*path]) } else { None }) { unimplemented!() }
    #[verifier::external_body]
    fn cache_insert(&mut self, path: PathBuf, entry: Option<KMap>)
        ensures final(self).cache() == old(self).cache().insert(path, entry),
                final(self).exports == old(self).exports, final(self).context.v.settings == old(self).context.v.settings,
                final(self).runs() == old(self).runs() { unimplemented!() }
    #[verifier::external_body]
    fn cache_remove(&mut self, path: &PathBuf)
        ensures final(self).cache() == old(self).cache().remove(*path),
                final(self).exports == old(self).exports, final(self).context.v.settings == old(self).context.v.settings,
                final(self).runs() == old(self).runs() { unimplemented!() }
"""

WS = r"\s*"
CACHE = r"self\s*\.context\s*\.module_cache\s*"

UNIT = Unit(
    name="V-import",
    prelude=PRELUDE,
    items=[
        Type(F, "struct KotoVm"),
        Raw(VM_SPECS, impl_of="impl KotoVm"),
        Fn(F, "impl KotoVm :: fn successful_import", props=P,
           subst=[(r"self\.frame_mut\(\)\s*\.non_locals\s*\.get_or_insert_default\(\)\s*\.add_wildcard_import\(imported\)", "self.add_wildcard_import(imported)", 1, "re")],
           spec=r"""
    ensures r is Ok, Self::clean(old(self), final(self)), final(self).context == old(self).context,
"""),
        Fn(F, "impl KotoVm :: fn run_export_value", props=("C18",),
           subst=[("ValueKey::try_from(self.clone_register(key_register))?", "ValueKey::try_from_value(self.clone_register(key_register))?", 1),
                  ("self.exports.data_mut().insert(key, value);", "self.exports_insert(key, value);", 1)],
           spec=r"""
    ensures
        // C18: `export k = v` writes exactly (k, v) into the exports map of the module that is running
        r is Ok ==> (key_of(old(self).reg(key_register)) matches Some(k)
                    && final(self).written() == old(self).written().push((old(self).exports, k, old(self).reg(value_register)))),   // @export_writes_the_running_modules_map
        r is Err ==> key_of(old(self).reg(key_register)) is None && final(self).written() == old(self).written(),                   // @unhashable_key_is_an_error
        final(self).exports == old(self).exports,
"""),
        Fn(F, "impl KotoVm :: fn run_load_non_local", props=("C18",),
           subst=[(r"self\s*\.frame\(\)\s*\.non_local\(name\)\s*\.or_else\(\|\| self\.context\.prelude\.get\(name\)\)", "self.lookup_non_local_or_prelude_str(name)", 1, "re"),
                  ("""runtime_error!("'{name}' not found")""", "runtime_error_not_found(name)", None)],
           spec=r"""
    ensures
        // C18: an exported / imported / prelude name is visible to later code; an unknown name is an error
        old(self).non_local_by_name(old(self).constant(constant_index)) matches Some(v) ==> r is Ok && final(self).reg(register) == v,   // @non_local_is_loaded
        old(self).non_local_by_name(old(self).constant(constant_index)) is None ==> r is Err && *final(self) == *old(self),              // @unknown_name_is_an_error
"""),
        Fn(F, "impl KotoVm :: fn run_import", props=P,
           final_guards=1,
           subst=[
               (r"self\s*\.frame\(\)\s*\.non_local\(&import_name\)\s*\.or_else\(\|\| self\.context\.prelude\.get\(&import_name\)\)", "self.lookup_non_local_or_prelude(&import_name)", 1, "re"),
               ("let source_path = self.reader.chunk.path.clone();", "", 1),
               (r"self\.context\.loader\.borrow_mut\(\)\.compile_module\(\s*&import_name,\s*source_path\s*\.as_ref\(\)\s*\.map\(\|path_string\| Path::new\(path_string\.as_str\(\)\)\),\s*\)\?", "self.compile_module(&import_name)?", 1, "re"),
               (CACHE + r"\.borrow\(\)\s*\.get\(&compile_result\.path\)\s*\.cloned\(\)", "self.cache_get(&compile_result.path)", 1, "re"),
               (CACHE + r"\.borrow_mut\(\)\s*\.insert\(", "self.cache_insert(", None, "re"),
               (CACHE + r"\.borrow_mut\(\)\s*\.remove\(", "self.cache_remove(", None, "re"),
               ("""runtime_error!("recursive import of module '{import_name}'")""", "runtime_error_recursive_import(&import_name)", None),
               (r"if let Some\(callback\) = &self\.context\.settings\.module_imported_callback \{\s*callback\(&compile_result\.path\);\s*\}", "self.notify_module_imported(&compile_result.path);", 1, "re"),
           ],
           before=[
               ("let importer_exports = self.exports.clone();", """let ghost path = compile_result.path;
proof {
    // the path was not marked before (that is the recursive-import error above) and is marked now
    assert(!old(self).placeholders().contains(path));   // @import_cycle_is_an_error
    assert(self.placeholders() =~= old(self).placeholders().insert(path));
}"""),
               ("if import_result.is_ok() {", """let ghost loaded = *self;
proof {
    // whatever the module's code did, the mark is still there and nothing else is marked
    assert(loaded.placeholders() =~= old(self).placeholders().insert(path));
}"""),
               ("self.successful_import(import_register, module_exports.into(), import_all)", """proof {
    // imported: the mark was replaced by the exports
    assert forall|p: PathBuf| self.placeholders().contains(p) == old(self).placeholders().contains(p) by {   // @no_placeholder_left_behind
        assert(loaded.placeholders().contains(p) == old(self).placeholders().insert(path).contains(p));
    }
    assert(self.placeholders() =~= old(self).placeholders());
}"""),
               ("self.exports = importer_exports;", """proof {
    // failed: the mark was removed
    assert forall|p: PathBuf| self.placeholders().contains(p) == old(self).placeholders().contains(p) by {   // @no_placeholder_left_behind
        assert(loaded.placeholders().contains(p) == old(self).placeholders().insert(path).contains(p));
    }
    assert(self.placeholders() =~= old(self).placeholders());
}"""),
           ],
           hoist=dict(
               anchor="let import_result = ",
               call="self.run_import__load_module(&compile_result)",
               name="run_import__load_module",
               sig="(&mut self, compile_result: &CompileResult) -> Result<()>",
               final_guards=1,
               spec=r"""
    ensures Self::code_ran(old(self), final(self)),                                                        // @module_code_only
""",
           ),
           spec=r"""
    ensures
        // C07 import rollback: on EVERY exit path - imported, found in the cache, failed to compile,
        // recursive, failed while running, failed tests, failing @main - the importer's exports map is
        // back in place ...
        final(self).exports == old(self).exports,                                                         // @exports_restored_on_every_exit
        // ... and no path is left marked "being imported" (nor is a mark of an import that is still
        // running higher up removed)
        final(self).placeholders() =~= old(self).placeholders(),                                          // @no_placeholder_left_behind
        final(self).context.v.settings == old(self).context.v.settings,
        // C18: an import cycle is reported as an error (and runs nothing)
        old(self).module_to_load(import_register) matches Some(path) ==>
            (old(self).placeholders().contains(path) ==> r is Err && final(self).cache() == old(self).cache() && final(self).runs() == old(self).runs()),   // @import_cycle_is_an_error
        // C18: a module that was imported before is not run again, however many modules import it
        old(self).module_to_load(import_register) matches Some(path) ==>
            (old(self).cache().contains_key(path) && old(self).cache()[path] is Some && old(self).loader_has_chunk(path)
                ==> final(self).runs() == old(self).runs() && final(self).cache() == old(self).cache()),                                               // @cached_module_is_not_run_again
        // C18: an imported module is in the cache afterwards
        old(self).module_to_load(import_register) matches Some(path) ==>
            (r is Ok ==> final(self).cache().contains_key(path) && final(self).cache()[path] is Some),                                                 // @imported_module_is_cached
        // C18: a module whose import failed leaves nothing behind and can be imported again
        old(self).module_to_load(import_register) matches Some(path) ==>
            (r is Err ==> final(self).cache() == old(self).cache() || !final(self).cache().contains_key(path)),                                        // @failed_import_leaves_no_entry
"""),
    ],
    epilogue=r"""
// ---- vacuity guard: MUST FAIL
proof fn canary_import(vm: KotoVm, p: PathBuf) requires vm.placeholders().contains(p) ensures false {}
proof fn canary_import_cached(vm: KotoVm, r: u8, p: PathBuf)
    requires vm.module_to_load(r) == Some(p), vm.cache().contains_key(p), vm.cache()[p] is Some, vm.loader_has_chunk(p) ensures false {}
""",
    canaries=("canary_import", "canary_import_cached"),
)
