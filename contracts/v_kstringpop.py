"""V-kstringpop: KString::pop_front / pop_back (crates/parser/src/string.rs), how a string is consumed in
place one grapheme cluster at a time (string iteration in `for`, unpacking): C15 "never yields malformed
text", C13 "in order, each once".

Shares V-strslice's world (imported): StringSlice::split is the real, proved function; grapheme
segmentation (unicode-segmentation) is assumed to return a cluster that ends on a character boundary.

Contracts only. Function bodies come from /repo at run time.
"""
from engine.unit import Fn, Raw, Type, Unit
from contracts import v_strslice as vs

S = "crates/parser/src/string.rs"
P = ("C15", "C13", "C06")

PRELUDE = vs.PRELUDE + vs.KSTRING_PRELUDE + r"""
// koto_memory::Ptr::make_mut on the boxed slice: unique access (clone-on-write); the shim holds the slice
// by value, so this is the identity
impl Clone for StringSlice { #[verifier::external_body] fn clone(&self) -> (r: Self) ensures r == *self { unimplemented!() } }
fn make_mut_slice(s: &mut StringSlice) -> (r: &mut StringSlice) ensures *r == *old(s), *final(s) == *final(r) { s }
"""

UNIT = Unit(
    name="V-kstringpop",
    prelude=PRELUDE,
    items=[it for it in vs.UNIT.items if isinstance(it, Raw) or (isinstance(it, Fn) and it.name in ("split", "from"))] + [
        Raw(r"""
    // byte length of the first / last grapheme cluster (unicode-segmentation): ASSUMED to be a non-empty
    // prefix / suffix that ends / starts on a character boundary; None exactly for the empty string
    uninterp spec fn first_len(&self) -> int;
    uninterp spec fn last_len(&self) -> int;
    #[verifier::external_body]
    fn first_grapheme_len(&self) -> (r: Option<usize>)
        requires self.valid(),
        ensures (r is None) == (self.hi() == self.lo()),
                r matches Some(g) ==> g == self.first_len() && 0 < g <= self.hi() - self.lo() && self.data().boundary(self.lo() + g),
    { unimplemented!() }
    #[verifier::external_body]
    fn last_grapheme_len(&self) -> (r: Option<usize>)
        requires self.valid(),
        ensures (r is None) == (self.hi() == self.lo()),
                r matches Some(g) ==> g == self.last_len() && 0 < g <= self.hi() - self.lo() && self.data().boundary(self.hi() - g),
    { unimplemented!() }
""", impl_of="impl KString"),
        Raw(r"""
impl StrData {
    #[verifier::external_body] fn byte_len(&self) -> (r: usize) ensures r == self.len() { unimplemented!() }
}
impl StringSlice {
    // StringSlice::<usize>::from(Ptr<String>) (string_slice.rs): the whole buffer
    #[verifier::external_body]
    fn from_data(d: StrData) -> (r: StringSlice) ensures r.data == d && r.bounds.start == 0 && r.bounds.end == d.len() { unimplemented!() }
    // Deref<str>::len
    fn len(&self) -> (r: usize) requires self.bounds.start <= self.bounds.end ensures r == self.bounds.end - self.bounds.start { self.bounds.end - self.bounds.start }
}
"""),
        Fn(S, "impl KString :: fn pop_front", props=P,
           subst=[("match self.clone().graphemes(true).next() {", "match self.first_grapheme_len() {", None),
                  ("grapheme.len()", "grapheme", None),
                  ("StringSlice::<usize>::from(string.clone())", "StringSlice::from_data(string.clone())", None),
                  ("*self = rest.into();", "*self = KString::from_slice(rest);", None),
                  ("Some(popped.into())", "Some(KString::from_slice(popped))", None),
                  ("*Ptr::make_mut(slice) = rest;", "*make_mut_slice(slice) = rest;", None)],
           spec=r"""
    requires old(self).valid(),
    ensures
        final(self).valid() && final(self).data() == old(self).data(),                                    // @stays_valid_text
        // C15/C13: the first grapheme cluster is split off, the rest stays, in order; the empty string gives None
        old(self).hi() == old(self).lo() ==> r is None && final(self).lo() == old(self).lo() && final(self).hi() == old(self).hi(),   // @empty_gives_none
        old(self).hi() > old(self).lo() ==> (r matches Some(p) && p.valid() && p.data() == old(self).data()
            && p.lo() == old(self).lo() && p.hi() == old(self).lo() + old(self).first_len()
            && final(self).lo() == old(self).lo() + old(self).first_len() && final(self).hi() == old(self).hi()),   // @first_cluster_split_off
"""),
        Fn(S, "impl KString :: fn pop_back", props=P,
           subst=[("match self.clone().graphemes(true).next_back() {", "match self.last_grapheme_len() {", None),
                  ("string.len()", "string.byte_len()", None),
                  ("grapheme.len()", "grapheme", None),
                  ("StringSlice::<usize>::from(string.clone())", "StringSlice::from_data(string.clone())", None),
                  ("*self = rest.into();", "*self = KString::from_slice(rest);", None),
                  ("Some(popped.into())", "Some(KString::from_slice(popped))", None),
                  ("*Ptr::make_mut(slice) = rest;", "*make_mut_slice(slice) = rest;", None)],
           spec=r"""
    requires old(self).valid(),
    ensures
        final(self).valid() && final(self).data() == old(self).data(),                                    // @stays_valid_text
        old(self).hi() == old(self).lo() ==> r is None && final(self).lo() == old(self).lo() && final(self).hi() == old(self).hi(),   // @empty_gives_none
        old(self).hi() > old(self).lo() ==> (r matches Some(p) && p.valid() && p.data() == old(self).data()
            && p.hi() == old(self).hi() && p.lo() == old(self).hi() - old(self).last_len()
            && final(self).lo() == old(self).lo() && final(self).hi() == old(self).hi() - old(self).last_len()),   // @last_cluster_split_off
"""),
    ],
    epilogue=r"""
// ---- vacuity guard: MUST FAIL
proof fn canary_kstringpop(s: KString) requires s.valid(), s.hi() > s.lo() + 2 ensures false {}
""",
    canaries=("canary_kstringpop",),
)
