"""V-closure: making a function value and filling in its captures (crates/runtime/src/vm.rs
run_make_function, run_capture_value): C02 "functions ... capture as documented".

Over the REAL `enum Instruction` declaration. Claimed: the function value records exactly the
instruction's argument counts and flags, the position of its body (the ip right after the instruction) and
the chunk; it gets one capture slot per optional argument and per captured value, all null at first; it
shares the defining frame's non-locals exactly when the compiler said it reads non-locals; the
interpreter skips the body; a capture instruction writes the given value into the given slot of THAT
function and nothing else.

Contracts only. Function bodies come from /repo at run time.
"""
from engine.unit import Fn, Raw, Type, Unit

F = "crates/runtime/src/vm.rs"
I = "crates/bytecode/src/instruction.rs"
P = ("C02", "C06")

PRELUDE = r"""
global size_of usize == 8;   // assumption: 64-bit target
// ---- shims (assumptions)
#[verifier::external_body] pub struct Error { _p: u8 }
pub type Result<T> = core::result::Result<T, Error>;
#[verifier::external_body] #[derive(Clone, Copy)] pub struct ConstantIndex { _p: u8 }
#[verifier::external_body] pub struct MetaKeyId { _p: u8 }
#[verifier::external_body] pub struct StringFormatOptions { _p: u8 }
#[verifier::external_body] pub struct Chunk { _p: u8 }
#[verifier::external_body] pub struct NonLocals { _p: u8 }
impl Clone for NonLocals { #[verifier::external_body] fn clone(&self) -> (r: Self) ensures r == *self { unimplemented!() } }
pub struct Ptr<T> { pub v: T }
impl<T> Clone for Ptr<T> { #[verifier::external_body] fn clone(&self) -> (r: Self) ensures r == *self { unimplemented!() } }
// FunctionFlags (crates/bytecode): a bit set; only the bit that is read here
#[verifier::external_body] #[derive(Clone, Copy)] pub struct FunctionFlags { _p: u8 }
impl FunctionFlags {
    pub uninterp spec fn reads_non_locals(&self) -> bool;
    #[verifier::external_body] pub fn non_local_access(&self) -> (r: bool) ensures r == self.reads_non_locals() { unimplemented!() }
}
// the capture list of a function (KList shared with every copy of the function value)
#[verifier::external_body] pub struct KList { _p: u8 }
impl KList {
    pub uninterp spec fn elems(&self) -> Seq<KValue>;
    pub uninterp spec fn slot_written(&self, i: int, v: KValue) -> bool;   // a fact only `set` establishes
    // `let mut captures = ValueVec::new(); captures.resize(n, Null); KList::with_data(captures)` (rule R5)
    #[verifier::external_body]
    pub fn of_nulls(n: usize) -> (r: KList) ensures r.elems().len() == n, forall|i: int| 0 <= i < n ==> r.elems()[i] is Null { unimplemented!() }
    // `captures.data_mut()[i] = v` (RefCell + IndexMut: panics out of bounds), rule R5
    #[verifier::external_body]
    pub fn set(&self, i: usize, v: KValue) requires i < self.elems().len() ensures self.slot_written(i as int, v) { unimplemented!() }   // @capture_slot_exists
}
pub struct FunctionContext { pub captures: Option<KList>, pub non_locals: Option<NonLocals> }
pub struct KFunction { pub chunk: Ptr<Chunk>, pub ip: u32, pub arg_count: u8, pub optional_arg_count: u8, pub flags: FunctionFlags, pub context: Option<Ptr<FunctionContext>> }
impl KFunction {
    // function.rs KFunction::new: the fields as given
    pub fn new(chunk: Ptr<Chunk>, ip: u32, arg_count: u8, optional_arg_count: u8, flags: FunctionFlags, context: Option<Ptr<FunctionContext>>) -> (r: KFunction)
        ensures r == (KFunction { chunk, ip, arg_count, optional_arg_count, flags, context })
    { KFunction { chunk, ip, arg_count, optional_arg_count, flags, context } }
    pub open spec fn captures_spec(&self) -> Option<KList> { match self.context { Some(c) => c.v.captures, None => None } }
    // function.rs captures(): the context's capture list
    #[verifier::external_body]
    pub fn captures(&self) -> (r: Option<&KList>) ensures r == (match self.captures_spec() { Some(l) => Some(&l), None => None }) { unimplemented!() }
}
impl<T> Ptr<T> { pub fn from(v: T) -> (r: Ptr<T>) ensures r.v == v { Ptr { v } } }
pub enum KValue { Null, Function(KFunction), Other(u8) }
#[verifier::external_body] pub fn runtime_error_unexpected<T>() -> (r: Result<T>) ensures r is Err { unimplemented!() }
#[verifier::external_body] pub fn runtime_error_function_not_found<T>() -> (r: Result<T>) ensures r is Err { unimplemented!() }
#[verifier::external_body] pub fn unexpected_type<T>(expected: &str, unexpected: &KValue) -> (r: Result<T>) ensures r is Err { unimplemented!() }
pub uninterp spec fn reg_of(regs: Seq<KValue>, r: u8) -> Option<KValue>;
pub struct Frame { pub non_locals: Option<NonLocals> }
pub struct KotoVm { pub ip: u32, pub frame: Frame, pub cur_chunk: Ptr<Chunk>, pub regs: Ghost<Seq<KValue>> }
"""

VM_SPECS = r"""
    // the register file is one field, so that moving the instruction pointer provably leaves it alone
    pub open spec fn reg(&self, r: u8) -> Option<KValue> { reg_of(self.regs@, r) }   // None: the register does not exist (any more)
    fn frame(&self) -> (r: &Frame) ensures *r == self.frame { &self.frame }
    fn chunk(&self) -> (r: Ptr<Chunk>) ensures r == self.cur_chunk { self.cur_chunk.clone() }
    fn ip(&self) -> (r: u32) ensures r == self.ip { self.ip }
    // vm.rs jump_ip: PROVED in V-truthy
    fn jump_ip(&mut self, offset: u32) requires old(self).ip + offset <= u32::MAX ensures final(self).ip == old(self).ip + offset, final(self).frame == old(self).frame, final(self).cur_chunk == old(self).cur_chunk, final(self).regs == old(self).regs { self.ip = self.ip + offset; }
    #[verifier::external_body]
    fn set_register(&mut self, r: u8, v: KValue) ensures final(self).reg(r) == Some(v), final(self).ip == old(self).ip, final(self).frame == old(self).frame, final(self).cur_chunk == old(self).cur_chunk { unimplemented!() }
    #[verifier::external_body]
    fn get_register_safe(&self, r: u8) -> (v: Option<&KValue>) ensures v == (match self.reg(r) { Some(x) => Some(&x), None => None }) { unimplemented!() }
    #[verifier::external_body]
    fn clone_register(&self, r: u8) -> (v: KValue) requires self.reg(r) is Some ensures Some(v) == self.reg(r) { unimplemented!() }
"""

UNIT = Unit(
    name="V-closure",
    prelude=PRELUDE,
    items=[
        Type(I, "enum Instruction"),
        Raw(VM_SPECS, impl_of="impl KotoVm"),
        Fn(F, "impl KotoVm :: fn run_make_function", props=P,
           subst=[(r"let mut captures = ValueVec::new\(\);\s*captures\.resize\(total_captures_count as usize, KValue::Null\);\s*Some\(KList::with_data\(captures\)\)", "Some(KList::of_nulls(total_captures_count as usize))", None, "re"),
                  ("runtime_error!(ErrorKind::UnexpectedError)", "runtime_error_unexpected()", None)],
           spec=r"""
    requires
        // ASSUMED (C05): the instruction is a Function instruction whose body lies inside the chunk and whose
        // capture slots are counted in 8 bits (each needs a register of the function's frame)
        function_instruction matches Instruction::Function { register, arg_count, optional_arg_count, capture_count, flags, size } &&
            optional_arg_count + capture_count <= 255 && old(self).ip + size <= u32::MAX,
    ensures
        function_instruction matches Instruction::Function { register, arg_count, optional_arg_count, capture_count, flags, size } ==> {   // @function_value_as_the_instruction_says
            // a function that reads non-locals needs a defining frame that has some
            &&& ((r is Ok) == !(flags.reads_non_locals() && old(self).frame.non_locals is None))                       // @needs_non_locals_when_it_reads_them
            &&& (r is Ok ==> (final(self).reg(register) matches Some(KValue::Function(f)) && {
                    // C02: exactly what the instruction says, the body right after the instruction, this chunk
                    &&& f.arg_count == arg_count && f.optional_arg_count == optional_arg_count && f.flags == flags
                    &&& f.ip == old(self).ip && f.chunk == old(self).cur_chunk                                             // @function_records_the_instruction
                    // one capture slot per optional argument and per captured value, null until filled in
                    &&& (optional_arg_count + capture_count > 0 ==> (f.captures_spec() matches Some(l) && l.elems().len() == optional_arg_count + capture_count
                            && forall|i: int| 0 <= i < l.elems().len() ==> l.elems()[i] is Null))
                    &&& (optional_arg_count + capture_count == 0 ==> f.captures_spec() is None)                          // @capture_slots_start_as_null
                    // the defining frame's non-locals, exactly when the function reads non-locals
                    &&& (match f.context { Some(c) => c.v.non_locals, None => None }) == (if flags.reads_non_locals() { old(self).frame.non_locals } else { None })   // @shares_the_defining_frames_non_locals
                }))
            // the interpreter continues after the function's body
            &&& (r is Ok ==> final(self).ip == old(self).ip + size)                                                       // @body_is_skipped
        },
"""),
        Fn(F, "impl KotoVm :: fn run_capture_value", props=P,
           subst=[('runtime_error!("function not found while attempting to capture a value")', "runtime_error_function_not_found()", None),
                  (r"captures\.data_mut\(\)\[(.*?)\] = (.*?);", r"captures.set(\1, \2);", None, "re")],
           spec=r"""
    requires
        // ASSUMED (C05): the value register exists; the capture index is one of the function's slots
        old(self).reg(value) is Some,
        old(self).reg(function) matches Some(KValue::Function(f)) ==> (f.captures_spec() matches Some(l) ==> capture_index < l.elems().len()),
    ensures
        *final(self) == *old(self),
        // C02: the value goes into slot `capture_index` of THAT function's capture list
        old(self).reg(function) matches Some(KValue::Function(f)) ==> r is Ok && (f.captures_spec() matches Some(l) ==> l.slot_written(capture_index as int, old(self).reg(value)->0)),   // @value_written_into_the_functions_slot
        // the function is gone (it was a temporary) or is no function: an error
        !(old(self).reg(function) matches Some(KValue::Function(_))) ==> r is Err,                                         // @no_function_is_an_error
"""),
    ],
    epilogue=r"""
// ---- vacuity guard: MUST FAIL
proof fn canary_closure(vm: KotoVm, r: u8, f: KFunction, l: KList) requires vm.reg(r) == Some(KValue::Function(f)), f.captures_spec() == Some(l), l.elems().len() > 2 ensures false {}
""",
    canaries=("canary_closure",),
)
