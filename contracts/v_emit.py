"""V-emit: jump emission and patching helpers of the compiler (crates/bytecode/src/compiler.rs),
unbounded in the code size (the Kani twin K-emit runs the same helpers on the real std for code
sizes up to 70 000 bytes).

Contracts only. Function bodies come from /repo at run time.
"""
from engine.unit import Fn, Raw, Type, Unit

F = "crates/bytecode/src/compiler.rs"
P = ("C05", "C06", "C01")

PRELUDE = r"""
global size_of usize == 8;   // assumption: 64-bit target

// ---- shims (assumptions)
// the little-endian u16 the VM reads back (instruction_reader.rs get_u16!: u16::from_le_bytes)
spec fn u16_le(a: u8, b: u8) -> int { a as int + 256 * (b as int) }
// std u16::to_le_bytes (rule R5: its return type `[u8; size_of::<u16>()]` cannot be named in an
// assume_specification): assumed from its documentation
#[verifier::external_body]
fn u16_to_le_bytes(x: u16) -> (r: [u8; 2]) ensures u16_le(r[0], r[1]) == x as int { unimplemented!() }

#[verifier::external_body] struct Error { _p: u8 }
impl Error { uninterp spec fn jump_too_large(&self) -> bool; uninterp spec fn outside_loop(&self) -> bool; }
type Result<T> = core::result::Result<T, Error>;
#[derive(Clone, Copy)]
enum Op { Jump, JumpBack, Other }
// `op as u8`: the opcode byte (K-emit::emit_op_byte_roundtrip proves Op <-> u8 is a bijection)
uninterp spec fn op_byte(op: Op) -> u8;
#[verifier::external_body]
fn op_as_u8(op: Op) -> (r: u8) ensures r == op_byte(op) { unimplemented!() }

#[verifier::external_body] struct AstIndex { _p: u8 }
#[verifier::external_body] struct CompileNodeContext { _p: u8 }
#[verifier::external_body] struct CompileNodeOutput { _p: u8 }
struct Loop { jump_placeholders: Vec<usize> }
// the compile frame's loop stack (proved in V-frame: pop_loop pops the innermost loop)
struct FrameLoops { loops: Vec<Loop> }

struct Compiler { bytes: Vec<u8>, frame: FrameLoops }

impl Compiler {
    // `self.error(ErrorKind::JumpOffsetIsTooLarge(offset))` (rule R5)
    #[verifier::external_body]
    fn error_jump_too_large<T>(&self, offset: usize) -> (r: Result<T>) ensures r matches Err(e) && e.jump_too_large() { unimplemented!() }
    // `self.frame_mut().pop_loop().map_err(|e| self.make_error(e))` (rule R5; V-frame::Frame::pop_loop)
    #[verifier::external_body]
    fn frame_pop_loop(&mut self) -> (r: Result<Loop>)
        ensures final(self).bytes@ == old(self).bytes@,
            r is Ok <==> old(self).frame.loops@.len() > 0,
            r matches Ok(l) ==> l == old(self).frame.loops@.last() && final(self).frame.loops@ == old(self).frame.loops@.drop_last(),
            r matches Err(e) ==> e.outside_loop() && final(self).frame.loops@ == old(self).frame.loops@,
    { unimplemented!() }

    // assumed contract of the recursive code generator (compile_node, 5000 lines): it only APPENDS
    // code (it may patch placeholders inside what it appended, never the code that was there before)
    #[verifier::external_body]
    fn compile_node(&mut self, node_index: AstIndex, ctx: CompileNodeContext) -> (r: Result<CompileNodeOutput>)
        ensures final(self).bytes@.len() >= old(self).bytes@.len(),
                final(self).bytes@.take(old(self).bytes@.len() as int) == old(self).bytes@,
    { unimplemented!() }

    // a forward jump operand at p lands at `target` (the VM adds the offset to the ip after the operand)
    spec fn lands(bytes: Seq<u8>, p: int, target: int) -> bool {
        0 <= p && p + 2 <= bytes.len() && p + 2 + u16_le(bytes[p], bytes[p + 1]) == target
    }
}
"""

UNIT = Unit(
    name="V-emit",
    prelude=PRELUDE,
    items=[
        Fn(F, "impl Compiler :: fn push_bytes", props=P, impl_as="impl Compiler", spec=r"""
    ensures final(self).bytes@ == old(self).bytes@ + bytes@, final(self).frame == old(self).frame,     // @appends_exactly_the_bytes
"""),
        Fn(F, "impl Compiler :: fn push_op_without_span", props=P, impl_as="impl Compiler",
           subst=[("op as u8", "op_as_u8(op)", 1)],
           spec=r"""
    ensures final(self).bytes@ == old(self).bytes@.push(op_byte(op)) + bytes@, final(self).frame == old(self).frame,   // @opcode_then_operands
"""),
        Fn(F, "impl Compiler :: fn push_offset_placeholder", props=P, impl_as="impl Compiler", spec=r"""
    ensures
        r == old(self).bytes@.len(),                                                                     // @placeholder_at_end
        final(self).bytes@.len() == old(self).bytes@.len() + 2,
        final(self).bytes@.take(old(self).bytes@.len() as int) == old(self).bytes@,                      // @earlier_code_untouched
        final(self).frame == old(self).frame,
"""),
        Fn(F, "impl Compiler :: fn update_offset_placeholder", props=P, impl_as="impl Compiler",
           subst=[("self.error(ErrorKind::JumpOffsetIsTooLarge(offset))", "self.error_jump_too_large(offset)", 1),
                  ("offset_u16.to_le_bytes()", "u16_to_le_bytes(offset_u16)", 1)],
           spec=r"""
    requires offset_ip + 2 <= old(self).bytes@.len(),
    ensures
        final(self).frame == old(self).frame,
        final(self).bytes@.len() == old(self).bytes@.len(),                                              // @code_size_unchanged
        // C05: the forward jump lands exactly at the current end of the code, or the distance is
        // reported as too large: never a truncated offset
        r is Ok <==> old(self).bytes@.len() - offset_ip - 2 <= 65535,                                    // @limit_is_error
        r is Ok ==> Self::lands(final(self).bytes@, offset_ip as int, final(self).bytes@.len() as int),  // @lands_at_end_of_code
        forall|i: int| 0 <= i < old(self).bytes@.len() && i != offset_ip && i != offset_ip + 1 ==> final(self).bytes@[i] == old(self).bytes@[i],   // @only_the_placeholder_is_written
        r matches Err(e) ==> e.jump_too_large() && final(self).bytes@ == old(self).bytes@,               // @error_leaves_code
"""),
        Fn(F, "impl Compiler :: fn push_jump_back_op", props=P, impl_as="impl Compiler",
           subst=[("self.error(ErrorKind::JumpOffsetIsTooLarge(offset))", "self.error_jump_too_large(offset)", 1),
                  ("offset_u16.to_le_bytes()", "u16_to_le_bytes(offset_u16)", 1)],
           spec=r"""
    requires target_ip <= old(self).bytes@.len(), old(self).bytes@.len() + bytes@.len() < 0x4000_0000_0000_0000,
    ensures
        final(self).frame == old(self).frame,
        ({ let end = old(self).bytes@.len() + 1 + bytes@.len() + 2;
           // C05: the backward jump (the VM subtracts the offset from the ip after the instruction)
           // lands exactly on its target, or the distance is reported as too large
           &&& (r is Ok <==> end - target_ip <= 65535)                                                   // @limit_is_error
           &&& (r is Ok ==> final(self).bytes@.len() == end
                    && final(self).bytes@.take(old(self).bytes@.len() as int) == old(self).bytes@
                    && final(self).bytes@[old(self).bytes@.len() as int] == op_byte(op)
                    && end - u16_le(final(self).bytes@[end - 2], final(self).bytes@[end - 1]) == target_ip)   // @lands_on_target
           &&& (r matches Err(e) ==> e.jump_too_large() && final(self).bytes@ == old(self).bytes@) }),   // @error_emits_nothing
"""),
        Fn(F, "impl Compiler :: fn compile_node_with_jump_offset", props=P, impl_as="impl Compiler", spec=r"""
    requires old(self).bytes@.len() < 0x4000_0000_0000_0000,
    ensures
        // a conditional jump over a node (if / and / or / loop conditions) lands exactly on the first
        // instruction after the node's code, whatever the node compiled to
        r is Ok ==> Self::lands(final(self).bytes@, old(self).bytes@.len() as int, final(self).bytes@.len() as int),   // @jump_lands_right_after_the_node
        r is Ok ==> final(self).bytes@.take(old(self).bytes@.len() as int) == old(self).bytes@,          // @earlier_code_untouched
"""),
        Fn(F, "impl Compiler :: fn pop_loop_and_update_placeholders", props=P, impl_as="impl Compiler",
           subst=[("""        let loop_info = self
            .frame_mut()
            .pop_loop()
            .map_err(|e| self.make_error(e))?;""", "        let loop_info = self.frame_pop_loop()?;", 1),
                  ("for placeholder in loop_info.jump_placeholders.iter() {", "for placeholder in it: loop_info.jump_placeholders.iter() {", 1)],
           loops={1: r"""
            invariant
                old(self).frame.loops@.len() > 0,
                self.bytes@.len() == old(self).bytes@.len(),
                self.frame.loops@ == old(self).frame.loops@.drop_last(),
                loop_info == old(self).frame.loops@.last(),
                Self::placeholders_ok(loop_info.jump_placeholders@, old(self).bytes@.len() as int),
                // the placeholders seen so far land at the end of the code ...
                forall|j: int| 0 <= j < it.index@ ==> Self::lands(self.bytes@, loop_info.jump_placeholders@[j] as int, self.bytes@.len() as int),
                // ... and nothing but placeholder operands was written
                forall|i: int| 0 <= i < self.bytes@.len() && !Self::in_placeholder(loop_info.jump_placeholders@, i) ==> self.bytes@[i] == old(self).bytes@[i],
"""},
           spec=r"""
    requires
        // the `break` placeholders of the innermost loop are 2-byte operands inside the code that do
        // not overlap (each was produced by push_offset_placeholder at a different code size)
        old(self).frame.loops@.len() > 0 ==> Self::placeholders_ok(old(self).frame.loops@.last().jump_placeholders@, old(self).bytes@.len() as int),
    ensures
        // C01/C05: every `break` of the loop jumps to the first instruction after the loop
        r is Ok ==> old(self).frame.loops@.len() > 0 && forall|j: int| 0 <= j < old(self).frame.loops@.last().jump_placeholders@.len() ==>
            Self::lands(final(self).bytes@, #[trigger] old(self).frame.loops@.last().jump_placeholders@[j] as int, final(self).bytes@.len() as int),   // @every_break_lands_after_the_loop
        final(self).bytes@.len() == old(self).bytes@.len(),                                              // @code_size_unchanged
        r is Ok ==> final(self).frame.loops@ == old(self).frame.loops@.drop_last(),                      // @innermost_loop_popped
        old(self).frame.loops@.len() == 0 ==> r is Err && final(self).bytes@ == old(self).bytes@,        // @outside_loop_is_error
"""),
        Raw(r"""
    spec fn placeholders_ok(ps: Seq<usize>, len: int) -> bool {
        &&& forall|j: int| 0 <= j < ps.len() ==> #[trigger] ps[j] + 2 <= len
        &&& forall|j: int, k: int| 0 <= j < k < ps.len() ==> ps[j] + 2 <= ps[k] || ps[k] + 2 <= ps[j]
    }
    spec fn in_placeholder(ps: Seq<usize>, i: int) -> bool {
        exists|j: int| 0 <= j < ps.len() && (i == ps[j] || i == ps[j] + 1)
    }
""", impl_of="impl Compiler"),
    ],
    epilogue=r"""
// ---- vacuity guard: MUST FAIL
proof fn canary_emit(c: Compiler) requires c.frame.loops@.len() > 0, Compiler::placeholders_ok(c.frame.loops@.last().jump_placeholders@, c.bytes@.len() as int), c.frame.loops@.last().jump_placeholders@.len() > 1 ensures false {}
""",
    canaries=("canary_emit",),
)
