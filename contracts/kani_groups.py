"""Kani harness groups: which harness states which obligation, for which property.

`bound` present => bounded stand-in (reported separately, never counted as proved).
"""
NUM = "crates/runtime/src/types/number.rs"


GRID = "operands from a grid of 64 floats (multiples of 0.25 in [-6,6) plus NaN, infinities, signed zero, extremes) and 64 integers ([-28,28) plus i64 extremes): full-domain 64-bit multiplier/divider equivalence does not finish in CBMC"


def H(name, props, functions, bound=None, thorough_only=False):
    return {"name": name, "props": props, "functions": functions, "bound": bound, "thorough_only": thorough_only}


GROUPS = {
    "K-number": {
        "timeout_quick": 300,
        "timeout_thorough": 1200,
        "assumptions": [
            "K-number: CBMC's bit-precise IEEE-754 model of f64 +,-,*,/ and int<->float casts is trusted; f64 `%` (fmod) and powf are not modelled: only the representation (F64) of their result is claimed",
            "K-number: Kani's built-in 'NaN on ...'/'floating-point overflow' checks are ignored: a NaN or inf result is not a panic",
        ],
        "harnesses": [
            H("number_add_int_wraps", ["C01", "C06"], "impl Add for KNumber, impl Add for &KNumber (number_op!)"),
            H("number_sub_int_wraps", ["C01", "C06"], "impl Sub (number_op!)"),
            H("number_mul_int_wraps", ["C01", "C06"], "impl Mul (number_op!)"),
            H("number_add_if", ["C01"], "impl Add (number_op!)"),
            H("number_add_fi", ["C01"], "impl Add (number_op!)"),
            H("number_add_ff", ["C01"], "impl Add (number_op!)"),
            H("number_add_ref_if", ["C01"], "impl Add (number_op!)"),
            H("number_add_ref_fi", ["C01"], "impl Add (number_op!)"),
            H("number_add_ref_ff", ["C01"], "impl Add (number_op!)"),
            H("number_sub_if", ["C01"], "impl Sub (number_op!)"),
            H("number_sub_fi", ["C01"], "impl Sub (number_op!)"),
            H("number_sub_ff", ["C01"], "impl Sub (number_op!)"),
            H("number_sub_ref_if", ["C01"], "impl Sub (number_op!)"),
            H("number_sub_ref_fi", ["C01"], "impl Sub (number_op!)"),
            H("number_sub_ref_ff", ["C01"], "impl Sub (number_op!)"),
            H("number_arith_representation", ["C01", "C06"], "impl Add/Sub/Mul/Div for KNumber and &KNumber"),
            H("number_mul_small_if", ["C01"], "impl Mul for KNumber and &KNumber", bound=GRID),
            H("number_mul_small_fi", ["C01"], "impl Mul for KNumber and &KNumber", bound=GRID, thorough_only=True),
            H("number_mul_small_ff", ["C01"], "impl Mul for KNumber and &KNumber", bound=GRID, thorough_only=True),
            H("number_div_small_if", ["C01"], "impl Div for KNumber and &KNumber", bound=GRID, thorough_only=True),
            H("number_div_small_fi", ["C01"], "impl Div for KNumber and &KNumber", bound=GRID, thorough_only=True),
            H("number_div_small_ff", ["C01"], "impl Div for KNumber and &KNumber", bound=GRID, thorough_only=True),
            H("number_div_small_ii", ["C01"], "impl Div for KNumber and &KNumber", bound=GRID, thorough_only=True),
            H("number_rem_int_total", ["C01", "C06"], "impl Rem for KNumber / &KNumber"),
            H("number_rem_int_value", ["C01"], "impl Rem", bound=GRID),
            H("number_rem_mixed_is_float", ["C01", "C06"], "impl Rem"),
            H("number_neg", ["C01", "C06"], "impl Neg for KNumber / &KNumber"),
            H("number_pow_int_representation", ["C01", "C06"], "KNumber::pow (I64, I64)"),
            H("number_pow_two_wraps_to_zero", ["C01"], "KNumber::pow (I64, I64)"),
            H("number_pow_int_small", ["C01"], "KNumber::pow (I64, I64)", bound="base on the 64-point grid of small_int, exponent 0..=3"),
            H("number_abs_total", ["C06"], "KNumber::abs"),
            H("number_rounding_total", ["C06"], "KNumber::{floor,ceil,round}"),
            H("number_eq_laws", ["C14"], "impl PartialEq for KNumber"),
            H("number_eq_structural", ["C14", "C01"], "impl PartialEq for KNumber"),
            H("number_cmp_laws", ["C14", "C01"], "impl Ord/PartialOrd for KNumber"),
            H("number_cmp_values", ["C14", "C01"], "impl Ord for KNumber"),
            H("number_eq_implies_same_hash", ["C14"], "impl Hash for KNumber, KNumber::to_bits"),
            H("number_from", ["C01", "C06"], "From<i64/usize/f64> for KNumber, From<KNumber> for i64/usize (number_traits_int!)"),
        ],
    },
    "K-emit": {
        "timeout_quick": 300,
        "timeout_thorough": 900,
        "assumptions": [
            "K-emit: the private helpers are reached through koto_bytecode's `verif-hooks` wrappers (EmitProbe) on a fresh Compiler; the call sites in compile_* (which ip they pass) are not verified",
            "K-emit: buffer length bounded by 70 000 bytes in emit_update_offset_placeholder / emit_push_jump_back_op (both sides of the u16 limit are inside the bound)",
        ],
        "harnesses": [
            H("emit_push_var_u32_matches_spec", ["C05", "C06"], "Compiler::push_var_u32"),
            H("emit_update_offset_placeholder", ["C05", "C06"], "Compiler::update_offset_placeholder", bound="code size <= 70 000 bytes (u16 limit 65 535 inside the bound); offsets and contents symbolic"),
            H("emit_push_jump_back_op", ["C05", "C06"], "Compiler::push_jump_back_op, push_op_without_span, push_bytes", bound="code size <= 70 000 bytes (u16 limit 65 535 inside the bound); target and operands symbolic"),
            H("emit_op_byte_roundtrip", ["C05"], "impl From<u8> for Op"),
            H("emit_function_flags_roundtrip", ["C05", "C02"], "FunctionFlags::{new, is_variadic, is_generator, arg_is_unpacked_tuple, non_local_access}, From<FunctionFlags> for u8, TryFrom<u8>"),
        ],
    },
    "K-strslice": {
        "timeout_quick": 600,
        "timeout_thorough": 1800,
        "assumptions": [
            "K-strslice: koto_memory::Ptr is Rc (default `rc` feature); std's str::get / is_char_boundary / from_utf8 are executed by CBMC, not assumed",
        ],
        "harnesses": [
            H("strslice_new_validates", ["C15", "C06"], "StringSlice::<usize>::new, as_str (unsafe get_unchecked)", bound="string data of <= 3 bytes of valid UTF-8 (1-, 2- and 3-byte characters); all bounds/offsets full-domain usize"),
            H("strslice_with_bounds_stays_inside", ["C15", "C14", "C06"], "StringSlice::with_bounds, as_str", bound="string data of <= 3 bytes of valid UTF-8 (1-, 2- and 3-byte characters); all bounds/offsets full-domain usize"),
            H("strslice_split_stays_inside", ["C15", "C06"], "StringSlice::split, as_str", bound="string data of <= 3 bytes of valid UTF-8 (1-, 2- and 3-byte characters); all bounds/offsets full-domain usize"),
            H("strslice_u16_conversion", ["C15"], "StringSlice::try_convert, as_str", bound="string data of <= 3 bytes of valid UTF-8 (1-, 2- and 3-byte characters); all bounds/offsets full-domain usize"),
            H("strslice4_new_validates", ["C15", "C06"], "StringSlice::<usize>::new, as_str", bound="string data of <= 4 bytes of valid UTF-8 (1- to 4-byte characters); all bounds/offsets full-domain usize", thorough_only=True),
            H("strslice4_with_bounds_stays_inside", ["C15", "C14", "C06"], "StringSlice::with_bounds, as_str", bound="string data of <= 4 bytes of valid UTF-8 (1- to 4-byte characters); all bounds/offsets full-domain usize", thorough_only=True),
            H("strslice4_split_stays_inside", ["C15", "C06"], "StringSlice::split, as_str", bound="string data of <= 4 bytes of valid UTF-8 (1- to 4-byte characters); all bounds/offsets full-domain usize", thorough_only=True),
        ],
    },
    "K-varint": {
        "timeout_quick": 300,
        "timeout_thorough": 900,
        "assumptions": [
            "K-varint: the decoders are the bodies of the function-local macros get_var_u32! / get_var_u32_with_first_byte! of InstructionReader::next, extracted on every run by rule R9 (engine/macrofn.py: `self.ip` -> `*ip`, the out-of-bounds error return -> `return None`, value wrapped in Some) into kani/src/generated.rs; the 100-arm dispatch around them (which operand is decoded for which op) is not verified",
            "K-varint: a MALFORMED operand with more than 5 continuation bytes shifts by >= 32 (debug panic): outside C05/C06, which quantify over compiler output (K-emit: push_var_u32 emits <= 5 bytes)",
        ],
        "harnesses": [
            H("varint_roundtrip", ["C05", "C06"], "get_var_u32!, get_var_u32_with_first_byte! (InstructionReader::next) against Compiler::push_var_u32"),
            H("varint_truncated_is_an_error", ["C05", "C06"], "get_var_u32!, get_var_u32_with_first_byte!"),
        ],
    },
}
