"""V-bytecursor: ByteIterator (crates/runtime/src/types/iterator.rs), the bidirectional cursor over a byte
buffer (`stdout_bytes()` / `stderr_bytes()` of os.command): C13 "reversing a bidirectional source yields
exactly its forward sequence backwards", with the SAME next / next_back contracts as the list, tuple
and map cursors of V-cursors (imported).

Contracts only. Function bodies come from /repo at run time.
"""
from engine.unit import Fn, Raw, Type, Unit
from contracts import v_cursors as vc

F = "crates/runtime/src/types/iterator.rs"
P = ("C13", "C06")

PRELUDE = r"""
global size_of usize == 8;   // assumption: 64-bit target
#[verifier::external_body] struct KIteratorOutput { _p: u8 }
// the shared, immutable byte buffer (Ptr<[u8]>)
#[verifier::external_body] struct Bytes { _p: u8 }
impl Bytes {
    uninterp spec fn view(&self) -> Seq<u8>;
    #[verifier::external_body] fn len(&self) -> (r: usize) ensures r == self@.len() { unimplemented!() }
    // `(self.bytes)[i]` (Index on the slice: panics out of bounds), rule R5
    #[verifier::external_body] fn at_index(&self, i: usize) -> (r: u8) requires i < self@.len() ensures r == self@[i as int] { unimplemented!() }   // @byte_index_in_bounds
}
uninterp spec fn output_of(b: u8) -> KIteratorOutput;
// `result.into()` (u8 -> KIteratorOutput::Value(Number)), rule R5
#[verifier::external_body] fn byte_into_output(b: u8) -> (r: KIteratorOutput) ensures r == output_of(b) { unimplemented!() }
struct ByteIterator { bytes: Bytes, index: usize, end: usize }
"""

SPECS = r"""
    // what position i of the buffer yields
    spec fn at(&self, i: int) -> Option<KIteratorOutput> { if 0 <= i < self.bytes@.len() { Some(output_of(self.bytes@[i])) } else { None } }
    spec fn wf(&self) -> bool { self.index <= self.end && self.end <= self.bytes@.len() }
    spec fn remaining(&self) -> Seq<int> { Seq::new((self.end - self.index) as nat, |k: int| self.index + k) }
"""

SUBST = [("Option<Self::Item>", "Option<KIteratorOutput>", None),
         (r"\(self\.bytes\)\[(.*?)\]", r"self.bytes.at_index(\1)", None, "re"),
         ("Some(result.into())", "Some(byte_into_output(result))", None)]

UNIT = Unit(
    name="V-bytecursor",
    prelude=PRELUDE,
    items=[
        Raw(SPECS, impl_of="impl ByteIterator"),
        Fn(F, "impl ByteIterator :: fn new", props=P,
           subst=[("bytes: Ptr<[u8]>", "bytes: Bytes", None)],
           spec=r"""
    ensures r.wf() && r.index == 0 && r.end == bytes@.len() && r.bytes == bytes,
"""),
        Fn(F, "impl Iterator for ByteIterator :: fn next", props=P, impl_as="impl ByteIterator", spec=vc.NEXT + "        final(self).bytes == old(self).bytes,\n", subst=SUBST),
        Fn(F, "impl KotoIterator for ByteIterator :: fn next_back", props=P, impl_as="impl ByteIterator", spec=vc.NEXT_BACK + "        final(self).bytes == old(self).bytes,\n", subst=SUBST),
        Fn(F, "impl Iterator for ByteIterator :: fn size_hint", props=P, impl_as="impl ByteIterator",
           spec=r"""
    requires self.wf(),
    ensures r.1 == Some(r.0),
            // (the remaining count: end - index would be exact; `len - index` over-reports once the
            // back has been consumed - a hint, not part of C13)
            r.0 >= self.end - self.index,                                                             // @never_under_reports
"""),
    ],
    epilogue=r"""
// ---- vacuity guard: MUST FAIL
proof fn canary_bytecursor(it: ByteIterator) requires it.wf(), it.end > it.index + 1 ensures false {}
""",
    canaries=("canary_bytecursor",),
)
