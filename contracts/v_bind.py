"""V-bind: run-time argument binding (crates/runtime/src/vm.rs apply_optional_arguments,
apply_variadic_arguments, apply_captures; function.rs KFunction::expected_arg_count).

Contracts only. Function bodies come from /repo at run time.
"""
from engine.unit import Fn, Raw, Type, Unit

VM = "crates/runtime/src/vm.rs"
FUN = "crates/runtime/src/types/function.rs"
P = ("C02", "C06")

PRELUDE = r"""
global size_of usize == 8;   // assumption: 64-bit target

// ---- shims (assumptions)
#[verifier::external_body] struct Opaque { _p: u8 }
// a tuple value: opaque, with the sequence of its elements as ghost view
#[verifier::external_body] struct KTuple { _p: u8 }
impl KTuple {
    uninterp spec fn elems(&self) -> Seq<KValue>;
    // `KTuple::default()`: the empty tuple
    #[verifier::external_body]
    fn default() -> (r: KTuple) ensures r.elems().len() == 0 { unimplemented!() }
}
enum KValue { Null, Tuple(KTuple), Other(Opaque) }
impl Clone for KValue {
    #[verifier::external_body]
    fn clone(&self) -> (r: Self) ensures r == *self { unimplemented!() }
}
// `KTuple::from(&registers[a..b])` (rule R5): slicing panics unless a <= b <= len
#[verifier::external_body]
fn tuple_from_registers(registers: &Vec<KValue>, a: usize, b: usize) -> (r: KTuple)
    requires a <= b <= registers@.len(),
    ensures r.elems() == registers@.subrange(a as int, b as int),
{ unimplemented!() }

// the capture list of a function (a KList): default values of optional arguments come first,
// then the captured variables
#[verifier::external_body] struct KList { _p: u8 }
impl KList {
    uninterp spec fn elems(&self) -> Seq<KValue>;
    #[verifier::external_body]
    fn len(&self) -> (r: usize) ensures r == self.elems().len() { unimplemented!() }
}
// `registers.extend(captures.data().iter().skip(S).take(T).cloned())` (rule R5): std's
// skip/take/cloned/extend, assumed from their documentation; S and T are the real expressions
#[verifier::external_body]
fn extend_from_captures(registers: &mut Vec<KValue>, captures: &KList, skip: usize, take: usize)
    ensures ({ let c = captures.elems(); let a = if skip <= c.len() { skip as int } else { c.len() as int };
               let b = if a + take <= c.len() { a + take } else { c.len() as int };
               final(registers)@ == old(registers)@ + c.subrange(a, b) }),
{ unimplemented!() }
// the same without `.take()`
#[verifier::external_body]
fn extend_from_captures_rest(registers: &mut Vec<KValue>, captures: &KList, skip: usize)
    ensures ({ let c = captures.elems(); let a = if skip <= c.len() { skip as int } else { c.len() as int };
               final(registers)@ == old(registers)@ + c.subrange(a, c.len() as int) }),
{ unimplemented!() }

#[verifier::external_body] struct Error { _p: u8 }
impl Error {
    uninterp spec fn insufficient(&self) -> bool;
    uninterp spec fn too_many(&self) -> bool;
    uninterp spec fn unexpected(&self) -> bool;
}
type Result<T> = core::result::Result<T, Error>;
// the three `runtime_error!(ErrorKind::..)` sites (rule R5)
#[verifier::external_body]
fn error_insufficient_arguments<T>(expected: u8, actual: u8) -> (r: Result<T>) ensures r matches Err(e) && e.insufficient() && !e.too_many() && !e.unexpected() { unimplemented!() }
#[verifier::external_body]
fn error_too_many_arguments<T>(expected: u8, actual: u8) -> (r: Result<T>) ensures r matches Err(e) && e.too_many() && !e.insufficient() { unimplemented!() }
#[verifier::external_body]
fn error_unexpected<T>() -> (r: Result<T>) ensures r matches Err(e) && e.unexpected() && !e.insufficient() && !e.too_many() { unimplemented!() }

#[derive(Clone, Copy)]
struct FunctionFlags { variadic: bool }
impl FunctionFlags {
    // assumed: reads the VARIADIC bit (instruction.rs)
    #[verifier::external_body]
    fn is_variadic(self) -> (r: bool) ensures r == self.variadic { unimplemented!() }
}
// KFunction: the fields the binding code reads; `captures()` goes through the shared context
struct KFunction { arg_count: u8, optional_arg_count: u8, flags: FunctionFlags, context: Option<KList> }
impl KFunction {
    spec fn caps(&self) -> Option<KList> { self.context }
    #[verifier::external_body]
    fn captures(&self) -> (r: Option<&KList>)
        ensures (r is Some) == (self.context is Some), r matches Some(c) ==> *c == self.context->0,
    { unimplemented!() }
    // well-formed functions (compiler invariant): the optional arguments are among the non-variadic ones
    spec fn wf(&self) -> bool {
        &&& self.optional_arg_count <= self.arg_count
        &&& (self.flags.variadic ==> self.arg_count >= 1 && self.optional_arg_count <= self.arg_count - 1)
        // compile_function stores one default value per optional argument at the front of the capture list
        // (the run-time check only compares the capture count with the number of defaults NEEDED)
        &&& (self.context matches Some(c) ==> c.elems().len() >= self.optional_arg_count)
    }
    spec fn expected(&self) -> int { if self.flags.variadic { self.arg_count - 1 } else { self.arg_count as int } }
}
"""

UNIT = Unit(
    name="V-bind",
    prelude=PRELUDE,
    items=[
        Type(VM, "struct CallInfo"),
        Fn(FUN, "impl KFunction :: fn expected_arg_count", props=P,
           subst=[("debug_assert!(self.arg_count > 0);", "assert(self.arg_count > 0);", 1)],
           spec=r"""
    requires self.wf(),
    ensures r as int == self.expected(),        // @variadic_parameter_not_counted
"""),
        Fn(VM, "fn apply_optional_arguments", props=P,
           subst=[
               ("""return runtime_error!(ErrorKind::InsufficientArguments {
                expected: f.arg_count - f.optional_arg_count,
                actual: call_arg_count,
            });""", "return error_insufficient_arguments(f.arg_count - f.optional_arg_count, call_arg_count);", 1),
               ("return runtime_error!(ErrorKind::UnexpectedError);", "return error_unexpected();", 2),
               # the skip/take ARGUMENTS are kept verbatim (regex groups), only the iterator plumbing is replaced
               (r"registers\.extend\(\s*captures\s*\.data\(\)\s*\.iter\(\)\s*\.skip\((.*?)\)\s*\.take\((.*?)\)\s*\.cloned\(\),?\s*\);", r"extend_from_captures(registers, captures, \1, \2);", 1, "re"),
           ],
           spec=r"""
    requires f.wf(),
    ensures
        // C02: "too few arguments reported as an error": exactly when more defaults are needed than exist
        (r matches Err(e) && e.insufficient()) <==> (call_arg_count < expected_arg_count && expected_arg_count - call_arg_count > f.optional_arg_count),   // @too_few_is_an_error
        r is Err ==> final(registers)@ == old(registers)@,                                             // @error_leaves_registers
        // enough arguments: nothing is added
        r is Ok && call_arg_count >= expected_arg_count ==> final(registers)@ == old(registers)@,      // @nothing_added_when_complete
        // missing trailing arguments take THEIR default values: default i belongs to optional argument i,
        // and the optional arguments are the last ones, so the d missing ones take the last d defaults
        r is Ok && call_arg_count < expected_arg_count ==> ({
            let d = expected_arg_count - call_arg_count; let c = f.context->0.elems();
            &&& f.context is Some
            &&& final(registers)@ == old(registers)@ + c.subrange(f.optional_arg_count - d, f.optional_arg_count as int) }),   // @last_defaults_fill_missing_args
"""),
        Fn(VM, "fn apply_variadic_arguments", props=P,
           subst=[
               ("KTuple::from(&registers[varargs_start..varargs_start + varargs_count])", "tuple_from_registers(registers, varargs_start, varargs_start + varargs_count)", 1),
               ("""return runtime_error!(ErrorKind::TooManyArguments {
            expected: expected_arg_count,
            actual: call_info.arg_count
        });""", "return error_too_many_arguments(expected_arg_count, call_info.arg_count);", 1),
           ],
           spec=r"""
    requires
        // call_koto_function truncated the stack to the call arguments and applied the defaults:
        // the arguments start at arg_base_index and there are max(arg_count, expected) of them
        arg_base_index + (if call_info.arg_count >= expected_arg_count { call_info.arg_count } else { expected_arg_count }) == old(registers)@.len(),
        old(registers)@.len() < 0x4000_0000_0000_0000,
    ensures
        // C02: "too many arguments reported as an error" (only without a variadic parameter)
        r is Err <==> (!f.flags.variadic && call_info.arg_count > expected_arg_count),                  // @too_many_is_an_error
        r matches Err(e) ==> e.too_many() && final(registers)@ == old(registers)@,                     // @error_leaves_registers
        r is Ok && !f.flags.variadic ==> final(registers)@ == old(registers)@,                         // @non_variadic_untouched
        // the extra arguments are moved into ONE tuple placed right after the expected arguments
        r is Ok && f.flags.variadic ==> ({
            let start = arg_base_index + expected_arg_count;
            &&& final(registers)@.len() == start + 1
            &&& final(registers)@.subrange(0, start) == old(registers)@.subrange(0, start)             // @expected_args_kept
            &&& final(registers)@[start] matches KValue::Tuple(t) && t.elems() == old(registers)@.subrange(start, old(registers)@.len() as int) }),   // @extras_in_one_tuple_in_order
"""),
        Fn(VM, "fn apply_captures", props=P,
           subst=[
               (r"registers\.extend\(\s*captures\s*\.data\(\)\s*\.iter\(\)\s*\.skip\((.*?)\)\s*\.cloned\(\),?\s*\);", r"extend_from_captures_rest(registers, captures, \1);", 1, "re"),
           ],
           spec=r"""
    ensures
        // the captured variables (everything after the default values) follow the arguments, in order
        f.context is None ==> final(registers)@ == old(registers)@,                                     // @no_captures_nothing_added
        f.context matches Some(c) ==> final(registers)@ == old(registers)@ + c.elems().subrange(
            if f.optional_arg_count <= c.elems().len() { f.optional_arg_count as int } else { c.elems().len() as int }, c.elems().len() as int),   // @captures_follow_args_in_order
"""),
    ],
    epilogue=r"""
// ---- vacuity guard: MUST FAIL
proof fn canary_bind(f: KFunction) requires f.wf(), f.flags.variadic, f.optional_arg_count > 0 ensures false {}
""",
    canaries=("canary_bind",),
)
