"""V-objdefaults: derived comparison operators of the host object interface
(crates/runtime/src/types/object.rs, default methods of trait KotoObject).

Contracts only. Function bodies come from /repo at run time.
"""
from engine.unit import Fn, Raw, Type, Unit

F = "crates/runtime/src/types/object.rs"
P = ("C17", "C06")
TRAIT = "trait KotoObject: KotoType + KotoCopy + KotoAccess + KotoSend + KotoSync + Any"

PRELUDE = r"""
// ---- shims (assumptions)
#[verifier::external_body] struct KValue { _p: u8 }
#[verifier::external_body] struct KString { _p: u8 }
#[verifier::external_body] struct Error { _p: u8 }
impl Error {
    // "this operation is not implemented by the object" (koto.unimplemented)
    uninterp spec fn unimplemented(&self) -> bool;
    // which operator an unimplemented error names
    uninterp spec fn op_name(&self) -> Seq<char>;
    #[verifier::external_body]
    fn is_unimplemented_error(&self) -> (r: bool) ensures r == self.unimplemented() { unimplemented!() }
}
type Result<T> = core::result::Result<T, Error>;
// error.rs unimplemented_error(op, type): assumed to build an unimplemented error naming `op`
#[verifier::external_body]
fn unimplemented_error<T>(op: &str, type_string: KString) -> (r: Result<T>)
    ensures r matches Err(e) && e.unimplemented() && e.op_name() == op@
{ unimplemented!() }

// a host object: what its own `less` / `equal` answer is uninterpreted (any implementation)
struct Obj { id: u64 }
impl Obj {
    uninterp spec fn less_answer(&self, other: &KValue) -> Result<bool>;
    uninterp spec fn equal_answer(&self, other: &KValue) -> Result<bool>;
    #[verifier::external_body]
    fn less(&self, other: &KValue) -> (r: Result<bool>) ensures r == self.less_answer(other) { unimplemented!() }
    #[verifier::external_body]
    fn equal(&self, other: &KValue) -> (r: Result<bool>) ensures r == self.equal_answer(other) { unimplemented!() }
    #[verifier::external_body]
    fn type_string(&self) -> KString { unimplemented!() }

}

// ---- the documented derivations (C17: "missing !=, <=, >, >= are derived from @== / @<"; an
// operator the object does not implement is reported as an error naming THAT operator; any other
// error is passed on unchanged)
spec fn own_unimplemented(r: Result<bool>, name: Seq<char>) -> bool {
    match r { Err(e) => e.unimplemented() && e.op_name() == name, Ok(_) => false }
}
spec fn passes_on(r: Result<bool>, src: Result<bool>, name: Seq<char>) -> bool {
    match src { Err(e) => if e.unimplemented() { own_unimplemented(r, name) } else { r == src }, Ok(_) => true }
}
spec fn le_spec(l: Result<bool>, e: Result<bool>, r: Result<bool>) -> bool {
    match l {
        Ok(lt) => if lt { r == Ok::<bool, Error>(true) } else { match e { Ok(eq) => r == Ok::<bool, Error>(eq), Err(_) => passes_on(r, e, "@<="@) } },
        Err(_) => passes_on(r, l, "@<="@),
    }
}
spec fn gt_spec(l: Result<bool>, e: Result<bool>, r: Result<bool>) -> bool {
    match l {
        Ok(lt) => if lt { r == Ok::<bool, Error>(false) } else { match e { Ok(eq) => r == Ok::<bool, Error>(!eq), Err(_) => passes_on(r, e, "@>"@) } },
        Err(_) => passes_on(r, l, "@>"@),
    }
}
spec fn ge_spec(l: Result<bool>, r: Result<bool>) -> bool {
    match l { Ok(lt) => r == Ok::<bool, Error>(!lt), Err(_) => passes_on(r, l, "@>="@) }
}
spec fn ne_spec(e: Result<bool>, r: Result<bool>) -> bool {
    match e { Ok(eq) => r == Ok::<bool, Error>(!eq), Err(_) => passes_on(r, e, "@!="@) }
}
"""


UNIT = Unit(
    name="V-objdefaults",
    prelude=PRELUDE,
    items=[
        Fn(F, [TRAIT, "fn less_or_equal"], props=P, impl_as="impl Obj", spec=r"""
    ensures le_spec(self.less_answer(other), self.equal_answer(other), r),     // @le_is_less_or_equal
"""),
        Fn(F, [TRAIT, "fn greater"], props=P, impl_as="impl Obj", spec=r"""
    ensures gt_spec(self.less_answer(other), self.equal_answer(other), r),     // @gt_is_neither_less_nor_equal
"""),
        Fn(F, [TRAIT, "fn greater_or_equal"], props=P, impl_as="impl Obj", spec=r"""
    ensures ge_spec(self.less_answer(other), r),                               // @ge_is_not_less
"""),
        Fn(F, [TRAIT, "fn not_equal"], props=P, impl_as="impl Obj", spec=r"""
    ensures ne_spec(self.equal_answer(other), r),                              // @ne_is_not_equal
"""),
    ],
    epilogue=r"""
// ---- vacuity guard: MUST FAIL
proof fn canary_obj(o: Obj, v: KValue) requires o.less_answer(&v) is Ok, o.equal_answer(&v) is Ok ensures false {}
""",
    canaries=("canary_obj",),
)
