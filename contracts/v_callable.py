"""V-callable: KotoVm::call_callable (crates/runtime/src/vm.rs), the one place where every call - the
`Call` instruction, operator metakeys, host-initiated calls - is dispatched by the kind of the callable.

V-vmproto ASSUMES `call_post` about it. This unit PROVES `call_post` for the real function from its
callees: call_koto_function (real text, proved here again against its V-vmproto contract), and assumed
contracts for unpack_packed_arguments, call_generator and call_native_function. It also proves the call
protocol of C17 / C02: a map with @call is called through that function with the MAP as instance, and its
arguments are not unpacked a second time (finding F23).

It shares V-vmproto's prelude, type declarations and spec functions (imported, not copied). Assumed
here beyond V-vmproto's stub (bytecode well-formedness, C05): the frame base and the call's arguments are
registers that exist, the frame base is below 255, the frame's announced registers exist.

Contracts only. Function bodies come from /repo at run time.
"""
import re

from engine.unit import Fn, Raw, Type, Unit
from contracts import v_vmproto as vp

F = "crates/runtime/src/vm.rs"
P = ("C02", "C07", "C17", "C06")

PRELUDE = vp.PRELUDE.replace("enum KValue { Null, Bool(bool), Str(KString), Map(KMap), Other(Opaque) }",
                             "#[verifier::external_body] struct KNativeFunction { _p: u8 }\n#[verifier::external_body] struct KObject { _p: u8 }\n"
                             "enum KValue { Null, Bool(bool), Str(KString), Map(KMap), Function(KFunction), NativeFunction(KNativeFunction), Object(KObject), Other(Opaque) }\n"
                             "enum ExternalCallable { Function(KNativeFunction), Object(KObject) }")
assert "NativeFunction(KNativeFunction)" in PRELUDE
PRELUDE += r"""
#[verifier::external_body]
fn unexpected_type_not_callable<T>() -> (r: Result<T>) ensures r is Err { unimplemented!() }
// `&MetaKey::Call` (rule R5)
uninterp spec fn call_key() -> MetaKey;
#[verifier::external_body]
fn meta_key_call() -> (r: MetaKey) ensures r == call_key() { unimplemented!() }
"""

m = re.search(r"    #\[verifier::external_body\]\n    fn call_callable\(.*?\{ unimplemented!\(\) \}\n", vp.VM_SPECS, re.S)
assert m
VM_SPECS = vp.VM_SPECS[:m.start()] + vp.VM_SPECS[m.end():]
VM_SPECS += r"""
    // ---- callees of call_callable (assumed)
    // unpacks `args...`: moves values inside the call's argument registers (at or above the frame base);
    // afterwards the call has plain arguments only (F23)
    #[verifier::external_body]
    fn unpack_packed_arguments(&mut self, info: &mut CallInfo) -> (r: Result<()>)
        requires old(self).wf(),
        ensures final(self).same_but_registers(old(self)), final(self).cur_chunk() == old(self).cur_chunk(),
                final(self).registers@.len() > old(self).register_base + old(info).frame_base as int,
                final(self).registers@.len() < old(self).registers@.len() + 0x1000,
                old(info).packed_arg_count == 0 ==> final(self).registers@ == old(self).registers@ && final(info).arg_count == old(info).arg_count,
                old(self).registers@.len() >= old(self).min_frame_registers ==> final(self).registers@.len() >= final(self).min_frame_registers,
                final(info).frame_base == old(info).frame_base, final(info).result_register == old(info).result_register, final(info).instance == old(info).instance,
                r is Ok ==> final(info).packed_arg_count == 0,
                r is Ok ==> final(self).register_base + final(info).frame_base as int + 1 + final(info).arg_count as int <= final(self).registers@.len(),
    { unimplemented!() }
    // a generator call makes the iterator at once: no frame; the call's registers may be dropped
    #[verifier::external_body]
    fn call_generator(&mut self, info: &CallInfo, f: &KFunction) -> (r: Result<()>)
        requires old(self).wf(),
        ensures Self::call_post(old(self), final(self), r is Ok, info.frame_base), final(self).call_stack@.len() == old(self).call_stack@.len(),
    { unimplemented!() }
    // a native call runs at once: no frame; when done it drops the call's registers (truncates to the
    // frame base) and makes sure the frame's announced registers exist
    #[verifier::external_body]
    fn call_native_function(&mut self, info: &CallInfo, callable: ExternalCallable) -> (r: Result<()>)
        requires old(self).wf(),
        ensures Self::call_post(old(self), final(self), r is Ok, info.frame_base), final(self).call_stack@.len() == old(self).call_stack@.len(),
    { unimplemented!() }
    // the last call that was dispatched to a Koto function / generator / native function (ghost log)
    uninterp spec fn reg_at(&self, register: u8) -> KValue;
"""

KEEP = {"frame", "frame_mut", "push_frame", "register_index", "call_koto_function", "truncate_registers", "next_register", "new"}
items = []
for it in vp.UNIT.items:
    if isinstance(it, Type):
        items.append(it)
    elif isinstance(it, Raw):
        if it.text == vp.VM_SPECS:
            items.append(Raw(VM_SPECS, impl_of=it.impl_of))
        else:
            items.append(it)
    elif isinstance(it, Fn) and it.name in KEEP and not it.fragment:
        items.append(it)

items.append(
    Fn(F, "impl KotoVm :: fn call_callable", props=P,
       attrs=("verifier::exec_allows_no_decreases_clause",),   # a chain of @call maps is finite in a well-formed program; termination is not claimed
       subst=[(r"&MetaKey::Call\b", "&meta_key_call()", None, "re"),
              # the final arm only builds the error from the value it binds; without the binding rule R10 applies
              ('unexpected => unexpected_type("callable function", &unexpected)', "_ => unexpected_type_not_callable()", None)],
       final_guards=1,
       tail_proof=("match callable {", """proof {
    // the conjuncts of call_post, one by one (instantiation hints; each is checked)
    let o = old(self); let f = self; let n = o.call_stack@.len() as int; let fb = info.frame_base;
    assert(f.wf());
    assert(f.registers@.len() >= o.register_base + fb as int);
    assert(r__tail is Ok && f.call_stack@.len() == n && o.registers@.len() >= o.min_frame_registers ==> f.registers@.len() >= f.min_frame_registers);
    assert(forall|i: int| 0 <= i < n - 1 ==> #[trigger] f.call_stack@[i] == o.call_stack@[i]);
    assert(n > 0 ==> f.call_stack@.len() >= n && Self::frame_equiv(f.call_stack@[n - 1], o.call_stack@[n - 1]));
    assert(Self::call_post(old(self), self, r__tail is Ok, info.frame_base));   // @call_post
}"""),
       spec=r"""
    requires
        old(self).wf(),
        // ASSUMED (bytecode well-formedness / the call sites in vm.rs): the frame base register and the
        // call's arguments exist, register 255 is never a frame base, the frame's own registers exist
        info.frame_base < 255,
        old(self).register_base + info.frame_base as int + 1 + info.arg_count as int <= old(self).registers@.len(),
        old(self).registers@.len() >= old(self).min_frame_registers,
        // memory bound (assumption); unpacking may add up to 0x1000 registers, and the forwarded call of a
        // callable map has nothing left to unpack
        old(self).registers@.len() < 0x1000_0000_0000_0000 + (if info.packed_arg_count == 0 { 0x1000int } else { 0int }),
    ensures
        // exactly what V-vmproto assumes about this function
        Self::call_post(old(self), final(self), r is Ok, info.frame_base),                                  // @call_post
"""))

UNIT = Unit(
    name="V-callable",
    prelude=PRELUDE,
    items=items,
    epilogue=vp.UNIT.epilogue,
    canaries=vp.UNIT.canaries,
)
