"""V-equal: `==` and `!=` (crates/runtime/src/vm.rs run_equal, run_not_equal) over the REAL KValue enum
declaration: C14's "`==` compares structurally ... `!=` is its negation", C17's "missing `!=` is derived
from `@==`".

Element-wise comparison of containers (compare_value_ranges / compare_value_maps / compare_functions,
which call back into run_equal through the host-level run_binary_op) is assumed as an uninterpreted
outcome of the two operands; what is proved is the dispatch: which comparison each pair of kinds gets,
that `!=` gives the negated answer for EVERY pair that `==` answers itself, when a metakey function is
called and with what, and that values of different kinds are unequal.

Contracts only. Function bodies come from /repo at run time.
"""
from engine.unit import Fn, Raw, Type, Unit

F = "crates/runtime/src/vm.rs"
M = "crates/runtime/src/types/meta_map.rs"
VAL = "crates/runtime/src/types/value.rs"
P = ("C14", "C17", "C06")

PRELUDE = r"""
global size_of usize == 8;   // assumption: 64-bit target
// ---- shims (assumptions): the payload types of KValue
#[verifier::external_body] pub struct KNumber { _p: u8 }
#[verifier::external_body] pub struct KRange { _p: u8 }
#[verifier::external_body] pub struct KList { _p: u8 }
#[verifier::external_body] pub struct KTuple { _p: u8 }
#[verifier::external_body] pub struct KMap { _p: u8 }
#[verifier::external_body] pub struct KString { _p: u8 }
#[verifier::external_body] pub struct KFunction { _p: u8 }
#[verifier::external_body] pub struct KNativeFunction { _p: u8 }
#[verifier::external_body] pub struct KIterator { _p: u8 }
#[verifier::external_body] pub struct KObject { _p: u8 }
#[verifier::external_body] pub struct ObjectRef { _p: u8 }
#[verifier::external_body] pub struct RegisterSlice { _p: u8 }
#[verifier::external_body] pub struct ListDataRef { _p: u8 }
#[verifier::external_body] pub struct Error { _p: u8 }
pub type Result<T> = core::result::Result<T, Error>;
impl Clone for KList { #[verifier::external_body] fn clone(&self) -> (r: Self) ensures r == *self { unimplemented!() } }
impl Clone for KTuple { #[verifier::external_body] fn clone(&self) -> (r: Self) ensures r == *self { unimplemented!() } }
impl Clone for KMap { #[verifier::external_body] fn clone(&self) -> (r: Self) ensures r == *self { unimplemented!() } }
impl Clone for KFunction { #[verifier::external_body] fn clone(&self) -> (r: Self) ensures r == *self { unimplemented!() } }

pub enum MetaKey { BinaryOp(BinaryOp), Other(u8) }
// `&Op.into()` (impl From<BinaryOp> for MetaKey), rule R5
fn meta_key(op: BinaryOp) -> (r: MetaKey) ensures r == MetaKey::BinaryOp(op) { MetaKey::BinaryOp(op) }
impl KMap {
    pub uninterp spec fn meta(&self) -> Map<MetaKey, KValue>;
    #[verifier::external_body]
    fn contains_meta_key(&self, k: &MetaKey) -> (r: bool) ensures r == self.meta().contains_key(*k) { unimplemented!() }
    #[verifier::external_body]
    fn get_meta_value(&self, k: &MetaKey) -> (r: Option<KValue>)
        ensures r == (if self.meta().contains_key(*k) { Some(self.meta()[*k]) } else { None }) { unimplemented!() }
    spec fn op(&self, o: BinaryOp) -> KValue { self.meta()[MetaKey::BinaryOp(o)] }
    spec fn has(&self, o: BinaryOp) -> bool { self.meta().contains_key(MetaKey::BinaryOp(o)) }
}
// `a == b` / `a != b` on the payload types that compare by value (rule R5): KNumber's == is proved in
// K-number, the others are derived / std
pub uninterp spec fn num_eq(a: KNumber, b: KNumber) -> bool;
pub uninterp spec fn str_eq(a: KString, b: KString) -> bool;
pub uninterp spec fn range_eq(a: KRange, b: KRange) -> bool;
#[verifier::external_body] fn prim_eq_Number(a: &KNumber, b: &KNumber) -> (r: bool) ensures r == num_eq(*a, *b) { unimplemented!() }
#[verifier::external_body] fn prim_eq_Str(a: &KString, b: &KString) -> (r: bool) ensures r == str_eq(*a, *b) { unimplemented!() }
#[verifier::external_body] fn prim_eq_Range(a: &KRange, b: &KRange) -> (r: bool) ensures r == range_eq(*a, *b) { unimplemented!() }
fn prim_eq_Bool(a: &bool, b: &bool) -> (r: bool) ensures r == (*a == *b) { *a == *b }
// the elements of a list (behind its RefCell guard) and of a tuple
pub trait Elems { spec fn elems(&self) -> Seq<KValue>; }
impl Elems for ListDataRef { uninterp spec fn elems(&self) -> Seq<KValue>; }
impl Elems for KTuple { uninterp spec fn elems(&self) -> Seq<KValue>; }
impl KList {
    pub uninterp spec fn elems(&self) -> Seq<KValue>;
    #[verifier::external_body] fn data(&self) -> (r: ListDataRef) ensures r.elems() == self.elems() { unimplemented!() }
}
// what comparing two sequences / maps / functions element by element yields (script code may run: @==)
pub uninterp spec fn seq_eq_outcome(a: Seq<KValue>, b: Seq<KValue>) -> Result<bool>;
pub uninterp spec fn map_eq_outcome(a: KMap, b: KMap) -> Result<bool>;
pub uninterp spec fn fn_eq_outcome(a: KFunction, b: KFunction) -> Result<bool>;
// what the metakey function `op` says for (lhs, rhs): script code
pub uninterp spec fn op_says(lhs: KValue, rhs: KValue, op: KValue) -> bool;
// host objects: V-objdefaults' territory
impl KObject { #[verifier::external_body] fn try_borrow(&self) -> Result<ObjectRef> { unimplemented!() } }
impl ObjectRef {
    #[verifier::external_body] fn equal(&self, rhs: &KValue) -> Result<bool> { unimplemented!() }
    #[verifier::external_body] fn not_equal(&self, rhs: &KValue) -> Result<bool> { unimplemented!() }
}
pub struct Call { pub result: Option<u8>, pub instance: KValue, pub arg: KValue, pub op: KValue }
pub struct KotoVm { pub calls: Ghost<Seq<Call>> }
"""

AFTER_ENUM = r"""
impl Clone for KValue { #[verifier::external_body] fn clone(&self) -> (r: Self) ensures r == *self { unimplemented!() } }
// `result_value.into()` (impl From<bool> for KValue), rule R5
fn bool_into_value(b: bool) -> (r: KValue) ensures r == KValue::Bool(b) { KValue::Bool(b) }

// C14: what `lhs == rhs` is when no metakey function and no host object has a say
spec fn structural(l: KValue, r: KValue) -> Result<bool> {
    match (l, r) {
        (KValue::Null, KValue::Null) => Ok(true),
        (KValue::Null, _) => Ok(false),
        (_, KValue::Null) => Ok(false),
        (KValue::Number(a), KValue::Number(b)) => Ok(num_eq(a, b)),
        (KValue::Bool(a), KValue::Bool(b)) => Ok(a == b),
        (KValue::Str(a), KValue::Str(b)) => Ok(str_eq(a, b)),
        (KValue::Range(a), KValue::Range(b)) => Ok(range_eq(a, b)),
        (KValue::List(a), KValue::List(b)) => seq_eq_outcome(a.elems(), b.elems()),
        (KValue::Tuple(a), KValue::Tuple(b)) => seq_eq_outcome(a.elems(), b.elems()),
        (KValue::Map(a), KValue::Map(b)) => map_eq_outcome(a, b),
        (KValue::Function(a), KValue::Function(b)) => fn_eq_outcome(a, b),
        // values of different kinds are different
        _ => Ok(false),
    }
}
// the left operand is a map whose metamap has `op`, and the right operand is not null (null is compared
// before any metakey is looked at)
spec fn overridden(l: KValue, r: KValue, op: BinaryOp) -> bool { !(r is Null) && (l matches KValue::Map(m) && m.has(op)) }
"""

VM_SPECS = r"""
    pub uninterp spec fn reg(&self, r: u8) -> KValue;
    #[verifier::external_body]
    fn get_register(&self, r: u8) -> (v: &KValue) ensures *v == self.reg(r) { unimplemented!() }
    #[verifier::external_body]
    fn set_register(&mut self, r: u8, v: KValue) ensures final(self).reg(r) == v, final(self).calls == old(self).calls { unimplemented!() }
    #[verifier::external_body]
    fn compare_value_ranges<A: Elems, B: Elems>(&mut self, a: &A, b: &B) -> (r: Result<bool>)
        ensures r == seq_eq_outcome(a.elems(), b.elems()), final(self).calls == old(self).calls { unimplemented!() }
    #[verifier::external_body]
    fn compare_value_maps(&mut self, a: KMap, b: KMap) -> (r: Result<bool>) ensures r == map_eq_outcome(a, b), final(self).calls == old(self).calls { unimplemented!() }
    #[verifier::external_body]
    fn compare_functions(&mut self, a: KFunction, b: KFunction) -> (r: Result<bool>) ensures r == fn_eq_outcome(a, b), final(self).calls == old(self).calls { unimplemented!() }
    // assumed: sets up the call `op(instance, arg)` whose result goes to `result`; logged
    #[verifier::external_body]
    fn call_overridden_op_2(&mut self, result: Option<u8>, instance: KValue, arg: KValue, op: KValue) -> (r: Result<()>)
        ensures r is Ok ==> final(self).calls@ == old(self).calls@.push(Call { result, instance, arg, op }) { unimplemented!() }
    // PROVED in V-vmproto (frames and registers); here: the Bool the metakey function answers
    #[verifier::external_body]
    fn run_overridden_comparison_op(&mut self, lhs: KValue, rhs: KValue, op: KValue) -> (r: Result<bool>)
        ensures r matches Ok(b) ==> b == op_says(lhs, rhs, op), final(self).calls == old(self).calls { unimplemented!() }
"""

MACROS = [("call_metamap_binary_op", F, "mod macros :: macro_rules! call_metamap_binary_op")]
SUBST = [
    ("use macros::*;", "", None),
    (r"&([A-Za-z]+)\.into\(\)", r"&meta_key(\1)", None, "re"),
    (r"\((Number|Bool|Str|Range)\(a\), \1\(b\)\) => a == b", r"(\1(a), \1(b)) => prim_eq_\1(a, b)", None, "re"),
    (r"\((Number|Bool|Str|Range)\(a\), \1\(b\)\) => a != b", r"(\1(a), \1(b)) => !prim_eq_\1(a, b)", None, "re"),
    (r"\bresult_value\.into\(\)", "bool_into_value(result_value)", None, "re"),
]

UNIT = Unit(
    name="V-equal",
    prelude=PRELUDE,
    items=[
        Type(M, "enum BinaryOp", derive="PartialEq, Eq, Clone, Copy"),
        Type(VAL, "enum KValue"),
        Raw(AFTER_ENUM),
        Raw(VM_SPECS, impl_of="impl KotoVm"),
        Fn(F, "impl KotoVm :: fn run_equal", props=P, macros=MACROS, subst=SUBST,
           spec=r"""
    ensures
        // C17: a map with @== (compared with anything but null): that function is called with (lhs, rhs)
        overridden(old(self).reg(lhs), old(self).reg(rhs), BinaryOp::Equal) && r is Ok ==>
            final(self).calls@ == old(self).calls@.push(Call { result: Some(result), instance: old(self).reg(lhs), arg: old(self).reg(rhs), op: old(self).reg(lhs)->Map_0.op(BinaryOp::Equal) }),   // @metakey_function_called_with_documented_operands
        // C14: otherwise (host objects aside) `==` is structural: same kind and equal contents
        !overridden(old(self).reg(lhs), old(self).reg(rhs), BinaryOp::Equal) && !(old(self).reg(lhs) is Object && !(old(self).reg(rhs) is Null)) ==>
            (structural(old(self).reg(lhs), old(self).reg(rhs)) matches Ok(b) ==> r is Ok && final(self).reg(result) == KValue::Bool(b) && final(self).calls == old(self).calls),   // @equal_is_structural
        !overridden(old(self).reg(lhs), old(self).reg(rhs), BinaryOp::Equal) && !(old(self).reg(lhs) is Object && !(old(self).reg(rhs) is Null)) ==>
            (structural(old(self).reg(lhs), old(self).reg(rhs)) is Err ==> r is Err),                                                       // @element_comparison_errors_are_passed_on
"""),
        Fn(F, "impl KotoVm :: fn run_not_equal", props=P, macros=MACROS, subst=SUBST,
           spec=r"""
    ensures
        // C17: a map with @!= : that function, with (lhs, rhs)
        overridden(old(self).reg(lhs), old(self).reg(rhs), BinaryOp::NotEqual) && r is Ok ==>
            final(self).calls@ == old(self).calls@.push(Call { result: Some(result), instance: old(self).reg(lhs), arg: old(self).reg(rhs), op: old(self).reg(lhs)->Map_0.op(BinaryOp::NotEqual) }),   // @metakey_function_called_with_documented_operands
        // C17: a missing @!= is derived from @==: not (lhs == rhs), operands in order
        !overridden(old(self).reg(lhs), old(self).reg(rhs), BinaryOp::NotEqual) && overridden(old(self).reg(lhs), old(self).reg(rhs), BinaryOp::Equal) && r is Ok ==>
            final(self).reg(result) == KValue::Bool(!op_says(old(self).reg(lhs), old(self).reg(rhs), old(self).reg(lhs)->Map_0.op(BinaryOp::Equal))),   // @derived_from_equal
        // C14: otherwise (host objects aside) `!=` is the negation of the structural `==`, for EVERY pair of values
        !overridden(old(self).reg(lhs), old(self).reg(rhs), BinaryOp::NotEqual) && !overridden(old(self).reg(lhs), old(self).reg(rhs), BinaryOp::Equal)
          && !(old(self).reg(lhs) is Object && !(old(self).reg(rhs) is Null)) ==>
            (structural(old(self).reg(lhs), old(self).reg(rhs)) matches Ok(b) ==> r is Ok && final(self).reg(result) == KValue::Bool(!b) && final(self).calls == old(self).calls),   // @not_equal_is_the_negation_of_equal
        !overridden(old(self).reg(lhs), old(self).reg(rhs), BinaryOp::NotEqual) && !overridden(old(self).reg(lhs), old(self).reg(rhs), BinaryOp::Equal)
          && !(old(self).reg(lhs) is Object && !(old(self).reg(rhs) is Null)) ==>
            (structural(old(self).reg(lhs), old(self).reg(rhs)) is Err ==> r is Err),                                                       // @element_comparison_errors_are_passed_on
"""),
    ],
    epilogue=r"""
// ---- vacuity guard: MUST FAIL
proof fn canary_equal(a: KList, b: KList) requires structural(KValue::List(a), KValue::List(b)) == Ok::<bool, Error>(true) ensures false {}
""",
    canaries=("canary_equal",),
)
