"""V-frame: register allocator of a compile frame (crates/bytecode/src/frame.rs).

Contracts only. Function bodies come from /repo at run time.
"""
from engine.unit import Fn, Raw, Type, Unit

F = "crates/bytecode/src/frame.rs"
P = ("C01", "C05", "C06")

PRELUDE = r"""
// ---- shims (assumptions): types the extracted text mentions but that live in other crates
#[derive(Clone, Copy, PartialEq, Eq)]
struct ConstantIndex(u32);
#[derive(Clone, Copy, PartialEq, Eq)]
struct AstIndex(u32);
#[verifier::external_body]
struct ExportedIds { _p: core::marker::PhantomData<()> }
// std function outside vstd: assumed total, result unconstrained (the deferred ops are not part of the contract)
pub assume_specification<T: Clone> [<[T]>::to_vec] (s: &[T]) -> (r: Vec<T>)
    ensures r@.len() == s@.len();
"""

FRAME_SPECS = r"""
    // ---- abstraction of the allocator state
    spec fn wf(&self) -> bool {
        &&& self.temporary_base as int + self.temporary_count as int <= 255
        &&& self.temporary_base as int + self.temporaries_used_in_frame as int <= 255
        &&& self.temporaries_used_in_frame >= self.temporary_count
        &&& self.register_stack@.len() == self.temporary_count as int
        &&& forall|i: int| 0 <= i < self.register_stack@.len()
                ==> self.register_stack@[i] as int == self.temporary_base as int + i
    }
    spec fn locals_ok(&self) -> bool {
        self.local_registers@.len() <= self.temporary_base as int
    }
    // what NewFrame announces to the VM
    spec fn used(&self) -> int {
        self.temporary_base as int + self.temporaries_used_in_frame as int
    }
    spec fn names(&self, i: int, id: ConstantIndex) -> bool {
        match self.local_registers@[i] {
            LocalRegister::Assigned(a) => a == id,
            LocalRegister::Reserved(a, _) => a == id,
            LocalRegister::Allocated => false,
        }
    }
    spec fn same_but_stack(&self, o: &Frame) -> bool {
        &&& self.local_registers@ == o.local_registers@
        &&& self.temporary_base == o.temporary_base
        &&& self.loop_stack@ == o.loop_stack@
    }
    spec fn same_state_but_loops(&self, o: &Frame) -> bool {
        &&& self.local_registers@ == o.local_registers@
        &&& self.temporary_base == o.temporary_base
        &&& self.register_stack@ == o.register_stack@
        &&& self.temporary_count == o.temporary_count
        &&& self.temporaries_used_in_frame == o.temporaries_used_in_frame
    }
    // observational equality of everything the allocator owns
    spec fn same_state(&self, o: &Frame) -> bool {
        &&& self.same_but_stack(o)
        &&& self.register_stack@ == o.register_stack@
        &&& self.temporary_count == o.temporary_count
        &&& self.temporaries_used_in_frame == o.temporaries_used_in_frame
    }
"""


GET_SPEC = r"""
    ensures
        match r {
            AssignedOrReserved::Assigned(i) => (i as int) < self.local_registers@.len()
                && self.local_registers@[i as int] == LocalRegister::Assigned(local_name)
                && forall|j: int| 0 <= j < i ==> !self.names(j, local_name),
            AssignedOrReserved::Reserved(i) => (i as int) < self.local_registers@.len()
                && self.names(i as int, local_name)
                && (self.local_registers@[i as int] is Reserved)
                && forall|j: int| 0 <= j < i ==> !self.names(j, local_name),
            AssignedOrReserved::Unassigned =>
                forall|j: int| 0 <= j < self.local_registers@.len() ==> !self.names(j, local_name),
        },
"""

UNIT = Unit(
    name="V-frame",
    prelude=PRELUDE,
    items=[
        Type("crates/lexer/src/span.rs", "struct Position", derive="Clone, Copy, PartialEq, Eq"),
        Type("crates/lexer/src/span.rs", "struct Span", derive="Clone, Copy, PartialEq, Eq"),
        Type(F, "enum FrameError"),
        Type(F, "enum AssignedOrReserved"),
        Type(F, "struct DeferredOp", derive="Clone"),
        Type(F, "struct Loop"),
        Type(F, "enum LocalRegister"),
        Type(F, "struct Frame", subst=[("HashSet<ConstantIndex>", "ExportedIds", 1)]),
        Raw(FRAME_SPECS, impl_of="impl Frame"),
        # `.iter().enumerate()` is outside Verus' subset: assumed contract (listed), body not verified here
        # (the same contract is checked on the real function by the Kani harness frame_get_local, bounded)
        Fn(F, "impl Frame :: fn get_local_assigned_or_reserved_register", props=P, spec=GET_SPEC, external_body=True),
        Fn(
            F,
            "impl Frame :: fn push_register",
            props=P,
            spec=r"""
    requires old(self).wf(),
    ensures
        final(self).wf(),                                                                                         // @wf_preserved
        final(self).same_but_stack(old(self)),                                                                    // @frame
        final(self).used() >= old(self).used(),                                                                   // @used_monotone
        r matches Ok(reg) ==> reg as int == old(self).temporary_base as int + old(self).temporary_count as int,   // @fresh
        r matches Ok(reg) ==> final(self).register_stack@ == old(self).register_stack@.push(reg),                 // @lifo_push
        r matches Ok(reg) ==> !old(self).register_stack@.contains(reg),                                           // @not_live
        r matches Ok(reg) ==> reg >= final(self).temporary_base,                                                  // @not_a_local
        r matches Ok(reg) ==> (reg as int) < final(self).used(),                                                  // @announced_to_vm
        r matches Err(e) ==> e is StackOverflow,                                                                  // @limit_is_error
        r is Err ==> old(self).temporary_base as int + old(self).temporary_count as int == 255,                   // @error_only_at_limit
        r is Err ==> final(self).same_state(old(self)),                                                           // @err_unchanged
""",
        ),
        Fn(
            F,
            "impl Frame :: fn pop_register",
            props=P,
            spec=r"""
    requires old(self).wf(),
    ensures
        final(self).wf(),                                                                                         // @wf_preserved
        final(self).same_but_stack(old(self)),                                                                    // @frame
        final(self).used() == old(self).used(),                                                                   // @used_unchanged
        r is Ok <==> old(self).register_stack@.len() > 0,                                                         // @ok_iff_nonempty
        r matches Ok(reg) ==> reg == old(self).register_stack@.last(),                                            // @lifo_pop
        r is Ok ==> final(self).register_stack@ == old(self).register_stack@.drop_last(),                         // @lifo_rest
        r matches Err(e) ==> e is EmptyRegisterStack,                                                             // @err_kind
        r is Err ==> final(self).same_state(old(self)),                                                           // @err_unchanged
""",
        ),
        Fn(
            F,
            "impl Frame :: fn peek_register",
            props=P,
            spec=r"""
    // precondition taken from the only call site (compile_make_temp_tuple pushes n+1 registers first);
    // for n >= len the subtraction underflows, see DESIGN section 7 (latent, not claimed)
    requires self.wf(), n < self.register_stack@.len(),
    ensures
        r matches Ok(reg) ==> reg == self.register_stack@[self.register_stack@.len() - n - 1],   // @peek_nth_from_top
        r is Ok,                                                                                  // @peek_ok
""",
        ),
        Fn(
            F,
            "impl Frame :: fn truncate_register_stack",
            props=P,
            spec=r"""
    requires old(self).wf(),
    ensures
        final(self).wf(),                                                                         // @wf_preserved
        final(self).same_but_stack(old(self)),                                                    // @frame
        final(self).used() == old(self).used(),                                                   // @used_unchanged
        r is Ok,                                                                                  // @never_errors_when_wf
        old(self).register_stack@.len() > stack_count ==> final(self).register_stack@.len() == stack_count,   // @truncated_len
        old(self).register_stack@.len() <= stack_count ==> final(self).register_stack@.len() == old(self).register_stack@.len(),   // @no_op_when_short
        final(self).register_stack@ == old(self).register_stack@.take(final(self).register_stack@.len() as int),  // @prefix_kept
""",
            loops={
                1: r"""
            invariant
                self.wf(),
                self.same_but_stack(old(self)),
                self.used() == old(self).used(),
                self.register_stack@.len() <= old(self).register_stack@.len(),
                old(self).register_stack@.len() > stack_count ==> self.register_stack@.len() >= stack_count,
                old(self).register_stack@.len() <= stack_count ==> self.register_stack@.len() == old(self).register_stack@.len(),
                self.register_stack@ == old(self).register_stack@.take(self.register_stack@.len() as int),
            decreases self.register_stack@.len(),
"""
            },
        ),
        Fn(
            F,
            "impl Frame :: fn next_temporary_register",
            props=P,
            spec=r"""
    requires self.wf(),
    ensures r as int == self.temporary_base as int + self.temporary_count as int,   // @is_next
            !self.register_stack@.contains(r),                                       // @not_live
""",
        ),
        Fn(
            F,
            "impl Frame :: fn available_registers_count",
            props=P,
            spec=r"""
    requires self.wf(),
    ensures r as int == 255 - (self.temporary_base as int + self.temporary_count as int),   // @available
""",
        ),
        Fn(
            F,
            "impl Frame :: fn registers_used",
            props=P,
            spec=r"""
    requires self.wf(),
    ensures r as int == self.used(),   // @used
""",
        ),
        Fn(
            F,
            "impl Frame :: fn register_stack_size",
            props=P,
            spec=r"""
    ensures r == self.register_stack@.len(),
""",
        ),
        Fn(
            F,
            "impl Frame :: fn reserve_local_register",
            props=P,
            spec=r"""
    requires old(self).wf(), old(self).locals_ok(),
    ensures
        final(self).wf(),                                                                          // @wf_preserved
        final(self).temporary_base == old(self).temporary_base,                                    // @frame_base
        final(self).register_stack@ == old(self).register_stack@,                                  // @frame_stack
        r matches Ok(reg) ==> (reg as int) < final(self).local_registers@.len(),                   // @in_range
        r matches Ok(reg) ==> reg < final(self).temporary_base,                                    // @local_below_temporaries
        r matches Ok(reg) ==> final(self).names(reg as int, local),                                // @register_names_local
        r is Ok ==> final(self).locals_ok(),                                                       // @locals_ok
        r is Ok ==> forall|j: int| 0 <= j < old(self).local_registers@.len() ==> final(self).local_registers@[j] == old(self).local_registers@[j],   // @others_unchanged
        r matches Err(e) ==> e is LocalRegisterOverflow,                                           // @limit_is_error
        r is Err ==> old(self).local_registers@.len() == old(self).temporary_base,                 // @error_only_at_limit
""",
        ),
        Fn(
            F,
            "impl Frame :: fn commit_local_register",
            props=P,
            spec=r"""
    requires old(self).wf(),
    ensures
        final(self).wf(),                                                                          // @wf_preserved
        final(self).temporary_base == old(self).temporary_base,                                    // @frame_base
        final(self).register_stack@ == old(self).register_stack@,                                  // @frame_stack
        final(self).local_registers@.len() == old(self).local_registers@.len(),                    // @len_unchanged
        forall|j: int| 0 <= j < old(self).local_registers@.len() && j != local_register as int ==> final(self).local_registers@[j] == old(self).local_registers@[j],   // @others_unchanged
        forall|j: int, id: ConstantIndex| 0 <= j < old(self).local_registers@.len() ==> (final(self).names(j, id) <==> old(self).names(j, id)),   // @names_preserved
        r is Ok <==> ((local_register as int) < old(self).local_registers@.len() && !(old(self).local_registers@[local_register as int] is Allocated)),   // @ok_iff_named
        r is Ok ==> final(self).local_registers@[local_register as int] is Assigned,               // @committed
        r is Err ==> final(self).same_state(old(self)),                                            // @err_unchanged
""",
        ),
        Fn(
            F,
            "impl Frame :: fn assign_local_register",
            props=P,
            spec=r"""
    requires old(self).wf(), old(self).locals_ok(),
    ensures
        final(self).wf(),                                                                          // @wf_preserved
        final(self).temporary_base == old(self).temporary_base,                                    // @frame_base
        final(self).register_stack@ == old(self).register_stack@,                                  // @frame_stack
        r matches Ok(reg) ==> (reg as int) < final(self).local_registers@.len(),                   // @in_range
        r matches Ok(reg) ==> reg < final(self).temporary_base,                                    // @local_below_temporaries
        r matches Ok(reg) ==> final(self).local_registers@[reg as int] == LocalRegister::Assigned(local),   // @register_assigned_to_local
        r is Ok ==> final(self).locals_ok(),                                                       // @locals_ok
        r matches Ok(reg) ==> forall|j: int| 0 <= j < old(self).local_registers@.len() && j != reg as int ==> final(self).local_registers@[j] == old(self).local_registers@[j],   // @others_unchanged
        r matches Err(e) ==> (e is LocalRegisterOverflow && old(self).local_registers@.len() == old(self).temporary_base) || e is UnableToCommitRegister,   // @err_kinds
""",
        ),

        # ---- loop bookkeeping (break/continue jump placeholders of C01/C05)
        Fn(F, "impl Frame :: fn push_loop", props=P, spec=r"""
    ensures
        final(self).loop_stack@.len() == old(self).loop_stack@.len() + 1,
        final(self).loop_stack@.drop_last() == old(self).loop_stack@,                                   // @outer_loops_untouched
        final(self).loop_stack@.last().start_ip == loop_start_ip,                                        // @continue_target_recorded
        final(self).loop_stack@.last().result_register == result_register,
        final(self).loop_stack@.last().jump_placeholders@.len() == 0,
        final(self).same_state_but_loops(old(self)),
"""),
        Fn(F, "impl Frame :: fn push_loop_jump_placeholder", props=P, spec=r"""
    ensures
        // a `break` placeholder is recorded on the INNERMOST loop, or it is an error outside of loops
        r is Ok <==> old(self).loop_stack@.len() > 0,                                                    // @break_outside_loop_is_error
        r is Ok ==> final(self).loop_stack@.len() == old(self).loop_stack@.len()
            && final(self).loop_stack@.drop_last() == old(self).loop_stack@.drop_last()
            && final(self).loop_stack@.last().jump_placeholders@ == old(self).loop_stack@.last().jump_placeholders@.push(placeholder_ip)
            && final(self).loop_stack@.last().start_ip == old(self).loop_stack@.last().start_ip,         // @recorded_on_innermost_loop
        r is Err ==> final(self).loop_stack@ == old(self).loop_stack@,
        final(self).same_state_but_loops(old(self)),
"""),
        Fn(F, "impl Frame :: fn pop_loop", props=P, spec=r"""
    ensures
        r is Ok <==> old(self).loop_stack@.len() > 0,
        r matches Ok(l) ==> l == old(self).loop_stack@.last() && final(self).loop_stack@ == old(self).loop_stack@.drop_last(),   // @pops_innermost_loop
        r is Err ==> final(self).loop_stack@ == old(self).loop_stack@,
        final(self).same_state_but_loops(old(self)),
"""),
        Fn(F, "impl Frame :: fn current_loop", props=P, spec=r"""
    ensures
        (r is Some) == (self.loop_stack@.len() > 0),
        r matches Some(l) ==> *l == self.loop_stack@.last(),                                             // @innermost_loop
"""),
    ],
    epilogue=r"""
// ---- composition lemma: any two registers that are live at the same time differ.
// live temporaries are exactly register_stack; live locals are indices < local_registers.len().
proof fn lemma_live_registers_distinct(f: &Frame, i: int, j: int)
    requires f.wf(), f.locals_ok(), 0 <= i < j < f.register_stack@.len(),
    ensures f.register_stack@[i] != f.register_stack@[j],
            f.register_stack@[i] as int >= f.local_registers@.len(),
            (f.register_stack@[j] as int) < f.used(),
{
}

// ---- vacuity guards: each of these MUST FAIL
proof fn canary_wf(f: &Frame) requires f.wf(), f.temporary_count > 0 ensures false {}
proof fn canary_locals_ok(f: &Frame) requires f.wf(), f.locals_ok(), f.local_registers@.len() > 0 ensures false {}
""",
    canaries=("canary_wf", "canary_locals_ok"),
)
