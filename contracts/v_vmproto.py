"""V-vmproto: the VM's frame / unwind / cleanup protocol (crates/runtime/src/vm.rs).

Contracts only. Function bodies come from /repo at run time.
"""
from engine.unit import Fn, Raw, Type, Unit

F = "crates/runtime/src/vm.rs"

PRELUDE = r"""
global size_of usize == 8;   // assumption: 64-bit target
// ------------------------------------------------------------------------------------------
// shims (assumptions): types the extracted text mentions but that cannot be extracted
#[verifier::external_body]
#[verifier::reject_recursive_types(T)]
struct Ptr<T> { p: core::marker::PhantomData<T> }
#[verifier::external_body]
struct Chunk { _p: u8 }
#[verifier::external_body]
struct NonLocals { _p: u8 }
#[verifier::external_body]
struct Opaque { _p: u8 }
#[verifier::external_body]
struct InstructionReader { _p: u8 }
impl InstructionReader { uninterp spec fn chunk_view(&self) -> Ptr<Chunk>; uninterp spec fn ip_view(&self) -> u32; }
#[verifier::external_body]
struct KMap { _p: u8 }
#[verifier::external_body]
struct VmContext { _p: u8 }

#[verifier::external_body]
struct KString { _p: u8 }
// KValue: only the variants the extracted bodies name, plus an opaque catch-all
enum KValue { Null, Bool(bool), Str(KString), Map(KMap), Other(Opaque) }
enum ControlFlow { Continue, Return(KValue), Yield(KValue) }
#[verifier::external_body]
struct Instruction { _p: u8 }

#[verifier::external_body]
struct MetaKey { _p: u8 }
// `&NextBack.into()` (rule R5)
uninterp spec fn next_back_key() -> MetaKey;
#[verifier::external_body]
fn meta_key_next_back() -> (r: MetaKey) ensures r == next_back_key() { unimplemented!() }
// `&UnaryOp::Next.into()` (rule R5)
uninterp spec fn next_key() -> MetaKey;
#[verifier::external_body]
fn meta_key_next() -> (r: MetaKey) ensures r == next_key() { unimplemented!() }
impl KMap {
    // assumed contract of KMap (map.rs): a meta key that is contained can be read
    uninterp spec fn has_meta(&self, key: MetaKey) -> bool;
    #[verifier::external_body]
    fn contains_meta_key(&self, key: &MetaKey) -> (r: bool) ensures r == self.has_meta(*key) { unimplemented!() }
    #[verifier::external_body]
    fn get_meta_value(&self, key: &MetaKey) -> (r: Option<KValue>) ensures (r is Some) == self.has_meta(*key) { unimplemented!() }
}
impl KValue {
    #[verifier::external_body]
    fn is_callable(&self) -> bool { unimplemented!() }
}

// call arguments (vm.rs CallArgs): declaration extracted from the real source below
// `KValue::Tuple(Vec::from(args).into())` (rule R5)
#[verifier::external_body]
fn make_tuple_value(args: &[KValue]) -> KValue { unimplemented!() }
// `instance.unwrap_or_default()` (rule R5): KValue::default() is Null
#[verifier::external_body]
fn instance_or_null(instance: Option<KValue>) -> KValue { unimplemented!() }
struct CallInfo { result_register: Option<u8>, frame_base: u8, instance: Option<u8>, arg_count: u8, packed_arg_count: u8 }

// ---- KFunction as far as call_koto_function reads it; the three binding helpers are proved in
// unit V-bind against their own contracts, here only their frame is assumed: they touch the
// register Vec and nothing else
struct FunctionFlags { generator: bool }
impl FunctionFlags {
    #[verifier::external_body]
    fn is_generator(&self) -> bool { unimplemented!() }
}
struct KFunction { chunk: Ptr<Chunk>, ip: u32, flags: FunctionFlags }
impl KFunction {
    #[verifier::external_body]
    fn expected_arg_count(&self) -> u8 { unimplemented!() }
    #[verifier::external_body]
    fn non_locals(&self) -> Option<NonLocals> { unimplemented!() }
}
#[verifier::external_body]
fn apply_optional_arguments(registers: &mut Vec<KValue>, f: &KFunction, call_arg_count: u8, expected_arg_count: u8) -> (r: Result<()>)
    ensures final(registers)@.len() >= old(registers)@.len(), final(registers)@.len() <= old(registers)@.len() + 255,
{ unimplemented!() }
#[verifier::external_body]
fn apply_variadic_arguments(registers: &mut Vec<KValue>, arg_base_index: usize, call_info: &CallInfo, f: &KFunction, expected_arg_count: u8) -> (r: Result<()>)
    ensures final(registers)@.len() >= arg_base_index, final(registers)@.len() <= old(registers)@.len() + 1,
{ unimplemented!() }
#[verifier::external_body]
fn apply_captures(registers: &mut Vec<KValue>, f: &KFunction)
    ensures final(registers)@.len() >= old(registers)@.len(), final(registers)@.len() <= old(registers)@.len() + 0x1_0000_0000,
{ unimplemented!() }

// builders -> values (rule R5): `KList::with_data(ValueVec::from_vec(result))`, `KTuple::from(result)`,
// `result.into()` for a String; the value holds exactly the builder's contents
uninterp spec fn list_of(elems: Seq<KValue>) -> KValue;
uninterp spec fn tuple_of(elems: Seq<KValue>) -> KValue;
uninterp spec fn string_of(s: String) -> KValue;
#[verifier::external_body]
fn list_value_from(result: Vec<KValue>) -> (r: KValue) ensures r == list_of(result@) { unimplemented!() }
#[verifier::external_body]
fn tuple_value_from(result: Vec<KValue>) -> (r: KValue) ensures r == tuple_of(result@) { unimplemented!() }
#[verifier::external_body]
fn string_value_from(result: String) -> (r: KValue) ensures r == string_of(result) { unimplemented!() }
#[verifier::external_body]
fn error_missing_builder<T>() -> (r: Result<T>) ensures r is Err { unimplemented!() }

// `unexpected_type(..)` builds an error value (error.rs); assumed total
#[verifier::external_body]
fn unexpected_type<T>(expected_str: &str, unexpected: &KValue) -> (r: Result<T>)
    ensures r is Err
{ unimplemented!() }

impl Clone for KValue {
    #[verifier::external_body]
    fn clone(&self) -> (r: Self) ensures r == *self { unimplemented!() }
}
impl<T> Clone for Ptr<T> {
    #[verifier::external_body]
    fn clone(&self) -> (r: Self) ensures r == *self { unimplemented!() }
}

enum ExecutionState { Inactive, Active, Suspended }

// ---- errors: opaque, with a ghost stack trace (C12) and a ghost "is a timeout" flag (C08)
#[verifier::external_body]
struct Error { _p: u8 }
// `"Overflow of the current frame's register stack".into()` (a string converted into an Error), rule R5
#[verifier::external_body] fn register_overflow_error() -> Error { unimplemented!() }
struct InstructionFrame { chunk: Ptr<Chunk>, instruction: u32 }
type Result<T> = core::result::Result<T, Error>;

impl Error {
    uninterp spec fn trace(&self) -> Seq<InstructionFrame>;
    uninterp spec fn is_timeout(&self) -> bool;
    uninterp spec fn is_empty_call_stack(&self) -> bool;

    // assumed contract of koto_runtime::Error::extend_trace
    #[verifier::external_body]
    fn extend_trace(&mut self, frame: InstructionFrame)
        ensures final(self).trace() == old(self).trace().push(frame),
                final(self).is_timeout() == old(self).is_timeout(),
                final(self).is_empty_call_stack() == old(self).is_empty_call_stack(),
    { unimplemented!() }
}

#[verifier::external_body]
struct Duration { _p: u8 }
impl Clone for Duration { #[verifier::external_body] fn clone(&self) -> (r: Self) { unimplemented!() } }
impl Copy for Duration {}
#[verifier::external_body]
struct Instant { _p: u8 }

// `ErrorKind::Timeout(limit).into()` (rule R5)
#[verifier::external_body]
fn timeout_error(limit: Duration) -> (r: Error)
    ensures r.is_timeout(), r.trace().len() == 0
{ unimplemented!() }

fn unit_to_null(_p: (u8, u32, usize, usize)) -> KValue { KValue::Null }
#[verifier::external_body]
fn clone_error(e: &Error) -> (r: Error) ensures r == *e { unimplemented!() }

// the catch-value conversion and the KotoError vm back-reference of the Err arm of
// execute_instructions touch only the error value (rule R5: two statements replaced)
#[verifier::external_body]
fn catch_value_of(error: Error) -> KValue { unimplemented!() }

// `runtime_error!(ErrorKind::EmptyCallStack)` (rule R5)
#[verifier::external_body]
fn runtime_error_empty_call_stack<T>() -> (r: Result<T>)
    ensures r matches Err(e) && e.is_empty_call_stack() && e.trace().len() == 0
{ unimplemented!() }
"""

VM_SPECS = r"""
    // ---- ghost view of the reader (chunk + ip) -- assumed accessors
    spec fn cur_chunk(&self) -> Ptr<Chunk> { self.reader.chunk_view() }

    #[verifier::external_body]
    fn instruction_frame(&self) -> (r: InstructionFrame)
        ensures r.chunk == self.cur_chunk(), r.instruction == self.instruction_ip,
    { unimplemented!() }

    #[verifier::external_body]
    fn set_chunk_and_ip(&mut self, chunk: Ptr<Chunk>, ip: u32)
        ensures final(self).cur_chunk() == chunk,
                final(self).same_but_reader(old(self)),
    { unimplemented!() }

    // assumed: register operands are inside the frame (bytecode well-formedness, C05 composition);
    // the real body indexes `self.registers[register_base + register]`
    #[verifier::external_body]
    fn set_register(&mut self, register: u8, value: KValue)
        // the registers announced by the frame's NewFrame instruction exist whenever a register of
        // the frame is written (the real body indexes self.registers and panics otherwise)
        requires old(self).registers@.len() >= old(self).min_frame_registers,
        ensures final(self).registers@.len() == old(self).registers@.len(),
                final(self).cur_chunk() == old(self).cur_chunk(),
                final(self).same_but_registers(old(self)),
                final(self).wf() == old(self).wf(),
                final(self).last_written() == (register, value),
    { unimplemented!() }

    // ghost: the last (register, value) handed to set_register
    uninterp spec fn last_written(&self) -> (u8, KValue);

    spec fn same_but_reader(&self, o: &KotoVm) -> bool {
        &&& self.registers@ == o.registers@
        &&& self.register_base == o.register_base
        &&& self.min_frame_registers == o.min_frame_registers
        &&& self.call_stack@ == o.call_stack@
        &&& self.sequence_builders@ == o.sequence_builders@
        &&& self.string_builders@ == o.string_builders@
        &&& self.instruction_ip == o.instruction_ip
        &&& self.execution_state == o.execution_state
    }
    spec fn same_but_registers(&self, o: &KotoVm) -> bool {
        &&& self.register_base == o.register_base
        &&& self.min_frame_registers == o.min_frame_registers
        &&& self.call_stack@ == o.call_stack@
        &&& self.sequence_builders@ == o.sequence_builders@
        &&& self.string_builders@ == o.string_builders@
        &&& self.instruction_ip == o.instruction_ip
        &&& self.execution_state == o.execution_state
    }

    // ---- the unwinding specification, taken from the property statement (C04):
    // walking down from the innermost frame, the error is delivered to the first frame that has a
    // catch entry (if catching is allowed); a barrier frame without one stops the walk and the
    // error is handed to the native caller. Result: (number of frames that remain, caught?)
    spec fn unwind_target(s: Seq<Frame>, allow_catch: bool) -> (int, bool)
        decreases s.len()
    {
        if s.len() == 0 {
            (0, false)
        } else if allow_catch && s.last().catch_stack@.len() > 0 {
            (s.len() as int, true)
        } else if s.last().execution_barrier {
            (s.len() as int, false)
        } else {
            Self::unwind_target(s.drop_last(), allow_catch)
        }
    }

    // C12: the trace gets the failing instruction's frame first, then the call site of every
    // frame that is popped, innermost first: popping down to `remaining` frames adds the call
    // sites recorded in frames len-2, len-3, ..., remaining-1 (chunk + return_instruction_ip)
    spec fn call_sites(s: Seq<Frame>, remaining: int) -> Seq<InstructionFrame>
        decreases s.len() - remaining
    {
        if remaining >= s.len() {
            Seq::empty()
        } else if remaining >= 1 {
            Self::call_sites(s, remaining + 1)
                + seq![InstructionFrame { chunk: s[remaining - 1].chunk, instruction: s[remaining - 1].return_instruction_ip }]
        } else {
            Self::call_sites(s, remaining + 1)
        }
    }

    // ---- representation invariant of the VM's frame bookkeeping (established by push_frame,
    // preserved by every function of this unit)
    spec fn wf(&self) -> bool {
        &&& self.bases_are_vec_indices()
        &&& (forall|i: int, j: int| 0 <= i <= j < self.call_stack@.len() ==> (#[trigger] self.call_stack@[i]).register_base <= (#[trigger] self.call_stack@[j]).register_base)
        &&& (self.call_stack@.len() == 0 ==> self.register_base == 0)
        &&& (self.call_stack@.len() > 0 ==> self.register_base == self.call_stack@.last().register_base)
        &&& self.register_base <= self.registers@.len()
    }
    // the current frame's register window is addressable by u8 register ids
    // (this is what `new_frame_base` checks at run time)
    spec fn window_fits_u8(&self) -> bool {
        self.registers@.len() - self.register_base <= 255
    }
    // two call stacks agree on everything but the return_* scratch fields, which push_frame
    // rewrites on the caller frame for every call
    spec fn frame_equiv(a: Frame, b: Frame) -> bool {
        &&& a.register_base == b.register_base
        &&& a.required_registers == b.required_registers
        &&& a.execution_barrier == b.execution_barrier
        &&& a.catch_stack@ == b.catch_stack@
        &&& a.chunk == b.chunk
    }
    spec fn stack_equiv(a: Seq<Frame>, b: Seq<Frame>) -> bool {
        &&& a.len() == b.len()
        &&& forall|i: int| 0 <= i < a.len() ==> Self::frame_equiv(#[trigger] a[i], b[i])
    }
    // C07: what a host-level entry point must restore on EVERY exit path
    spec fn restored(&self, o: &KotoVm) -> bool {
        &&& self.wf()
        &&& Self::stack_equiv(self.call_stack@, o.call_stack@)                  // no frame left behind
        &&& self.register_base == o.register_base                               // register numbering as before
        &&& self.registers@.len() == o.registers@.len()                         // no register left behind
    }
    spec fn builders_not_grown(&self, o: &KotoVm) -> bool {
        &&& self.sequence_builders@.len() <= o.sequence_builders@.len()
        &&& self.string_builders@.len() <= o.string_builders@.len()
    }
    spec fn builders_restored(&self, o: &KotoVm) -> bool {
        &&& self.sequence_builders@.len() == o.sequence_builders@.len()
        &&& self.string_builders@.len() == o.string_builders@.len()
    }

    // ---- assumed contract of the interpreter step (execute_instruction, 1100 lines of dispatch)
    // B = index of the innermost barrier frame = the frame this activation was entered with.
    // It never touches frames below B, never removes registers below B's base, and hands back
    // a stack whose frames above B are not barriers (nested native re-entries clean up after
    // themselves: that is exactly what the wrappers in this unit are proved to do).
    spec fn step_post(o: &KotoVm, f: &KotoVm, ret: bool) -> bool {
        let b = Self::barrier_index(o.call_stack@);
        &&& f.wf()
        &&& (forall|i: int| 0 <= i < b ==> #[trigger] f.call_stack@[i] == o.call_stack@[i])
        &&& (ret ==> f.call_stack@.len() == b)
        &&& (!ret ==> Self::barrier_index(f.call_stack@) == b && f.call_stack@[b].register_base == o.call_stack@[b].register_base)
        &&& f.registers@.len() >= o.call_stack@[b].register_base
    }
    // index of the innermost barrier frame
    spec fn barrier_index(s: Seq<Frame>) -> int
        decreases s.len()
    {
        if s.len() == 0 { -1 } else if s.last().execution_barrier { s.len() - 1 } else { Self::barrier_index(s.drop_last()) }
    }

    #[verifier::external_body]
    fn execute_instruction(&mut self, instruction: Instruction) -> (r: Result<ControlFlow>)
        requires old(self).wf(), Self::barrier_index(old(self).call_stack@) >= 0,
        ensures
            Self::step_post(old(self), final(self), r matches Ok(ControlFlow::Return(_))),
            final(self).execution_state == old(self).execution_state,
    { unimplemented!() }

    // C08: ghost count of instructions executed since the deadline was last polled is kept by
    // ExecutionTimeout itself (instructions_since_last_check)

    #[verifier::external_body]
    fn make_timeout(&self) -> (r: Option<ExecutionTimeout>)
        ensures r matches Some(t) ==> t.wf()
    { unimplemented!() }

    // assumed: `self.exports.clone()` wrapped as the frame's non-locals
    #[verifier::external_body]
    fn module_non_locals(&self) -> Option<NonLocals> { unimplemented!() }

    // assumed: the decoder (instruction_reader.rs). Compiled chunks end in a Return instruction, so
    // the decoder is never asked past the end of the chunk (C05 composition)
    #[verifier::external_body]
    fn reader_next(&mut self) -> (r: Option<Instruction>)
        ensures final(self).same_but_reader(old(self)), final(self).cur_chunk() == old(self).cur_chunk(), r is Some,
    { unimplemented!() }

    // the instruction pointer: where the NEXT instruction will be read (a function of the reader only)
    spec fn ip_spec(&self) -> u32 { self.reader.ip_view() }
    #[verifier::external_body]
    fn ip(&self) -> (r: u32) ensures r == self.ip_spec() { unimplemented!() }
    #[verifier::external_body]
    fn set_ip(&mut self, ip: u32)
        ensures final(self).same_but_reader(old(self)), final(self).cur_chunk() == old(self).cur_chunk(),
    { unimplemented!() }

    // assumed: reads a register of the current frame (panics when out of range: bytecode
    // well-formedness, C05 composition)
    uninterp spec fn reg_value(&self, register: u8) -> KValue;
    #[verifier::external_body]
    fn clone_register(&self, register: u8) -> (r: KValue) ensures r == self.reg_value(register) { unimplemented!() }


    // ---- assumed contract of the operator handlers (run_add ... run_access_assign, ~1500 lines,
    // macro-generated dispatch): they work on registers of the current window, may push ONE frame
    // for an overridden operator written in Koto (entered later by get_overridden_op_result), and
    // push no frame when they fail.
    spec fn base_at(s: Seq<Frame>, k: int) -> int { if k <= 0 { 0 } else { s[k - 1].register_base as int } }
    spec fn op_post(o: &KotoVm, f: &KotoVm, ok: bool) -> bool {
        let n = o.call_stack@.len() as int;
        &&& f.wf()
        &&& f.execution_state == o.execution_state
        &&& f.sequence_builders@ == o.sequence_builders@ && f.string_builders@ == o.string_builders@
        &&& f.registers@.len() >= o.registers@.len()
        &&& (o.registers@.len() >= o.min_frame_registers ==> f.registers@.len() >= f.min_frame_registers)
        &&& f.registers@.len() < 0x4000_0000_0000_0000
        &&& (forall|i: int| 0 <= i < n - 1 ==> #[trigger] f.call_stack@[i] == o.call_stack@[i])
        &&& (n > 0 ==> f.call_stack@.len() >= n && Self::frame_equiv(f.call_stack@[n - 1], o.call_stack@[n - 1]))
        &&& ((f.call_stack@.len() == n && f.register_base == o.register_base)
             || (ok && f.call_stack@.len() == n + 1 && !f.call_stack@.last().execution_barrier
                    && f.call_stack@.last().register_base >= o.registers@.len()))
    }
    #[verifier::external_body]
    fn run_add(&mut self, a: u8, b: u8, c: u8) -> (r: Result<()>)
        requires old(self).wf(), ensures Self::op_post(old(self), final(self), r is Ok)
    { unimplemented!() }
    #[verifier::external_body]
    fn run_subtract(&mut self, a: u8, b: u8, c: u8) -> (r: Result<()>)
        requires old(self).wf(), ensures Self::op_post(old(self), final(self), r is Ok)
    { unimplemented!() }
    #[verifier::external_body]
    fn run_multiply(&mut self, a: u8, b: u8, c: u8) -> (r: Result<()>)
        requires old(self).wf(), ensures Self::op_post(old(self), final(self), r is Ok)
    { unimplemented!() }
    #[verifier::external_body]
    fn run_divide(&mut self, a: u8, b: u8, c: u8) -> (r: Result<()>)
        requires old(self).wf(), ensures Self::op_post(old(self), final(self), r is Ok)
    { unimplemented!() }
    #[verifier::external_body]
    fn run_remainder(&mut self, a: u8, b: u8, c: u8) -> (r: Result<()>)
        requires old(self).wf(), ensures Self::op_post(old(self), final(self), r is Ok)
    { unimplemented!() }
    #[verifier::external_body]
    fn run_power(&mut self, a: u8, b: u8, c: u8) -> (r: Result<()>)
        requires old(self).wf(), ensures Self::op_post(old(self), final(self), r is Ok)
    { unimplemented!() }
    #[verifier::external_body]
    fn run_less(&mut self, a: u8, b: u8, c: u8) -> (r: Result<()>)
        requires old(self).wf(), ensures Self::op_post(old(self), final(self), r is Ok)
    { unimplemented!() }
    #[verifier::external_body]
    fn run_less_or_equal(&mut self, a: u8, b: u8, c: u8) -> (r: Result<()>)
        requires old(self).wf(), ensures Self::op_post(old(self), final(self), r is Ok)
    { unimplemented!() }
    #[verifier::external_body]
    fn run_greater(&mut self, a: u8, b: u8, c: u8) -> (r: Result<()>)
        requires old(self).wf(), ensures Self::op_post(old(self), final(self), r is Ok)
    { unimplemented!() }
    #[verifier::external_body]
    fn run_greater_or_equal(&mut self, a: u8, b: u8, c: u8) -> (r: Result<()>)
        requires old(self).wf(), ensures Self::op_post(old(self), final(self), r is Ok)
    { unimplemented!() }
    #[verifier::external_body]
    fn run_equal(&mut self, a: u8, b: u8, c: u8) -> (r: Result<()>)
        requires old(self).wf(), ensures Self::op_post(old(self), final(self), r is Ok)
    { unimplemented!() }
    #[verifier::external_body]
    fn run_not_equal(&mut self, a: u8, b: u8, c: u8) -> (r: Result<()>)
        requires old(self).wf(), ensures Self::op_post(old(self), final(self), r is Ok)
    { unimplemented!() }
    #[verifier::external_body]
    fn run_index(&mut self, a: u8, b: u8, c: u8) -> (r: Result<()>)
        requires old(self).wf(), ensures Self::op_post(old(self), final(self), r is Ok)
    { unimplemented!() }
    #[verifier::external_body]
    fn run_index_assign(&mut self, a: u8, b: u8, c: u8) -> (r: Result<()>)
        requires old(self).wf(), ensures Self::op_post(old(self), final(self), r is Ok)
    { unimplemented!() }
    #[verifier::external_body]
    fn run_access_assign(&mut self, a: u8, b: u8, c: u8) -> (r: Result<()>)
        requires old(self).wf(), ensures Self::op_post(old(self), final(self), r is Ok)
    { unimplemented!() }
    #[verifier::external_body]
    fn run_add_assign(&mut self, a: u8, b: u8) -> (r: Result<()>)
        requires old(self).wf(), ensures Self::op_post(old(self), final(self), r is Ok)
    { unimplemented!() }
    #[verifier::external_body]
    fn run_subtract_assign(&mut self, a: u8, b: u8) -> (r: Result<()>)
        requires old(self).wf(), ensures Self::op_post(old(self), final(self), r is Ok)
    { unimplemented!() }
    #[verifier::external_body]
    fn run_multiply_assign(&mut self, a: u8, b: u8) -> (r: Result<()>)
        requires old(self).wf(), ensures Self::op_post(old(self), final(self), r is Ok)
    { unimplemented!() }
    #[verifier::external_body]
    fn run_divide_assign(&mut self, a: u8, b: u8) -> (r: Result<()>)
        requires old(self).wf(), ensures Self::op_post(old(self), final(self), r is Ok)
    { unimplemented!() }
    #[verifier::external_body]
    fn run_remainder_assign(&mut self, a: u8, b: u8) -> (r: Result<()>)
        requires old(self).wf(), ensures Self::op_post(old(self), final(self), r is Ok)
    { unimplemented!() }
    #[verifier::external_body]
    fn run_power_assign(&mut self, a: u8, b: u8) -> (r: Result<()>)
        requires old(self).wf(), ensures Self::op_post(old(self), final(self), r is Ok)
    { unimplemented!() }
    #[verifier::external_body]
    fn run_debug_op(&mut self, a: u8, b: u8) -> (r: Result<()>)
        requires old(self).wf(), ensures Self::op_post(old(self), final(self), r is Ok)
    { unimplemented!() }
    #[verifier::external_body]
    fn run_display(&mut self, a: u8, b: u8) -> (r: Result<()>)
        requires old(self).wf(), ensures Self::op_post(old(self), final(self), r is Ok)
    { unimplemented!() }
    #[verifier::external_body]
    fn run_negate(&mut self, a: u8, b: u8) -> (r: Result<()>)
        requires old(self).wf(), ensures Self::op_post(old(self), final(self), r is Ok)
    { unimplemented!() }
    #[verifier::external_body]
    fn run_make_iterator(&mut self, a: u8, b: u8, t: bool) -> (r: Result<()>)
        requires old(self).wf(), ensures Self::op_post(old(self), final(self), r is Ok)
    { unimplemented!() }
    #[verifier::external_body]
    fn run_iterator_next(&mut self, a: Option<u8>, b: u8, j: u16, t: bool) -> (r: Result<()>)
        requires old(self).wf(), ensures Self::op_post(old(self), final(self), r is Ok)
    { unimplemented!() }
    #[verifier::external_body]
    fn run_size(&mut self, a: u8, b: u8, t: bool) -> (r: Result<()>)
        requires old(self).wf(), ensures Self::op_post(old(self), final(self), r is Ok)
    { unimplemented!() }
    // vm.rs new_frame_base: `self.next_register(1)` (PROVED below: next_register): an error unless the frame base AND the
    // register after it (the first argument) can be addressed by a u8 (finding F38: it used to accept a window of 255)
    #[verifier::external_body]
    fn new_frame_base(&self) -> (r: Result<u8>)
        ensures (r is Ok) == (self.registers@.len() - self.register_base + 1 <= 255), r matches Ok(b) ==> b as int == self.registers@.len() - self.register_base
    { unimplemented!() }
    // assumed (pushes instance and argument, then call_callable): a Koto function gets ONE frame above
    // everything on the value stack, a native function or a generator runs at once and pushes none
    #[verifier::external_body]
    fn call_overridden_op_2(&mut self, result_register: Option<u8>, instance: KValue, arg: KValue, op: KValue) -> (r: Result<()>)
        requires old(self).wf(), ensures Self::op_post(old(self), final(self), r is Ok)
    { unimplemented!() }
    #[verifier::external_body]
    fn call_overridden_op_1(&mut self, a: Option<u8>, b: u8, op: KValue) -> (r: Result<()>)
        requires old(self).wf(), ensures Self::op_post(old(self), final(self), r is Ok)
    { unimplemented!() }
    // the temp-tuple fast path of call_and_run_function (14 lines, a guarded match arm that mutates
    // self: outside Verus' reach, see run_unary_op_inner) is replaced by this assumed step (rule R5):
    // it only pushes the tuple's elements onto the value stack
    #[verifier::external_body]
    fn prepare_tuple_args<'a>(&mut self, args: CallArgs<'a>, function: &KValue) -> (r: CallArgs<'a>)
        requires old(self).wf(),
        ensures final(self).same_but_registers(old(self)), final(self).cur_chunk() == old(self).cur_chunk(),
                final(self).registers@.len() >= old(self).registers@.len(),
                // every AsTuple call site inside the runtime passes a (key, value) PAIR; a host that passes a
                // longer slice to a function with an unpacked-tuple argument can push the frame base past
                // register 255, where `next_register() as u8` truncates: latent, outside what is proved
                final(self).registers@.len() - old(self).registers@.len() <= 2,
    { unimplemented!() }

    // assumed contract of call_callable (vm.rs, with call_koto_function/call_native_function/
    // call_generator): the frame is pushed last, after the arguments were validated, so a failed
    // call pushes no frame; a native call pushes none either. Unlike the handlers above, a call made
    // by the `Call` instruction has a frame base chosen by the compiler INSIDE the caller's window, and
    // call_koto_function drops the temporaries above the call's arguments: the value stack may shrink,
    // down to (not including) the frame base register
    spec fn call_post(o: &KotoVm, f: &KotoVm, ok: bool, frame_base: u8) -> bool {
        let n = o.call_stack@.len() as int;
        &&& f.wf()
        &&& f.execution_state == o.execution_state
        &&& f.sequence_builders@ == o.sequence_builders@ && f.string_builders@ == o.string_builders@
        // a native function drops the call's registers when it is done (call_native_function truncates to
        // the frame base); a Koto function's frame keeps its base register
        &&& f.registers@.len() >= o.register_base + frame_base as int
        // (when a frame was pushed, `min_frame_registers` still is the CALLER's until the callee's NewFrame
        // instruction runs, and the value stack may be shorter than that: nothing is claimed then)
        // ... nor after a failed call: call_koto_function drops the temporaries above the arguments before it
        // binds them, so a failed binding leaves the value stack short (execute_instructions restores it
        // when it resumes at a catch block, finding F15)
        &&& (ok && f.call_stack@.len() == n && o.registers@.len() >= o.min_frame_registers ==> f.registers@.len() >= f.min_frame_registers)
        &&& f.registers@.len() < 0x4000_0000_0000_0000
        &&& (forall|i: int| 0 <= i < n - 1 ==> #[trigger] f.call_stack@[i] == o.call_stack@[i])
        &&& (n > 0 ==> f.call_stack@.len() >= n && Self::frame_equiv(f.call_stack@[n - 1], o.call_stack@[n - 1]))
        &&& ((f.call_stack@.len() == n && f.register_base == o.register_base)
             || (ok && f.call_stack@.len() == n + 1 && !f.call_stack@.last().execution_barrier
                    && f.call_stack@.last().register_base == o.register_base + frame_base as int
                    && f.registers@.len() > o.register_base + frame_base as int))
    }
    #[verifier::external_body]
    fn call_callable(&mut self, info: CallInfo, callable: KValue) -> (r: Result<()>)
        requires old(self).wf(),
        ensures Self::call_post(old(self), final(self), r is Ok, info.frame_base),
    { unimplemented!() }
    #[verifier::external_body]
    fn run_access(&mut self, a: u8, b: u8, key: KString) -> (r: Result<()>)
        requires old(self).wf(), ensures Self::op_post(old(self), final(self), r is Ok)
    { unimplemented!() }

    // VM invariant (assumed, established by push_frame): a frame's register base is an index into
    // the register Vec, so base + 255 cannot overflow
    spec fn bases_are_vec_indices(&self) -> bool {
        forall|i: int| 0 <= i < self.call_stack@.len() ==> (#[trigger] self.call_stack@[i]).register_base <= 0x4000_0000_0000_0000
    }
"""

P_UNWIND = ("C04", "C07", "C08", "C12", "C06")

UNIT = Unit(
    name="V-vmproto",
    prelude=PRELUDE,
    items=[
        Type("crates/runtime/src/types/meta_map.rs", "enum UnaryOp"),
        Type("crates/runtime/src/types/meta_map.rs", "enum BinaryOp"),
        Type("crates/runtime/src/types/meta_map.rs", "enum ReadOp"),
        Type("crates/runtime/src/types/meta_map.rs", "enum WriteOp"),
        Type(F, "type CatchPoint"),
        Type(F, "struct Frame", subst=[("Option<NonLocals>", "Option<NonLocals>", 1)]),
        Type(
            F,
            "struct KotoVm",
        ),
        Raw(VM_SPECS, impl_of="impl KotoVm"),
        Fn(F, "impl KotoVm :: fn frame", props=P_UNWIND,
           spec=r"""
    requires self.call_stack@.len() > 0,
    ensures *r == self.call_stack@.last(),
"""),
        Fn(
            F,
            "impl KotoVm :: fn pop_frame",
            props=P_UNWIND,
            subst=[("runtime_error!(ErrorKind::EmptyCallStack)", "runtime_error_empty_call_stack()", 1)],
            spec=r"""
    requires old(self).bases_are_vec_indices(),
    ensures
        final(self).bases_are_vec_indices(),
        old(self).wf() ==> final(self).wf(),                                                                    // @wf_preserved
        old(self).call_stack@.len() == 0 ==> r is Err,                                                          // @empty_stack_is_error
        old(self).call_stack@.len() > 0 ==> r is Ok,                                                            // @nonempty_stack_is_ok
        old(self).call_stack@.len() > 0 ==> final(self).call_stack@ == old(self).call_stack@.drop_last(),       // @pops_exactly_one_frame
        old(self).call_stack@.len() == 0 ==> final(self).call_stack@ == old(self).call_stack@,                  // @empty_unchanged
        // C07: an emptied call stack leaves no register base behind
        final(self).call_stack@.len() == 0 && r is Ok ==> final(self).register_base == 0 && final(self).min_frame_registers == 0,   // @empty_stack_resets_bases
        // returning to a frame restores that frame's base, its announced register count, and its call site
        old(self).call_stack@.len() > 1 ==> final(self).register_base == final(self).call_stack@.last().register_base,   // @base_restored
        old(self).call_stack@.len() > 1 ==> final(self).min_frame_registers == final(self).register_base + final(self).call_stack@.last().required_registers as int,   // @min_registers_restored
        old(self).call_stack@.len() > 1 ==> final(self).instruction_ip == final(self).call_stack@.last().return_instruction_ip,   // @call_site_ip_restored
        old(self).call_stack@.len() > 1 ==> final(self).cur_chunk() == final(self).call_stack@.last().chunk,   // @call_site_chunk_restored
        // a barrier frame hands its value to the native caller, any other frame continues in the caller
        old(self).call_stack@.len() > 1 ==> ((r matches Ok(Some(_))) <==> old(self).call_stack@.last().execution_barrier),   // @barrier_returns_value
        old(self).call_stack@.len() == 1 ==> (r matches Ok(Some(_))),                                           // @last_frame_returns_value
        old(self).call_stack@.len() > 1 && !old(self).call_stack@.last().execution_barrier ==> final(self).registers@.len() == final(self).min_frame_registers,   // @registers_minimised
        old(self).call_stack@.len() > 1 && old(self).call_stack@.last().execution_barrier ==> final(self).registers@ == old(self).registers@,   // @barrier_keeps_registers
        old(self).call_stack@.len() <= 1 ==> final(self).registers@ == old(self).registers@,                    // @last_frame_keeps_registers
        final(self).sequence_builders@ == old(self).sequence_builders@,                                         // @frame_builders
        final(self).string_builders@ == old(self).string_builders@,
        final(self).execution_state == old(self).execution_state,
""",
        ),
        Fn(
            F,
            "impl KotoVm :: fn pop_call_stack_on_error",
            props=P_UNWIND,
            ret="r",
            after_open="let ghost error0 = error;",
            spec=r"""
    requires old(self).bases_are_vec_indices(),
    ensures
        final(self).bases_are_vec_indices(),
        old(self).wf() ==> final(self).wf(),                                                                    // @wf_preserved
        final(self).registers@.len() >= final(self).register_base || !old(self).wf(),
        // C04: delivered to the innermost enclosing handler, from any call depth
        ({ let t = Self::unwind_target(old(self).call_stack@, allow_catch);
           &&& final(self).call_stack@ == old(self).call_stack@.take(t.0)                                      // @frames_above_handler_popped
           &&& (r is Ok <==> t.1)                                                                              // @caught_iff_handler_exists
           &&& (r matches Ok(entry) ==> final(self).call_stack@.last().catch_stack@.len() > 0
                    && entry == final(self).call_stack@.last().catch_stack@.last())                            // @innermost_catch_entry
        }),
        forall|i: int| 0 <= i < final(self).call_stack@.len() ==> #[trigger] final(self).call_stack@[i] == old(self).call_stack@[i],   // @remaining_frames_untouched
        final(self).call_stack@.len() <= old(self).call_stack@.len(),
        // a barrier frame is never popped by the unwinder: the native caller that created it does that
        Self::barrier_index(final(self).call_stack@) == Self::barrier_index(old(self).call_stack@),            // @barrier_frame_kept
        r is Err ==> final(self).call_stack@.len() == Self::barrier_index(old(self).call_stack@) + 1,          // @uncaught_error_stops_at_barrier
        // C08: a timeout (allow_catch == false) can never be turned into a caught error
        !allow_catch ==> r is Err,                                                                              // @uncatchable_when_not_allowed
        // the error that is propagated is the one that was passed in
        r matches Err(e) ==> e.is_timeout() == error.is_timeout(),                                              // @same_error
        // C12: failing instruction first, then one call site per popped frame, innermost first
        r matches Err(e) ==> e.trace() == error.trace()
            + seq![InstructionFrame { chunk: old(self).cur_chunk(), instruction: old(self).instruction_ip }]
            + Self::call_sites(old(self).call_stack@, final(self).call_stack@.len() as int),                    // @trace_order
        // C07: when the stack is emptied nothing is left behind
        final(self).call_stack@.len() == 0 && old(self).call_stack@.len() > 0 ==> final(self).register_base == 0 && final(self).min_frame_registers == 0,   // @empty_stack_resets_bases
        final(self).sequence_builders@ == old(self).sequence_builders@,
        final(self).string_builders@ == old(self).string_builders@,
        final(self).execution_state == old(self).execution_state,
""",
            loops={
                1: r"""
            invariant
                self.bases_are_vec_indices(),
                old(self).wf() ==> self.wf(),
                self.call_stack@.len() <= old(self).call_stack@.len(),
                self.call_stack@ == old(self).call_stack@.take(self.call_stack@.len() as int),
                Self::unwind_target(self.call_stack@, allow_catch) == Self::unwind_target(old(self).call_stack@, allow_catch),
                Self::barrier_index(self.call_stack@) == Self::barrier_index(old(self).call_stack@),
                error.is_timeout() == error0.is_timeout(),
                error.trace() == error0.trace()
                    + seq![InstructionFrame { chunk: old(self).cur_chunk(), instruction: old(self).instruction_ip }]
                    + Self::call_sites(old(self).call_stack@, self.call_stack@.len() as int),
                self.call_stack@.len() < old(self).call_stack@.len() && self.call_stack@.len() > 0 ==>
                    self.cur_chunk() == self.call_stack@.last().chunk && self.instruction_ip == self.call_stack@.last().return_instruction_ip,
                self.call_stack@.len() == 0 && old(self).call_stack@.len() > 0 ==> self.register_base == 0 && self.min_frame_registers == 0,
                self.sequence_builders@ == old(self).sequence_builders@,
                self.string_builders@ == old(self).string_builders@,
                self.execution_state == old(self).execution_state,
            ensures
                self.call_stack@.len() == Self::unwind_target(old(self).call_stack@, allow_catch).0,
                !Self::unwind_target(old(self).call_stack@, allow_catch).1,
                self.call_stack@.len() == Self::barrier_index(self.call_stack@) + 1,
            decreases self.call_stack@.len(),
"""
            },
        ),

        # ------------------------------------------------------------------ step B: entry points
        Fn(F, "impl KotoVm :: fn next_register", props=("C07", "C06"),
           subst=[('Err("Overflow of the current frame\'s register stack".into())', "Err(register_overflow_error())", 1)],
           spec=r"""
    requires self.wf(),
    ensures
        // the size of the current register window, or an error when it or one of the `additional` registers that
        // follow could not be addressed by a u8 (finding F37: this used to be an unchecked `as u8`)
        (r is Ok) == (self.registers@.len() - self.register_base + additional <= 255),                        // @overflow_of_the_window_is_an_error
        r matches Ok(x) ==> x as int == self.registers@.len() - self.register_base,                            // @next_register_is_window_size
"""),
        Fn(F, "impl KotoVm :: fn truncate_registers", props=("C07", "C06"),
           spec=r"""
    requires old(self).wf(),
    ensures
        final(self).same_but_registers(old(self)),
        final(self).cur_chunk() == old(self).cur_chunk(),
        final(self).registers@.len() == (if old(self).registers@.len() <= old(self).register_base + len as int { old(self).registers@.len() as int } else { old(self).register_base + len as int }),   // @truncates_to_base_plus_len
        final(self).wf(),
"""),
        Fn(F, "impl KotoVm :: fn builder_counts", props=("C07", "C04"), spec=r"""
    ensures r.0 == self.sequence_builders@.len(), r.1 == self.string_builders@.len(),
"""),
        Fn(F, "impl KotoVm :: fn truncate_builders", props=("C07", "C04"), spec=r"""
    ensures
        // builders above the recorded sizes are discarded, the others are untouched
        final(self).sequence_builders@ == old(self).sequence_builders@.take(if counts.0 <= old(self).sequence_builders@.len() { counts.0 as int } else { old(self).sequence_builders@.len() as int }),   // @sequence_builders_truncated
        final(self).string_builders@ == old(self).string_builders@.take(if counts.1 <= old(self).string_builders@.len() { counts.1 as int } else { old(self).string_builders@.len() as int }),   // @string_builders_truncated
        final(self).registers@ == old(self).registers@, final(self).register_base == old(self).register_base,
        final(self).min_frame_registers == old(self).min_frame_registers, final(self).call_stack@ == old(self).call_stack@,
        final(self).instruction_ip == old(self).instruction_ip, final(self).execution_state == old(self).execution_state,
        final(self).reader == old(self).reader,
"""),
        Fn(F, "impl KotoVm :: fn frame_mut", props=("C07",),
           spec=r"""
    requires old(self).call_stack@.len() > 0,
    ensures
        *r == old(self).call_stack@.last(),
        final(self).call_stack@ == old(self).call_stack@.update(old(self).call_stack@.len() - 1, *final(r)),
        final(self).registers@ == old(self).registers@,
        final(self).register_base == old(self).register_base,
        final(self).min_frame_registers == old(self).min_frame_registers,
        final(self).sequence_builders@ == old(self).sequence_builders@,
        final(self).string_builders@ == old(self).string_builders@,
        final(self).instruction_ip == old(self).instruction_ip,
        final(self).execution_state == old(self).execution_state,
        final(self).reader == old(self).reader,
"""),
        Fn(F, "impl Frame :: fn new", props=("C07",),
           spec=r"""
    ensures r.register_base == register_base, !r.execution_barrier, r.catch_stack@.len() == 0, r.chunk == chunk, r.required_registers == 0,
"""),
        Fn(F, "impl KotoVm :: fn push_frame", props=("C07", "C04"),
           spec=r"""
    requires old(self).wf(), old(self).register_base + frame_base as int <= old(self).registers@.len(),
             old(self).registers@.len() <= 0x4000_0000_0000_0000,   // memory bound (assumption)
    ensures
        final(self).wf(),
        final(self).call_stack@.len() == old(self).call_stack@.len() + 1,
        Self::stack_equiv(final(self).call_stack@.drop_last(), old(self).call_stack@),               // @caller_frames_kept
        old(self).call_stack@.len() > 0 ==> final(self).call_stack@.take(old(self).call_stack@.len() - 1) == old(self).call_stack@.take(old(self).call_stack@.len() - 1),
        final(self).call_stack@.last().register_base == old(self).register_base + frame_base as int,   // @new_base
        !final(self).call_stack@.last().execution_barrier,
        final(self).call_stack@.last().catch_stack@.len() == 0,
        final(self).registers@ == old(self).registers@,
        final(self).sequence_builders@ == old(self).sequence_builders@,
        final(self).string_builders@ == old(self).string_builders@,
        final(self).execution_state == old(self).execution_state,
"""),

        Type(F, "struct ExecutionTimeout"),
        Raw(r"""
    // counter discipline of the amortised deadline poll
    spec fn wf(&self) -> bool { true }
    // C08 (a): between the two snapshots check_for_timeout ran exactly once and answered false
    spec fn polled_between(a: Option<ExecutionTimeout>, b: Option<ExecutionTimeout>) -> bool {
        match (a, b) {
            (Some(x), Some(y)) =>
                (x.instructions_since_last_check < x.interval_instructions && y.instructions_since_last_check == x.instructions_since_last_check + 1)
                || (x.instructions_since_last_check >= x.interval_instructions && y.instructions_since_last_check == 0),
            (None, None) => true,     // no limit configured
            _ => false,
        }
    }
    // ghost reading of the monotonic clock: `a` is not earlier than `b`
    uninterp spec fn not_before(a: Instant, b: Instant) -> bool;

    #[verifier::external_body]
    fn clock_now() -> Instant { unimplemented!() }
    #[verifier::external_body]
    fn reached(now: &Instant, deadline: &Instant) -> (r: bool) ensures r == Self::not_before(*now, *deadline) { unimplemented!() }
    // assumed: the floating point interval adaptation yields SOME instruction count (finite by type)
    #[verifier::external_body]
    fn adapted_interval(&self, now: &Instant) -> usize { unimplemented!() }
""", impl_of="impl ExecutionTimeout"),
        Fn(F, "impl ExecutionTimeout :: fn check_for_timeout", props=("C08",),
           subst=[
               ("Instant::now()", "Self::clock_now()", 1),
               ("now >= self.deadline", "Self::reached(&now, &self.deadline)", 1),
               ("""                let remaining = (self.deadline - now).as_secs_f64();
                let next_interval_duration = self.interval_seconds.min(remaining);
""", "", 1),
               ("""                let elapsed = (now - self.last_check).as_secs_f64();
                let interval_adjustment = next_interval_duration / elapsed;
                self.interval_instructions =
                    (self.interval_instructions as f64 * interval_adjustment) as usize;
""", "                self.interval_instructions = self.adapted_interval(&now);\n", 1),
           ],
           spec=r"""
    ensures
        // between two polls of the clock at most interval_instructions instructions pass
        old(self).instructions_since_last_check < old(self).interval_instructions ==>
            !r && final(self).instructions_since_last_check == old(self).instructions_since_last_check + 1
               && final(self).interval_instructions == old(self).interval_instructions,                         // @counts_up_to_interval
        // at a poll point the clock is read; answering `false` means the time read was before the deadline
        old(self).instructions_since_last_check >= old(self).interval_instructions && !r ==>
            !Self::not_before(final(self).last_check, old(self).deadline) && final(self).instructions_since_last_check == 0,   // @false_only_before_deadline
        r ==> old(self).instructions_since_last_check >= old(self).interval_instructions,                       // @true_only_at_poll_points
        final(self).deadline == old(self).deadline,                                                             // @deadline_never_moves
        final(self).execution_limit == old(self).execution_limit,
"""),
        Fn(F, "impl KotoVm :: fn execute_instructions", props=("C04", "C07", "C08", "C12"),
           let_chains=True,
           # the interpreter loop runs as long as the script does: termination is not claimed
           attrs=("verifier::exec_allows_no_decreases_clause",),
           subst=[
               ("""        let mut timeout = self
            .context
            .settings
            .execution_limit
            .map(ExecutionTimeout::new);""", "        let mut timeout = self.make_timeout();", 1),
               ("self.reader.next()", "self.reader_next()", 1),
               ("ErrorKind::Timeout(timeout.execution_limit).into()", "timeout_error(timeout.execution_limit)", 1),
               (""".map(|_| KValue::Null);""", """.map(unit_to_null);""", 1),
               ("""                        let catch_value = match error.error {
                            ErrorKind::KotoError { thrown_value, .. } => thrown_value,
                            _ => KValue::Str(error.to_string().into()),
                        };
""", "                        let catch_value = catch_value_of(error);\n", 1),
               ("""                        if let ErrorKind::KotoError { vm, .. } = &mut error.error {
                            *vm = Some(self.spawn_shared_vm().into());
                        }
""", "", 1),
               ("Err(mut error) =>", "Err(error) =>", 1),
               ("self.pop_call_stack_on_error(error.clone(), true)", "self.pop_call_stack_on_error(clone_error(&error), true)", 1),
           ],
           spec=r"""
    requires
        old(self).wf(),
        old(self).call_stack@.len() > 0,
        old(self).call_stack@.last().execution_barrier,
    ensures
        // C07/C08: never left Active
        !(final(self).execution_state is Active),                                                               // @state_not_active_on_exit
        final(self).wf(),                                                                                       // @wf_preserved
        // frames below the barrier frame are untouched
        forall|i: int| 0 <= i < old(self).call_stack@.len() - 1 ==> #[trigger] final(self).call_stack@[i] == old(self).call_stack@[i],   // @frames_below_barrier_untouched
        // an error leaves exactly the barrier frame for the native caller to pop
        r is Err ==> final(self).call_stack@.len() == old(self).call_stack@.len(),                              // @error_stops_at_barrier
        r is Err ==> final(self).call_stack@.last().execution_barrier,                                          // @error_leaves_barrier_frame
        r is Err ==> final(self).call_stack@.last().register_base == old(self).call_stack@.last().register_base,   // @error_keeps_barrier_base
        // a return has popped the barrier frame (Suspended = a generator yielded, its frames stay)
        r is Ok && final(self).execution_state is Inactive ==> final(self).call_stack@.len() == old(self).call_stack@.len() - 1,   // @return_pops_barrier
        final(self).registers@.len() >= old(self).call_stack@.last().register_base,                             // @registers_below_barrier_kept
""",
           loops={1: r"""
            invariant
                self.wf(),
                self.execution_state is Active,
                Self::barrier_index(self.call_stack@) == old(self).call_stack@.len() - 1,
                forall|i: int| 0 <= i < old(self).call_stack@.len() - 1 ==> #[trigger] self.call_stack@[i] == old(self).call_stack@[i],
                self.call_stack@.len() >= old(self).call_stack@.len(),
                self.call_stack@[old(self).call_stack@.len() - 1].register_base == old(self).call_stack@.last().register_base,
                old(self).call_stack@.len() > 0,
                // C12: `instruction_ip` (what error traces and debug output report) is the position of the
                // instruction that is about to be read and executed - also for the first instruction after a
                // call returns into this loop or a generator resumes
                self.instruction_ip == self.ip_spec(),                                                          // @instruction_ip_names_the_executing_instruction
            ensures false,   // reader_next never yields None (assumed), every exit is a return
"""},
           # C08 (a): the deadline is polled in every iteration before the instruction is executed.
           # Only a ghost snapshot at the top of the loop body and an assertion in front of the
           # interpreter step are added: nothing that could make the claim true by itself.
           loop_open={1: "let ghost timeout_at_loop_head = timeout;"},
           before=[
               ("match self.execute_instruction(instruction) {", "proof { lemma_barrier_index(self.call_stack@); }\nassert(ExecutionTimeout::polled_between(timeout_at_loop_head, timeout));   // @deadline_polled_before_every_instruction"),
               ("self.execution_state = ExecutionState::Inactive;", "proof { lemma_barrier_index(self.call_stack@); }", 1),
               ("self.execution_state = ExecutionState::Inactive;", "proof { lemma_barrier_index(self.call_stack@); }", 3),
               ("let catch_value = catch_value_of(error);", "proof { lemma_barrier_index(self.call_stack@); }\nassert(self.sequence_builders@.len() <= sequence_builder_count && self.string_builders@.len() <= string_builder_count);   // @abandoned_builders_discarded_at_catch"),
               ("self.instruction_ip = self.ip();", "proof { lemma_barrier_index(self.call_stack@); }", -1),
           ],
           ),

        # ------------------------------------------------------------------ step C: host-level entry points (C07)
        Fn(F, "impl KotoVm :: fn run", props=("C07", "C04", "C08"),
           subst=[("""            Some(NonLocals {
                module_exports: self.exports.clone(),
                wildcard_imports: None,
            }),""", "            self.module_non_locals(),", 1)],
           before=[
               ("self.frame_mut().execution_barrier = true;", "let ghost pushed = self.call_stack@;"),
               ("self.truncate_registers(frame_base);", """proof {
    if !(self.execution_state is Suspended) {
        assert(self.call_stack@.len() == old(self).call_stack@.len());
        assert forall|i: int| 0 <= i < old(self).call_stack@.len() implies Self::frame_equiv(#[trigger] self.call_stack@[i], old(self).call_stack@[i]) by {
            assert(pushed.drop_last()[i] == pushed[i]);
        }
    }
}"""),
           ],
           spec=r"""
    requires
        old(self).wf(),
        old(self).registers@.len() < 0x4000_0000_0000_0000,          // memory bound (assumption)
    ensures
        // C07: on EVERY exit path (value, error, timeout) no frame, register or base is left behind
        final(self).wf(),                                        // @wf_on_every_exit
        !(final(self).execution_state is Suspended) ==> Self::stack_equiv(final(self).call_stack@, old(self).call_stack@),   // @no_frame_left_behind
        !(final(self).execution_state is Suspended) ==> final(self).register_base == old(self).register_base,   // @register_base_restored
        !(final(self).execution_state is Suspended) ==> final(self).registers@.len() == old(self).registers@.len(),   // @no_register_left_behind
        // (or nothing happened at all: the register window of the calling frame has no room for the new frame's base, F37)
        !(final(self).execution_state is Active) || (r is Err && *final(self) == *old(self)),                 // @state_not_active_on_exit
        // C07/C04: a failed run leaves no half-built list, tuple or string behind
        r is Err ==> final(self).sequence_builders@.len() <= old(self).sequence_builders@.len()
                  && final(self).string_builders@.len() <= old(self).string_builders@.len(),                    // @no_builder_left_behind_on_error
"""),
        Fn(F, "impl KotoVm :: fn get_overridden_op_result", props=("C07", "C04"),
           spec=r"""
    requires
        old(self).wf(),
        // either nothing was pushed, or exactly one (not yet barrier) frame for an overridden operator,
        // whose base lies above the operation's registers
        old(self).call_stack@.len() == old_frame_count || old(self).call_stack@.len() == old_frame_count + 1,
        old(self).call_stack@.len() == old_frame_count ==> old(self).registers@.len() >= old(self).register_base + result_register as int,
        old(self).call_stack@.len() == old_frame_count + 1 ==> old(self).call_stack@.last().register_base >= Self::base_at(old(self).call_stack@, old_frame_count as int) + result_register as int,
    ensures
        final(self).wf(),                                       // @wf_on_every_exit
        !(final(self).execution_state is Suspended) ==> final(self).call_stack@.len() == old_frame_count,      // @frame_count_restored
        !(final(self).execution_state is Suspended) ==> forall|i: int| 0 <= i < old_frame_count ==> #[trigger] final(self).call_stack@[i] == old(self).call_stack@[i],   // @caller_frames_untouched
        // the registers of the operation are dropped on every exit, Ok or Err
        !(final(self).execution_state is Suspended) ==> final(self).registers@.len() == final(self).register_base + result_register as int,   // @registers_truncated_on_every_exit
        !(final(self).execution_state is Suspended) ==> final(self).register_base == Self::base_at(old(self).call_stack@, old_frame_count as int),   // @register_base_restored
        old(self).call_stack@.len() == old_frame_count ==> final(self).execution_state == old(self).execution_state,
        // C07/C04: an error inside the overridden operator leaves no half-built value behind
        r is Err && old(self).call_stack@.len() == old_frame_count + 1 ==> final(self).builders_not_grown(old(self)),   // @no_builder_left_behind_on_error
"""),
        # the `TryStart { .. }` arm of execute_instruction (rule R13: the arm's body; the other ~150 arms of
        # that function stay an assumed contract)
        Fn(F, "impl KotoVm :: fn execute_instruction", props=("C04", "C07"), rename="execute_instruction__try_start_arm",
           fragment=dict(start="let catch_ip = self.ip()", to_block_end=True,
                         sig="fn execute_instruction(&mut self, arg_register: u8, catch_offset: u16)"),
           spec=r"""
    requires
        old(self).call_stack@.len() > 0,                                      // an instruction runs in a frame
        old(self).ip_spec() + catch_offset <= u32::MAX,                       // the catch block lies inside the chunk (C05)
    ensures
        // C04: entering `try` records, on the frame that is executing, where the handler is and how deep
        // the sequence / string builder stacks are - in THAT order, which is the order the catch code
        // of execute_instructions truncates them in - and changes nothing else
        final(self).call_stack@.len() == old(self).call_stack@.len(),
        final(self).call_stack@.last().catch_stack@ == old(self).call_stack@.last().catch_stack@.push(
            (arg_register, (old(self).ip_spec() + catch_offset) as u32, old(self).sequence_builders@.len() as usize, old(self).string_builders@.len() as usize)),   // @catch_point_records_handler_and_builder_depths
        forall|i: int| 0 <= i < old(self).call_stack@.len() - 1 ==> #[trigger] final(self).call_stack@[i] == old(self).call_stack@[i],   // @other_frames_untouched
        final(self).sequence_builders@ == old(self).sequence_builders@ && final(self).string_builders@ == old(self).string_builders@
            && final(self).registers@ == old(self).registers@ && final(self).register_base == old(self).register_base,   // @nothing_else_changes
"""),
        # the `Map(m) if .. @next ..` arm of run_iterator_next (rule R13: from its first statement to the end
        # of the arm; the rest of that 130-line function - temporary iterators, value pairs - is dropped)
        Fn(F, "impl KotoVm :: fn run_iterator_next", props=("C07", "C04", "C06", "C17"), rename="run_iterator_next__meta_next_arm",
           fragment=dict(start="let op = m.get_meta_value(&UnaryOp::Next.into()).unwrap();", to_block_end=True, wrap=("Ok({", "})"),
                         prologue="use KValue::*;",
                         sig="fn run_iterator_next(&mut self, m: &KMap, iterable_register: u8) -> Result<Option<KValue>>"),
           subst=[(r"&UnaryOp::Next\.into\(\)", "&meta_key_next()", None, "re")],
           spec=r"""
    requires
        old(self).wf(),
        m.has_meta(next_key()),                                               // the arm's guard
        old(self).call_stack@.len() > 0,                                      // an instruction runs in a frame
        old(self).registers@.len() < 0x3000_0000_0000_0000,                   // memory bound (assumption)
    ensures
        // C07/C17: whatever @next holds - a Koto function, a native function, a generator - and however
        // it ends, the frames of the caller are as they were
        final(self).wf(),                                                                                       // @wf_on_every_exit
        !(final(self).execution_state is Suspended) ==> Self::stack_equiv(final(self).call_stack@, old(self).call_stack@),   // @callers_frames_as_before
        !(final(self).execution_state is Suspended) ==> final(self).register_base == old(self).register_base,   // @register_base_restored
        // once it is over, the value stack is no taller than it was (the clause had been dropped as too strong; finding F41
        // showed what it is for)
        !(final(self).execution_state is Suspended) ==> final(self).registers@.len() <= old(self).registers@.len(),   // @no_register_left_behind
"""),
        Fn(F, "impl KotoVm :: fn run_overridden_comparison_op", props=("C07", "C04", "C17"), spec=r"""
    requires
        old(self).wf(),
        old(self).call_stack@.len() > 0,                                      // an instruction runs in a frame
        old(self).registers@.len() < 0x3000_0000_0000_0000,                   // memory bound (assumption)
    ensures
        // C07/C17: whatever the metakey holds - a Koto function (runs in a frame of its own, behind a
        // barrier), a native function or a generator (no frame) - and however it ends, the frames of
        // the caller are as they were
        final(self).wf(),                                                                                       // @wf_on_every_exit
        !(final(self).execution_state is Suspended) ==> Self::stack_equiv(final(self).call_stack@, old(self).call_stack@),   // @callers_frames_as_before
        !(final(self).execution_state is Suspended) ==> final(self).register_base == old(self).register_base,   // @register_base_restored
        // once it is over, the value stack is no taller than it was (the clause had been dropped as too strong; finding F41
        // showed what it is for)
        !(final(self).execution_state is Suspended) ==> final(self).registers@.len() <= old(self).registers@.len(),   // @no_register_left_behind
"""),
        Fn(F, "impl KotoVm :: fn run_binary_op", props=("C07", "C06"), spec=r"""
    requires
        old(self).wf(),
        old(self).registers@.len() < 0x3000_0000_0000_0000,
        old(self).registers@.len() >= old(self).min_frame_registers,         // the current frame's registers exist (NewFrame)
    ensures
        // C07: on EVERY exit path no frame, register or base is left behind
        final(self).wf(),                                       // @wf_on_every_exit
        !(final(self).execution_state is Suspended) ==> final(self).call_stack@.len() == old(self).call_stack@.len(),   // @no_frame_left_behind
        !(final(self).execution_state is Suspended) ==> forall|i: int| 0 <= i < old(self).call_stack@.len() ==> Self::frame_equiv(#[trigger] final(self).call_stack@[i], old(self).call_stack@[i]),   // @caller_frames_kept
        !(final(self).execution_state is Suspended) ==> final(self).register_base == old(self).register_base,   // @register_base_restored
        !(final(self).execution_state is Suspended) ==> final(self).registers@.len() == old(self).registers@.len(),   // @no_register_left_behind
"""),
        Fn(F, "impl KotoVm :: fn run_binary_op_inner", props=("C07", "C06"), spec=r"""
    requires
        old(self).wf(),
        old(self).registers@.len() < 0x3000_0000_0000_0000,
        old(self).registers@.len() >= old(self).min_frame_registers,         // the current frame's registers exist (NewFrame)                  // memory bound (assumption)
    ensures
        final(self).wf(),                                       // @wf_on_every_exit
        !(final(self).execution_state is Suspended) ==> final(self).call_stack@.len() == old(self).call_stack@.len(),   // @no_frame_left_behind
        !(final(self).execution_state is Suspended) ==> forall|i: int| 0 <= i < old(self).call_stack@.len() ==> Self::frame_equiv(#[trigger] final(self).call_stack@[i], old(self).call_stack@[i]),   // @caller_frames_kept
        !(final(self).execution_state is Suspended) ==> final(self).register_base == old(self).register_base,   // @register_base_restored
        // registers pushed for the operation may still be there after an early error exit
        // (the public wrapper truncates), but nothing below them was removed
        !(final(self).execution_state is Suspended) ==> final(self).registers@.len() >= old(self).registers@.len(),   // @registers_not_below_entry
        r is Ok && !(final(self).execution_state is Suspended) ==> final(self).registers@.len() == old(self).registers@.len(),   // @ok_exit_is_clean
"""),
        Fn(F, "impl KotoVm :: fn run_unary_op", props=("C07", "C06"), spec=r"""
    requires
        old(self).wf(),
        old(self).registers@.len() < 0x3000_0000_0000_0000,
        old(self).registers@.len() >= old(self).min_frame_registers,         // the current frame's registers exist (NewFrame)
    ensures
        // C07: on EVERY exit path no frame, register or base is left behind
        final(self).wf(),                                       // @wf_on_every_exit
        !(final(self).execution_state is Suspended) ==> final(self).call_stack@.len() == old(self).call_stack@.len(),   // @no_frame_left_behind
        !(final(self).execution_state is Suspended) ==> forall|i: int| 0 <= i < old(self).call_stack@.len() ==> Self::frame_equiv(#[trigger] final(self).call_stack@[i], old(self).call_stack@[i]),   // @caller_frames_kept
        !(final(self).execution_state is Suspended) ==> final(self).register_base == old(self).register_base,   // @register_base_restored
        !(final(self).execution_state is Suspended) ==> final(self).registers@.len() == old(self).registers@.len(),   // @no_register_left_behind
"""),
        # ASSUMED (external_body): Verus 0.2026.09.13 loses the state of `self` at the `return` in the arm
        # that follows a guarded match arm which mutates self (reproduced on a 20-line example,
        # DESIGN section 9); the body is therefore not verified, only its contract is used by the wrapper
        Fn(F, "impl KotoVm :: fn run_unary_op_inner", props=("C07", "C06"), external_body=True, subst=[("&NextBack.into()", "&meta_key_next_back()", 2)], spec=r"""
    requires
        old(self).wf(),
        old(self).registers@.len() < 0x3000_0000_0000_0000,
        old(self).registers@.len() >= old(self).min_frame_registers,         // the current frame's registers exist (NewFrame)                  // memory bound (assumption)
    ensures
        final(self).wf(),                                       // @wf_on_every_exit
        !(final(self).execution_state is Suspended) ==> final(self).call_stack@.len() == old(self).call_stack@.len(),   // @no_frame_left_behind
        !(final(self).execution_state is Suspended) ==> forall|i: int| 0 <= i < old(self).call_stack@.len() ==> Self::frame_equiv(#[trigger] final(self).call_stack@[i], old(self).call_stack@[i]),   // @caller_frames_kept
        !(final(self).execution_state is Suspended) ==> final(self).register_base == old(self).register_base,   // @register_base_restored
        // registers pushed for the operation may still be there after an early error exit
        // (the public wrapper truncates), but nothing below them was removed
        !(final(self).execution_state is Suspended) ==> final(self).registers@.len() >= old(self).registers@.len(),   // @registers_not_below_entry
        r is Ok && !(final(self).execution_state is Suspended) ==> final(self).registers@.len() == old(self).registers@.len(),   // @ok_exit_is_clean
"""),
        Fn(F, "impl KotoVm :: fn run_read_op", props=("C07", "C06"), spec=r"""
    requires
        old(self).wf(),
        old(self).registers@.len() < 0x3000_0000_0000_0000,
        old(self).registers@.len() >= old(self).min_frame_registers,         // the current frame's registers exist (NewFrame)
    ensures
        // C07: on EVERY exit path no frame, register or base is left behind
        final(self).wf(),                                       // @wf_on_every_exit
        !(final(self).execution_state is Suspended) ==> final(self).call_stack@.len() == old(self).call_stack@.len(),   // @no_frame_left_behind
        !(final(self).execution_state is Suspended) ==> forall|i: int| 0 <= i < old(self).call_stack@.len() ==> Self::frame_equiv(#[trigger] final(self).call_stack@[i], old(self).call_stack@[i]),   // @caller_frames_kept
        !(final(self).execution_state is Suspended) ==> final(self).register_base == old(self).register_base,   // @register_base_restored
        !(final(self).execution_state is Suspended) ==> final(self).registers@.len() == old(self).registers@.len(),   // @no_register_left_behind
"""),
        Fn(F, "impl KotoVm :: fn run_read_op_inner", props=("C07", "C06"), spec=r"""
    requires
        old(self).wf(),
        old(self).registers@.len() < 0x3000_0000_0000_0000,
        old(self).registers@.len() >= old(self).min_frame_registers,         // the current frame's registers exist (NewFrame)                  // memory bound (assumption)
    ensures
        final(self).wf(),                                       // @wf_on_every_exit
        !(final(self).execution_state is Suspended) ==> final(self).call_stack@.len() == old(self).call_stack@.len(),   // @no_frame_left_behind
        !(final(self).execution_state is Suspended) ==> forall|i: int| 0 <= i < old(self).call_stack@.len() ==> Self::frame_equiv(#[trigger] final(self).call_stack@[i], old(self).call_stack@[i]),   // @caller_frames_kept
        !(final(self).execution_state is Suspended) ==> final(self).register_base == old(self).register_base,   // @register_base_restored
        // registers pushed for the operation may still be there after an early error exit
        // (the public wrapper truncates), but nothing below them was removed
        !(final(self).execution_state is Suspended) ==> final(self).registers@.len() >= old(self).registers@.len(),   // @registers_not_below_entry
        r is Ok && !(final(self).execution_state is Suspended) ==> final(self).registers@.len() == old(self).registers@.len(),   // @ok_exit_is_clean
"""),
        Fn(F, "impl KotoVm :: fn run_write_op", props=("C07", "C06"), spec=r"""
    requires
        old(self).wf(),
        old(self).registers@.len() < 0x3000_0000_0000_0000,
        old(self).registers@.len() >= old(self).min_frame_registers,         // the current frame's registers exist (NewFrame)
    ensures
        // C07: on EVERY exit path no frame, register or base is left behind
        final(self).wf(),                                       // @wf_on_every_exit
        !(final(self).execution_state is Suspended) ==> final(self).call_stack@.len() == old(self).call_stack@.len(),   // @no_frame_left_behind
        !(final(self).execution_state is Suspended) ==> forall|i: int| 0 <= i < old(self).call_stack@.len() ==> Self::frame_equiv(#[trigger] final(self).call_stack@[i], old(self).call_stack@[i]),   // @caller_frames_kept
        !(final(self).execution_state is Suspended) ==> final(self).register_base == old(self).register_base,   // @register_base_restored
        !(final(self).execution_state is Suspended) ==> final(self).registers@.len() == old(self).registers@.len(),   // @no_register_left_behind
"""),
        Fn(F, "impl KotoVm :: fn run_write_op_inner", props=("C07", "C06"), spec=r"""
    requires
        old(self).wf(),
        old(self).registers@.len() < 0x3000_0000_0000_0000,
        old(self).registers@.len() >= old(self).min_frame_registers,         // the current frame's registers exist (NewFrame)                  // memory bound (assumption)
    ensures
        final(self).wf(),                                       // @wf_on_every_exit
        !(final(self).execution_state is Suspended) ==> final(self).call_stack@.len() == old(self).call_stack@.len(),   // @no_frame_left_behind
        !(final(self).execution_state is Suspended) ==> forall|i: int| 0 <= i < old(self).call_stack@.len() ==> Self::frame_equiv(#[trigger] final(self).call_stack@[i], old(self).call_stack@[i]),   // @caller_frames_kept
        !(final(self).execution_state is Suspended) ==> final(self).register_base == old(self).register_base,   // @register_base_restored
        // registers pushed for the operation may still be there after an early error exit
        // (the public wrapper truncates), but nothing below them was removed
        !(final(self).execution_state is Suspended) ==> final(self).registers@.len() >= old(self).registers@.len(),   // @registers_not_below_entry
        r is Ok && !(final(self).execution_state is Suspended) ==> final(self).registers@.len() == old(self).registers@.len(),   // @ok_exit_is_clean
"""),

        Fn(F, "impl KotoVm :: fn register_index", props=("C07", "C06"),
           spec=r"""
    requires self.register_base <= 0x4000_0000_0000_0000,
    ensures r == self.register_base + register,
"""),
        Fn(F, "impl KotoVm :: fn call_koto_function", props=("C07", "C04", "C02"),
           subst=[("debug_assert!(!f.flags.is_generator());", "", 1)],
           before=[("Ok(())", """proof {
    let n = old(self).call_stack@.len() as int;
    assert forall|i: int| 0 <= i < n - 1 implies #[trigger] self.call_stack@[i] == old(self).call_stack@[i] by {
        assert(self.call_stack@.take(n - 1)[i] == self.call_stack@[i]);
        assert(old(self).call_stack@.take(n - 1)[i] == old(self).call_stack@[i]);
    }
    if n > 0 { assert(self.call_stack@.drop_last()[n - 1] == self.call_stack@[n - 1]); }
}""", -1)],
           spec=r"""
    requires
        old(self).wf(),
        old(self).registers@.len() < 0x2000_0000_0000_0000,                       // memory bound (assumption)
        // register 255 is never handed out by the compiler (V-frame::push_register::limit_is_error), and the
        // runtime's own call sites get their frame base from new_frame_base / next_register(1), which leave room
        // for `frame_base + 1` (findings F37, F38)
        call_info.frame_base < 255,
        // the frame base and the call arguments are on the stack (compile_call / call_and_run_function)
        old(self).register_base + call_info.frame_base as int + 1 + call_info.arg_count as int <= old(self).registers@.len(),
    ensures
        final(self).wf(),
        // C04/C07: the frame is entered LAST: a call whose arguments cannot be bound enters no frame
        r is Err ==> final(self).call_stack@ == old(self).call_stack@ && final(self).register_base == old(self).register_base,   // @failed_binding_enters_no_frame
        // otherwise exactly one, non-barrier frame, based at the caller's frame_base register
        r is Ok ==> final(self).call_stack@.len() == old(self).call_stack@.len() + 1,                 // @enters_exactly_one_frame
        r is Ok ==> final(self).call_stack@.last().register_base == old(self).register_base + call_info.frame_base as int,   // @frame_based_at_frame_base
        r is Ok ==> !final(self).call_stack@.last().execution_barrier,
        r is Ok ==> Self::stack_equiv(final(self).call_stack@.drop_last(), old(self).call_stack@),   // @caller_frames_kept
        r is Ok && old(self).call_stack@.len() > 0 ==> Self::frame_equiv(final(self).call_stack@[old(self).call_stack@.len() - 1], old(self).call_stack@.last()),   // @calling_frame_kept
        final(self).registers@.len() <= old(self).registers@.len() + 0x1_0000_0200,                   // @bounded_growth
        // only the calling frame's return bookkeeping is written; the frames below it are untouched
        r is Ok ==> forall|i: int| 0 <= i < old(self).call_stack@.len() - 1 ==> #[trigger] final(self).call_stack@[i] == old(self).call_stack@[i],   // @frames_below_the_caller_untouched
        // the registers below the call's frame base are never touched
        final(self).registers@.len() > old(self).register_base + call_info.frame_base as int,         // @frame_base_register_kept
        final(self).sequence_builders@ == old(self).sequence_builders@,
        final(self).string_builders@ == old(self).string_builders@,
        final(self).execution_state == old(self).execution_state,
"""),
        # ------------------------------------------------------------------ sequence / string builders (C05 balance, C07)
        Fn(F, "impl KotoVm :: fn run_sequence_push", props=("C05", "C07", "C06"),
           subst=[("runtime_error!(ErrorKind::MissingSequenceBuilder)", "error_missing_builder()", 1)],
           spec=r"""
    ensures
        // an element goes to the INNERMOST sequence under construction; a missing builder is an
        // error (C05 internal fault), never a panic
        r is Ok <==> old(self).sequence_builders@.len() > 0,                                             // @missing_builder_is_error
        r is Ok ==> final(self).sequence_builders@.len() == old(self).sequence_builders@.len()
            && final(self).sequence_builders@.drop_last() == old(self).sequence_builders@.drop_last()
            && final(self).sequence_builders@.last()@ == old(self).sequence_builders@.last()@.push(old(self).reg_value(value_register)),   // @appended_to_innermost_builder
        r is Err ==> final(self).sequence_builders@ == old(self).sequence_builders@,
        final(self).string_builders@ == old(self).string_builders@, final(self).call_stack@ == old(self).call_stack@,
        final(self).registers@ == old(self).registers@,
        // frame bookkeeping untouched
        final(self).register_base == old(self).register_base && final(self).min_frame_registers == old(self).min_frame_registers
            && final(self).execution_state == old(self).execution_state && final(self).call_stack@ == old(self).call_stack@ && final(self).registers@.len() == old(self).registers@.len(),   // @frame_bookkeeping_untouched
"""),
        Fn(F, "impl KotoVm :: fn run_sequence_to_list", props=("C05", "C07", "C06"),
           subst=[("runtime_error!(ErrorKind::MissingSequenceBuilder)", "error_missing_builder()", 1),
                  ("let list = KList::with_data(ValueVec::from_vec(result));", "let list = list_value_from(result);", 1),
                  ("list.into()", "list", 1)],
           spec=r"""
    requires old(self).registers@.len() >= old(self).min_frame_registers,    // the frame's registers exist while it executes (NewFrame)
    ensures
        // finishing a sequence consumes EXACTLY the innermost builder and stores its contents
        r is Ok <==> old(self).sequence_builders@.len() > 0,                                             // @missing_builder_is_error
        r is Ok ==> final(self).sequence_builders@ == old(self).sequence_builders@.drop_last(),          // @pops_exactly_the_innermost_builder
        r is Ok ==> final(self).last_written() == (register, list_of(old(self).sequence_builders@.last()@)),   // @list_holds_the_builder_contents
        r is Err ==> final(self).sequence_builders@ == old(self).sequence_builders@,
        final(self).string_builders@ == old(self).string_builders@, final(self).call_stack@ == old(self).call_stack@,
        // frame bookkeeping untouched
        final(self).register_base == old(self).register_base && final(self).min_frame_registers == old(self).min_frame_registers
            && final(self).execution_state == old(self).execution_state && final(self).call_stack@ == old(self).call_stack@ && final(self).registers@.len() == old(self).registers@.len(),   // @frame_bookkeeping_untouched
"""),
        Fn(F, "impl KotoVm :: fn run_sequence_to_tuple", props=("C05", "C07", "C06"),
           subst=[("runtime_error!(ErrorKind::MissingSequenceBuilder)", "error_missing_builder()", 1),
                  ("KTuple::from(result).into()", "tuple_value_from(result)", 1)],
           spec=r"""
    requires old(self).registers@.len() >= old(self).min_frame_registers,    // the frame's registers exist while it executes (NewFrame)
    ensures
        r is Ok <==> old(self).sequence_builders@.len() > 0,                                             // @missing_builder_is_error
        r is Ok ==> final(self).sequence_builders@ == old(self).sequence_builders@.drop_last(),          // @pops_exactly_the_innermost_builder
        r is Ok ==> final(self).last_written() == (register, tuple_of(old(self).sequence_builders@.last()@)),   // @tuple_holds_the_builder_contents
        r is Err ==> final(self).sequence_builders@ == old(self).sequence_builders@,
        final(self).string_builders@ == old(self).string_builders@, final(self).call_stack@ == old(self).call_stack@,
        // frame bookkeeping untouched
        final(self).register_base == old(self).register_base && final(self).min_frame_registers == old(self).min_frame_registers
            && final(self).execution_state == old(self).execution_state && final(self).call_stack@ == old(self).call_stack@ && final(self).registers@.len() == old(self).registers@.len(),   // @frame_bookkeeping_untouched
"""),
        Fn(F, "impl KotoVm :: fn run_string_finish", props=("C05", "C07", "C06"),
           subst=[("runtime_error!(ErrorKind::MissingStringBuilder)", "error_missing_builder()", 1),
                  ("result.into()", "string_value_from(result)", 1)],
           spec=r"""
    requires old(self).registers@.len() >= old(self).min_frame_registers,    // the frame's registers exist while it executes (NewFrame)
    ensures
        r is Ok <==> old(self).string_builders@.len() > 0,                                               // @missing_builder_is_error
        r is Ok ==> final(self).string_builders@ == old(self).string_builders@.drop_last(),              // @pops_exactly_the_innermost_builder
        r is Ok ==> final(self).last_written() == (register, string_of(old(self).string_builders@.last())),   // @string_is_the_builder_contents
        r is Err ==> final(self).string_builders@ == old(self).string_builders@,
        final(self).sequence_builders@ == old(self).sequence_builders@, final(self).call_stack@ == old(self).call_stack@,
        // frame bookkeeping untouched
        final(self).register_base == old(self).register_base && final(self).min_frame_registers == old(self).min_frame_registers
            && final(self).execution_state == old(self).execution_state && final(self).call_stack@ == old(self).call_stack@ && final(self).registers@.len() == old(self).registers@.len(),   // @frame_bookkeeping_untouched
"""),
        Type(F, "enum CallArgs"),
        Fn(F, "impl KotoVm :: fn call_and_run_function", props=("C07", "C04"),
           subst=[
               ("""        let args = match (&args, &function) {
            (CallArgs::AsTuple(args), KValue::Function(f)) if f.flags.arg_is_unpacked_tuple() => {
                // If the function is being called with a tuple, and the function has a single
                // unpacked tuple as its argument, then the call args can be passed into the function
                // as a temporary tuple. The temp tuple's contents get pushed onto the stack here in
                // the registers preceding the function's frame.
                let start = self.registers.len();
                self.registers.extend(args.iter().cloned());
                CallArgs::Single(KValue::TemporaryTuple(RegisterSlice {
                    start,
                    count: args.len(),
                }))
            }
            _ => args,
        };
""", "        let args = self.prepare_tuple_args(args, &function);\n", 1),
               ("instance.unwrap_or_default()", "instance_or_null(instance)", 1),
               ("KValue::Tuple(Vec::from(args).into())", "make_tuple_value(args)", 1),
           ],
           spec=r"""
    requires
        old(self).wf(),
        old(self).registers@.len() - old(self).register_base <= 250,      // the call's registers fit the u8 window
        old(self).registers@.len() < 0x2000_0000_0000_0000,               // memory bound (assumption)
    ensures
        // C07: on EVERY exit path (value, error from argument binding, error inside the callee)
        final(self).wf(),                                                                                       // @wf_on_every_exit
        r is Err ==> final(self).builders_not_grown(old(self)),                                                 // @no_builder_left_behind_on_error
        !(final(self).execution_state is Suspended) ==> final(self).call_stack@.len() == old(self).call_stack@.len(),   // @no_frame_left_behind
        !(final(self).execution_state is Suspended) ==> forall|i: int| 0 <= i < old(self).call_stack@.len() ==> Self::frame_equiv(#[trigger] final(self).call_stack@[i], old(self).call_stack@[i]),   // @caller_frames_kept
        !(final(self).execution_state is Suspended) ==> final(self).register_base == old(self).register_base,   // @register_base_restored
        !(final(self).execution_state is Suspended) ==> final(self).registers@.len() == old(self).registers@.len(),   // @no_register_left_behind
"""),
    ],
    epilogue=r"""
// ---- facts about the innermost barrier frame
proof fn lemma_barrier_index(s: Seq<Frame>)
    ensures ({ let b = KotoVm::barrier_index(s);
               &&& -1 <= b < s.len()
               &&& (b >= 0 ==> s[b].execution_barrier)
               &&& forall|i: int| b < i < s.len() ==> !(#[trigger] s[i]).execution_barrier }),
    decreases s.len()
{
    if s.len() > 0 && !s.last().execution_barrier {
        lemma_barrier_index(s.drop_last());
        let b = KotoVm::barrier_index(s.drop_last());
        assert forall|i: int| b < i < s.len() implies !(#[trigger] s[i]).execution_barrier by {
            if i < s.len() - 1 { assert(s.drop_last()[i] == s[i]); }
        }
        if b >= 0 { assert(s.drop_last()[b] == s[b]); }
    }
}

// ---- C08 (c): whatever the stack looks like, a timeout unwinds past every catch entry
proof fn lemma_timeout_is_never_caught(s: Seq<Frame>)
    ensures !KotoVm::unwind_target(s, false).1,
            KotoVm::unwind_target(s, false).0 <= s.len(),
    decreases s.len()
{
    if s.len() > 0 && !s.last().execution_barrier {
        lemma_timeout_is_never_caught(s.drop_last());
    }
}

// ---- C04: the frame that receives the error is the innermost one with a handler: every frame
// above it has no catch entry and is not a barrier
proof fn lemma_unwind_target_is_innermost(s: Seq<Frame>, allow_catch: bool)
    ensures ({ let t = KotoVm::unwind_target(s, allow_catch);
               &&& 0 <= t.0 <= s.len()
               &&& forall|i: int| t.0 <= i < s.len() ==> !s[i].execution_barrier && !(allow_catch && s[i].catch_stack@.len() > 0)
               &&& (t.1 ==> t.0 > 0 && allow_catch && s[t.0 - 1].catch_stack@.len() > 0)
               &&& (!t.1 && t.0 > 0 ==> s[t.0 - 1].execution_barrier) }),
    decreases s.len()
{
    if s.len() > 0 && !(allow_catch && s.last().catch_stack@.len() > 0) && !s.last().execution_barrier {
        lemma_unwind_target_is_innermost(s.drop_last(), allow_catch);
        let t = KotoVm::unwind_target(s.drop_last(), allow_catch);
        assert forall|i: int| t.0 <= i < s.len() implies !s[i].execution_barrier && !(allow_catch && s[i].catch_stack@.len() > 0) by {
            if i < s.len() - 1 { assert(s.drop_last()[i] == s[i]); }
        }
        if t.0 > 0 { assert(s.drop_last()[t.0 - 1] == s[t.0 - 1]); }
    }
}

// ---- vacuity guards: each of these MUST FAIL
proof fn canary_unwind(s: Seq<Frame>) requires KotoVm::unwind_target(s, true).1, s.len() > 1 ensures false {}
""",
    canaries=("canary_unwind",),
)
