"""V-access: `.` access on maps (crates/runtime/src/vm.rs): get_core_op, and the `Map(map) => { .. }`
arm of run_access_inner (rule R13 keeps that arm's body from its first statement to the end of the
block; the function-local macro core_op! is expanded from its real text, rule R12). C17's "lookups
fall back through `@meta` entries and the `@base` chain".

Claimed: the answer is the one given by the FIRST map of the chain map, @base(map), @base(@base(map)), ..
that has the key among its entries or the name among its @meta entries - looked up in THAT map -, a map
without a metamap defers to the core library's map module, a non-map @base is an error.
Not claimed: termination on a cyclic @base chain; the other arms of run_access_inner (dropped by R13).

Contracts only. Function bodies come from /repo at run time.
"""
from engine.unit import Fn, Raw, Type, Unit

F = "crates/runtime/src/vm.rs"
M = "crates/runtime/src/types/meta_map.rs"
P = ("C17", "C06")

PRELUDE = r"""
global size_of usize == 8;   // assumption: 64-bit target
// ---- shims (assumptions)
#[verifier::external_body] pub struct Error { _p: u8 }
pub type Result<T> = core::result::Result<T, Error>;
#[verifier::external_body] pub struct ValueKey { _p: u8 }
#[verifier::external_body] pub struct KString { _p: u8 }
impl Clone for KString { #[verifier::external_body] fn clone(&self) -> (r: Self) ensures r == *self { unimplemented!() } }
#[verifier::external_body] pub struct MetaMapRef { _p: u8 }
pub enum MetaKey { Named(KString), Base, UnaryOp(UnaryOp), Other(u8) }
// `&UnaryOp::X.into()` (impl From<UnaryOp> for MetaKey), rule R5
fn unary_key(op: UnaryOp) -> (r: MetaKey) ensures r == MetaKey::UnaryOp(op) { MetaKey::UnaryOp(op) }

#[verifier::external_body] pub struct KMap { _p: u8 }
impl Clone for KMap { #[verifier::external_body] fn clone(&self) -> (r: Self) ensures r == *self { unimplemented!() } }
impl KMap {
    pub uninterp spec fn data(&self) -> Map<ValueKey, KValue>;
    pub uninterp spec fn has_meta_map(&self) -> bool;
    pub uninterp spec fn meta(&self) -> Map<MetaKey, KValue>;
    #[verifier::external_body]
    pub fn get(&self, k: &ValueKey) -> (r: Option<KValue>) ensures r == (if self.data().contains_key(*k) { Some(self.data()[*k]) } else { None }) { unimplemented!() }
    #[verifier::external_body]
    pub fn meta_map(&self) -> (r: Option<MetaMapRef>) ensures (r is Some) == self.has_meta_map() { unimplemented!() }
    #[verifier::external_body]
    fn contains_meta_key(&self, k: &MetaKey) -> (r: bool) ensures r == (self.has_meta_map() && self.meta().contains_key(*k)) { unimplemented!() }
    #[verifier::external_body]
    fn get_meta_value(&self, k: &MetaKey) -> (r: Option<KValue>)
        ensures r == (if self.has_meta_map() && self.meta().contains_key(*k) { Some(self.meta()[*k]) } else { None }) { unimplemented!() }
}
pub enum KValue { Null, Map(KMap), Other(u8) }
impl KValue { #[verifier::external_body] pub fn type_name(&self) -> &str { unimplemented!() } }
#[verifier::external_body] pub fn runtime_error_not_found_in_module<T>(key: &ValueKey, module_name: &str) -> (r: Result<T>) ensures r is Err { unimplemented!() }
#[verifier::external_body] pub fn runtime_error_not_found_in_value<T>(key: &ValueKey, v: &KValue) -> (r: Result<T>) ensures r is Err { unimplemented!() }
#[verifier::external_body] pub fn unexpected_type<T>(expected: &str, unexpected: &KValue) -> (r: Result<T>) ensures r is Err { unimplemented!() }

pub struct CoreLib { pub map: KMap, pub iterator: KMap }
pub struct Ptr<T> { pub v: T }
impl<T> core::ops::Deref for Ptr<T> { type Target = T; fn deref(&self) -> (r: &T) ensures *r == self.v { &self.v } }
pub struct VmContext { pub core_lib: CoreLib }
pub struct KotoVm { pub context: Ptr<VmContext>, pub regs: Ghost<Seq<KValue>> }

// ---- what the documentation says a lookup does (C17)
// what ONE map answers: an entry with the key, else an `@meta` entry with the name
spec fn own(m: KMap, key: ValueKey, name: KString) -> Option<KValue> {
    if m.data().contains_key(key) { Some(m.data()[key]) }
    else if m.has_meta_map() && m.meta().contains_key(MetaKey::Named(name)) { Some(m.meta()[MetaKey::Named(name)]) }
    else { None }
}
spec fn base(m: KMap) -> Option<KValue> { if m.has_meta_map() && m.meta().contains_key(MetaKey::Base) { Some(m.meta()[MetaKey::Base]) } else { None } }
// the k-th map of the chain map, @base(map), @base(@base(map)), ..
spec fn chain(m: KMap, k: nat) -> Option<KMap> decreases k {
    if k == 0 { Some(m) } else { match chain(m, (k - 1) as nat) { Some(a) => match base(a) { Some(KValue::Map(b)) => Some(b), _ => None }, None => None } }
}
// level k answers and no earlier level does (every earlier level has a metamap, else the core library is asked)
spec fn first_answer(m: KMap, key: ValueKey, name: KString, k: nat, v: KValue) -> bool {
    &&& chain(m, k) matches Some(a) && own(a, key, name) == Some(v)
    &&& forall|j: nat| j < k ==> ((#[trigger] chain(m, j)) matches Some(aj) && own(aj, key, name) is None && aj.has_meta_map())
}
"""

VM_SPECS = r"""
    pub uninterp spec fn reg(&self, r: u8) -> KValue;
    #[verifier::external_body]
    fn set_register(&mut self, r: u8, v: KValue) ensures final(self).reg(r) == v, final(self).context == old(self).context { unimplemented!() }
"""

UNIT = Unit(
    name="V-access",
    prelude=PRELUDE,
    items=[
        Type(M, "enum UnaryOp", derive="PartialEq, Eq, Clone, Copy"),
        Raw(VM_SPECS, impl_of="impl KotoVm"),
        Fn(F, "impl KotoVm :: fn get_core_op", props=P,
           subst=[("""runtime_error!("'{key}' not found in the '{module_name}' module")""", "runtime_error_not_found_in_module(key, module_name)", None)],
           spec=r"""
    ensures
        // the module's own entry wins; iterable values also get the iterator module's operations
        module.data().contains_key(*key) ==> r == Ok::<Option<KValue>, Error>(Some(module.data()[*key])),                                  // @module_entry_wins
        !module.data().contains_key(*key) && iterator_fallback && self.context.v.core_lib.iterator.data().contains_key(*key)
            ==> r == Ok::<Option<KValue>, Error>(Some(self.context.v.core_lib.iterator.data()[*key])),                                     // @iterator_module_is_the_fallback
        !module.data().contains_key(*key) && !(iterator_fallback && self.context.v.core_lib.iterator.data().contains_key(*key))
            ==> (if error_if_not_found { r is Err } else { r == Ok::<Option<KValue>, Error>(None) }),                                      // @not_found_is_an_error_or_none
"""),
        Fn(F, "impl KotoVm :: fn run_access_inner", props=P, rename="run_access_inner__map_arm",
           attrs=("verifier::exec_allows_no_decreases_clause",),
           fragment=dict(start="let mut access_map = map.clone();", to_block_end=True, prologue="use KValue::*;",
                         sig="fn run_access_inner(&mut self, result_register: u8, map: &KMap, accessed_value: KValue, key: ValueKey, key_string: KString, error_if_not_found: bool) -> Result<bool>"),
           macros=[("core_op", F, "impl KotoVm :: fn run_access_inner :: macro_rules! core_op")],
           subst=[(r"&UnaryOp::([A-Za-z]+)\.into\(\)", r"&unary_key(UnaryOp::\1)", None, "re"),
                  ("stringify!(map)", '"map"', None),
                  ("&accessed_value.type_as_string()", "accessed_value.type_name()", None),
                  (r"runtime_error!\(\s*\"'\{key\}' not found in '\{\}'\",\s*accessed_value\.type_as_string\(\)\s*\)", "runtime_error_not_found_in_value(&key, &accessed_value)", None, "re")],
           after_open="let ghost mut depth: nat = 0;",
           loops={1: """    invariant chain(*map, depth) == Some(access_map), *self == *old(self),
        access_result matches Some(v) ==> own(access_map, key, key_string) == Some(v),
        forall|j: nat| j < depth ==> ((#[trigger] chain(*map, j)) matches Some(aj) && own(aj, key, key_string) is None && aj.has_meta_map()),
    ensures
        // left without an answer: the last map of the chain has a metamap, no answer and no @base
        access_result is None ==> own(access_map, key, key_string) is None && access_map.has_meta_map() && base(access_map) is None,"""},
           loop_open={1: "proof { assert(chain(*map, 0) == Some(*map)); assert(depth > 0 ==> chain(*map, 1) is Some); }"},
           before=[("access_map = base;", "proof { depth = depth + 1; }"),
                   ("if access_result.is_none()", "proof { assert(access_result is None ==> chain(*map, depth + 1) is None); assert(chain(*map, 0) == Some(*map)); assert(depth > 0 ==> chain(*map, 1) is Some); }"),
                   ('return unexpected_type("Map as base value", &unexpected);', "proof { assert(chain(*map, depth + 1) is None); }")],
           spec=r"""
    ensures
        // C17: the first map of the @base chain that has the key (as an entry, else as an @meta entry
        // OF THAT MAP) gives the answer
        forall|k: nat, v: KValue| first_answer(*map, key, key_string, k, v) ==> r == Ok::<bool, Error>(true) && final(self).reg(result_register) == v,   // @first_answer_in_the_base_chain_wins
        // a map without a metamap (and without the entry) defers to the core library's map module
        !map.data().contains_key(key) && !map.has_meta_map() && old(self).context.v.core_lib.map.data().contains_key(key)
            ==> r == Ok::<bool, Error>(true) && final(self).reg(result_register) == old(self).context.v.core_lib.map.data()[key],               // @plain_map_uses_the_core_library
        // a @base that is not a map is an error
        own(*map, key, key_string) is None && (base(*map) matches Some(b) && !(b is Map)) ==> r is Err,                                     // @non_map_base_is_an_error
"""),
    ],
    epilogue=r"""
// ---- vacuity guard: MUST FAIL
proof fn canary_access(m: KMap, key: ValueKey, name: KString, v: KValue) requires first_answer(m, key, name, 2, v) ensures false {}
""",
    canaries=("canary_access",),
)
