"""V-valuekey: map keys (crates/runtime/src/types/value_key.rs impl PartialEq / TryFrom<KValue> for
ValueKey) over the REAL KValue enum declaration: C14's "two keys address the same entry exactly when
they are equal as values".

The element-wise walk over two tuples (`iter().zip().all(closure)`, outside Verus) is an assumed step;
what is proved is everything around it: which variants are comparable, that tuples of different length
are different keys, and that only hashable values become keys.

Contracts only. Function bodies come from /repo at run time.
"""
from engine.unit import Fn, Raw, Type, Unit

K = "crates/runtime/src/types/value_key.rs"
VAL = "crates/runtime/src/types/value.rs"
P = ("C14", "C06")

PRELUDE = r"""
global size_of usize == 8;   // assumption: 64-bit target
// ---- shims (assumptions): the payload types of KValue are opaque; their own `==` is an
// uninterpreted relation (KNumber's is proved in K-number, the others are derived / std)
#[verifier::external_body] pub struct KNumber { _p: u8 }
#[verifier::external_body] pub struct KRange { _p: u8 }
#[verifier::external_body] pub struct KList { _p: u8 }
#[verifier::external_body] pub struct KTuple { _p: u8 }
#[verifier::external_body] pub struct KMap { _p: u8 }
#[verifier::external_body] pub struct KString { _p: u8 }
#[verifier::external_body] pub struct KFunction { _p: u8 }
#[verifier::external_body] pub struct KNativeFunction { _p: u8 }
#[verifier::external_body] pub struct KIterator { _p: u8 }
#[verifier::external_body] pub struct KObject { _p: u8 }
#[verifier::external_body] pub struct RegisterSlice { _p: u8 }
#[verifier::external_body] pub struct Error { _p: u8 }
pub uninterp spec fn num_eq(a: KNumber, b: KNumber) -> bool;
pub uninterp spec fn str_eq(a: KString, b: KString) -> bool;
pub uninterp spec fn range_eq(a: KRange, b: KRange) -> bool;
// `a == b` on the payload types (rule R5)
#[verifier::external_body] pub fn number_eq(a: &KNumber, b: &KNumber) -> (r: bool) ensures r == num_eq(*a, *b) { unimplemented!() }
#[verifier::external_body] pub fn string_eq(a: &KString, b: &KString) -> (r: bool) ensures r == str_eq(*a, *b) { unimplemented!() }
#[verifier::external_body] pub fn range_eq_exec(a: &KRange, b: &KRange) -> (r: bool) ensures r == range_eq(*a, *b) { unimplemented!() }
impl KTuple {
    pub uninterp spec fn slen(&self) -> nat;
    #[verifier::external_body] pub fn len(&self) -> (r: usize) ensures r == self.slen() { unimplemented!() }
}
// every pair (a[i], b[i]), i < min(len a, len b), is a pair of equal keys
pub uninterp spec fn zipped_keys_equal(a: KTuple, b: KTuple) -> bool;
// `a.iter().zip(b.iter()).all(|(x, y)| Self(x.clone()) == Self(y.clone()))` (rule R5): ASSUMED
#[verifier::external_body]
pub fn all_zipped_keys_equal(a: &KTuple, b: &KTuple) -> (r: bool) ensures r == zipped_keys_equal(*a, *b) { unimplemented!() }
// runtime_error!("only hashable values can be used as value keys") (rule R5)
#[verifier::external_body]
pub fn runtime_error_not_hashable<T>() -> (r: Result<T, Error>) ensures r is Err { unimplemented!() }
"""

UNIT = Unit(
    name="V-valuekey",
    prelude=PRELUDE,
    items=[
        Type(VAL, "enum KValue"),
        Raw(r"""
impl KValue {
    pub uninterp spec fn hashable(&self) -> bool;
    // assumed contract of KValue::is_hashable (value.rs; recursion over tuple elements with iterator adaptors)
    #[verifier::external_body]
    pub fn is_hashable(&self) -> (r: bool) ensures r == self.hashable() { unimplemented!() }
}
// C14: when two values are the same map key. Values of different kinds never are; tuples are when
// they have the same length and equal elements
spec fn same_key(a: KValue, b: KValue) -> bool {
    match (a, b) {
        (KValue::Null, KValue::Null) => true,
        (KValue::Bool(x), KValue::Bool(y)) => x == y,
        (KValue::Number(x), KValue::Number(y)) => num_eq(x, y),
        (KValue::Str(x), KValue::Str(y)) => str_eq(x, y),
        (KValue::Range(x), KValue::Range(y)) => range_eq(x, y),
        (KValue::Tuple(x), KValue::Tuple(y)) => x.slen() == y.slen() && zipped_keys_equal(x, y),
        _ => false,
    }
}
"""),
        Type(K, "struct ValueKey"),
        Fn(K, "impl PartialEq for ValueKey :: fn eq", props=P, impl_as="impl ValueKey", rename="eq_keys",
           subst=[("(Number(a), Number(b)) => a == b,", "(Number(a), Number(b)) => number_eq(a, b),", 1),
                  ("(Str(a), Str(b)) => a == b,", "(Str(a), Str(b)) => string_eq(a, b),", 1),
                  ("(Range(a), Range(b)) => a == b,", "(Range(a), Range(b)) => range_eq_exec(a, b),", 1),
                  (r"a\s*\.iter\(\)\s*\.zip\(b\.iter\(\)\)\s*\.all\(\|\(value_a, value_b\)\| Self\(value_a\.clone\(\)\) == Self\(value_b\.clone\(\)\)\)", "all_zipped_keys_equal(a, b)", 1, "re")],
           spec=r"""
    ensures r == same_key(self.0, other.0),                                                               // @keys_equal_exactly_when_values_equal
"""),
        Fn(K, "impl TryFrom<KValue> for ValueKey :: fn try_from", props=P, impl_as="impl ValueKey", rename="try_from_value",
           subst=[("Result<Self, Self::Error>", "Result<Self, Error>", 1),
                  ('runtime_error!("only hashable values can be used as value keys")', "runtime_error_not_hashable()", None)],
           spec=r"""
    ensures
        (r is Ok) == value.hashable(),                                                                    // @only_hashable_values_are_keys
        r matches Ok(k) ==> k.0 == value,                                                                 // @key_wraps_the_value_unchanged
"""),
    ],
    epilogue=r"""
// ---- vacuity guard: MUST FAIL
proof fn canary_valuekey(a: KTuple, b: KTuple) requires same_key(KValue::Tuple(a), KValue::Tuple(b)) ensures false {}
""",
    canaries=("canary_valuekey",),
)
