"""V-adaptors: iterator adaptor state machines (crates/runtime/src/core_lib/iterator/adaptors.rs).

Contracts only. Function bodies come from /repo at run time.
"""
from engine.unit import Fn, Raw, Type, Unit

F = "crates/runtime/src/core_lib/iterator/adaptors.rs"
P = ("C13", "C06")

PRELUDE = r"""
global size_of usize == 8;   // assumption: 64-bit target

// ---- shims (assumptions)
#[verifier::external_body] struct OpaqueValue { _p: u8 }
// KValue: the variants the adaptors name, plus an opaque catch-all
enum KValue { Bool(bool), Other(OpaqueValue) }
impl Clone for KValue { #[verifier::external_body] fn clone(&self) -> (r: Self) ensures r == *self { unimplemented!() } }
#[verifier::external_body] struct Error { _p: u8 }
impl Clone for Error { #[verifier::external_body] fn clone(&self) -> (r: Self) ensures r == *self { unimplemented!() } }
// the real enum (types/iterator.rs KIteratorOutput) has exactly these three variants
enum KIteratorOutput { Value(KValue), ValuePair(KValue, KValue), Error(Error) }
type Output = KIteratorOutput;
impl Clone for KIteratorOutput { #[verifier::external_body] fn clone(&self) -> (r: Self) ensures r == *self { unimplemented!() } }
// `KValue::try_from(output)` (impl TryFrom<KIteratorOutput> for KValue): a value stays, a pair
// becomes a tuple value, an error is handed back
uninterp spec fn pair_as_value(a: KValue, b: KValue) -> KValue;
spec fn as_value(o: Output) -> Option<KValue> {
    match o { KIteratorOutput::Value(v) => Some(v), KIteratorOutput::ValuePair(a, b) => Some(pair_as_value(a, b)), KIteratorOutput::Error(_) => None }
}
#[verifier::external_body]
fn kvalue_try_from(o: Output) -> (r: Result<KValue, Error>)
    ensures (r is Ok) == (as_value(o) is Some), r matches Ok(v) ==> Some(v) == as_value(o), r matches Err(e) ==> o == KIteratorOutput::Error(e)
{ unimplemented!() }
// `value.into()` (impl From<KValue> for KIteratorOutput)
#[verifier::external_body]
fn value_into_output(v: KValue) -> (r: Output) ensures r == KIteratorOutput::Value(v) { unimplemented!() }

// ---- calling back into Koto (take_while / keep predicates): the answer of the predicate for a
// given argument is an uninterpreted function of that argument (a predicate with side effects that
// answers differently for the same element is outside the model)
#[verifier::external_body] struct InstructionFrame { _p: u8 }
impl Clone for InstructionFrame { #[verifier::external_body] fn clone(&self) -> (r: Self) ensures r == *self { unimplemented!() } }
#[verifier::external_body] struct PairArgs { _p: u8 }
uninterp spec fn pair_args_spec(a: KValue, b: KValue) -> PairArgs;
// `CallArgs::AsTuple(&[a.clone(), b.clone()])` (rule R5)
#[verifier::external_body]
fn pair_args(a: KValue, b: KValue) -> (r: PairArgs) ensures r == pair_args_spec(a, b) { unimplemented!() }
uninterp spec fn answer<A>(f: KValue, args: A) -> Result<KValue, Error>;
#[verifier::external_body] struct KotoVm { _p: u8 }
impl KotoVm {
    #[verifier::external_body]
    fn call_function<A>(&mut self, f: KValue, args: A) -> (r: Result<KValue, Error>) ensures r == answer(f, args) { unimplemented!() }
}
impl Error {
    #[verifier::external_body]
    fn extend_trace(&mut self, frame: InstructionFrame) { unimplemented!() }
}
// what the predicate says about an element: 0 = the element is an error of the source,
// 1 = holds, 2 = does not hold, 3 = the predicate failed or did not answer with a Bool
spec fn bool_verdict(a: Result<KValue, Error>) -> int {
    match a { Ok(KValue::Bool(b)) => if b { 1 } else { 2 }, _ => 3 }
}
spec fn verdict(p: KValue, o: Output) -> int {
    match o {
        KIteratorOutput::Error(_) => 0,
        KIteratorOutput::Value(v) => bool_verdict(answer(p, v)),
        KIteratorOutput::ValuePair(a, b) => bool_verdict(answer(p, pair_args_spec(a, b))),
    }
}
// core_lib/iterator.rs collect_pair: a pair becomes ONE tuple value, anything else is unchanged (assumed)
spec fn collected(o: Output) -> Output {
    match o { KIteratorOutput::ValuePair(a, b) => KIteratorOutput::Value(pair_as_value(a, b)), other => other }
}
#[verifier::external_body]
fn collect_pair(o: Output) -> (r: Output) ensures r == collected(o) { unimplemented!() }

// the position of the first element the predicate does not reject (or the length)
spec fn first_kept(p: KValue, s: Seq<Output>) -> int decreases s.len() {
    if s.len() == 0 { 0 } else if verdict(p, s[0]) != 2 { 0 } else { 1 + first_kept(p, s.drop_first()) }
}
proof fn lemma_first_kept_bounds(p: KValue, s: Seq<Output>)
    ensures 0 <= first_kept(p, s) <= s.len(),
            first_kept(p, s) < s.len() ==> verdict(p, s[first_kept(p, s)]) != 2,
    decreases s.len()
{
    if s.len() > 0 && verdict(p, s[0]) == 2 {
        lemma_first_kept_bounds(p, s.drop_first());
        let k = first_kept(p, s.drop_first());
        if k < s.drop_first().len() { assert(s.drop_first()[k] == s[k + 1]); }
    }
}
// `Error::with_error_frame(ErrorKind::UnexpectedType { .. }, frame)` (rule R5)
#[verifier::external_body]
fn unexpected_bool_error(unexpected: KValue, frame: InstructionFrame) -> Error { unimplemented!() }

// The adapted iterator: an opaque sequence source. `rem()` is the (finite) sequence of outputs it
// still has to yield; next pops the head, next_back pops the last, nth(n) drops n and pops.
// This is the contract V-cursors / V-range prove for the built-in sources; a side-effecting
// generator that changes what it yields depending on who asks is outside the model.
#[verifier::external_body] struct KIterator { _p: u8 }
impl KIterator {
    uninterp spec fn rem(&self) -> Seq<Output>;

    #[verifier::external_body]
    fn next(&mut self) -> (r: Option<Output>)
        ensures
            old(self).rem().len() > 0 ==> r == Some(old(self).rem()[0]) && final(self).rem() == old(self).rem().drop_first(),
            old(self).rem().len() == 0 ==> r is None && final(self).rem() == old(self).rem(),
    { unimplemented!() }

    #[verifier::external_body]
    fn next_back(&mut self) -> (r: Option<Output>)
        ensures
            old(self).rem().len() > 0 ==> r == Some(old(self).rem().last()) && final(self).rem() == old(self).rem().drop_last(),
            old(self).rem().len() == 0 ==> r is None && final(self).rem() == old(self).rem(),
    { unimplemented!() }

    // std's default Iterator::nth: n calls to next, then one more
    #[verifier::external_body]
    fn nth(&mut self, n: usize) -> (r: Option<Output>)
        ensures
            n < old(self).rem().len() ==> r == Some(old(self).rem()[n as int]) && final(self).rem() == old(self).rem().skip(n as int + 1),
            n >= old(self).rem().len() ==> r is None && final(self).rem().len() == 0,
    { unimplemented!() }
}

// `take(&mut self.remaining)` is core::mem::take on a usize (rule R5)
#[verifier::external_body]
fn take_usize(dest: &mut usize) -> (r: usize) ensures r == *old(dest), *final(dest) == 0 { unimplemented!() }

spec fn min(a: int, b: int) -> int { if a < b { a } else { b } }
"""

UNIT = Unit(
    name="V-adaptors",
    prelude=PRELUDE,
    items=[
        # ------------------------------------------------------------------ take
        Type(F, "struct Take"),
        Raw(r"""
    // the mathematical definition: the first `remaining` elements of the source
    spec fn view(&self) -> Seq<Output> { self.iter.rem().take(min(self.remaining as int, self.iter.rem().len() as int)) }
""", impl_of="impl Take"),
        Fn(F, "impl Iterator for Take :: fn next", props=P, impl_as="impl Take",
           subst=[("Option<Self::Item>", "Option<Output>", 1)],
           spec=r"""
    ensures
        old(self).view().len() > 0 ==> r == Some(old(self).view()[0]),                                   // @yields_head_of_definition
        old(self).view().len() == 0 ==> r is None,                                                       // @none_when_definition_is_empty
        final(self).view() =~= (if old(self).view().len() > 0 { old(self).view().drop_first() } else { old(self).view() }),   // @rest_of_definition
        // laziness: exactly one source element is pulled per yielded element, none once n were taken
        old(self).remaining > 0 && old(self).iter.rem().len() > 0 ==> final(self).iter.rem() == old(self).iter.rem().drop_first(),   // @pulls_exactly_one
        old(self).remaining == 0 ==> final(self).iter.rem() == old(self).iter.rem(),                     // @source_untouched_after_n
"""),
        # ------------------------------------------------------------------ skip
        Type(F, "struct Skip"),
        Raw(r"""
    // the mathematical definition: the source without its first `remaining` elements
    spec fn view(&self) -> Seq<Output> { self.iter.rem().skip(min(self.remaining as int, self.iter.rem().len() as int)) }
""", impl_of="impl Skip"),
        Fn(F, "impl Iterator for Skip :: fn next", props=P, impl_as="impl Skip",
           subst=[("Option<Self::Item>", "Option<Output>", 1), ("take(&mut self.remaining)", "take_usize(&mut self.remaining)", 1)],
           spec=r"""
    ensures
        old(self).view().len() > 0 ==> r == Some(old(self).view()[0]),                                   // @yields_head_of_definition
        old(self).view().len() == 0 ==> r is None,                                                       // @none_when_definition_is_empty
        final(self).view() =~= (if old(self).view().len() > 0 { old(self).view().drop_first() } else { old(self).view() }),   // @rest_of_definition
        // laziness: the skipped elements and the yielded one are pulled, nothing more
        old(self).view().len() > 0 ==> final(self).iter.rem() =~= old(self).view().drop_first(),         // @pulls_no_more_than_needed
"""),
        Fn(F, "impl KotoIterator for Skip :: fn next_back", props=P, impl_as="impl Skip",
           spec=r"""
    ensures
        // reversing a skipped sequence: the last element of the definition, never a skipped one
        old(self).view().len() > 0 ==> r == Some(old(self).view().last()),                               // @yields_last_of_definition
        old(self).view().len() == 0 ==> r is None,                                                       // @none_when_definition_is_empty
        final(self).view() =~= (if old(self).view().len() > 0 { old(self).view().drop_last() } else { old(self).view() }),   // @rest_of_definition
"""),
        # ------------------------------------------------------------------ chain
        Type(F, "struct Chain"),
        Raw(r"""
    // the mathematical definition: a followed by b
    spec fn view(&self) -> Seq<Output> {
        match self.iter_a { Some(a) => a.rem() + self.iter_b.rem(), None => self.iter_b.rem() }
    }
""", impl_of="impl Chain"),
        Fn(F, "impl Iterator for Chain :: fn next", props=P, impl_as="impl Chain",
           subst=[("Option<Self::Item>", "Option<Output>", 1)],
           spec=r"""
    ensures
        old(self).view().len() > 0 ==> r == Some(old(self).view()[0]),                                   // @yields_head_of_definition
        old(self).view().len() == 0 ==> r is None,                                                       // @none_when_definition_is_empty
        final(self).view() =~= (if old(self).view().len() > 0 { old(self).view().drop_first() } else { old(self).view() }),   // @rest_of_definition
        // laziness: b is not pulled while a still has elements
        (old(self).iter_a matches Some(a) && a.rem().len() > 0) ==> final(self).iter_b.rem() == old(self).iter_b.rem(),   // @b_untouched_while_a_yields
"""),
        # ------------------------------------------------------------------ reversed
        Type(F, "struct Reversed"),
        Raw(r"""
    // the mathematical definition: the source backwards
    spec fn view(&self) -> Seq<Output> { self.iter.rem().reverse() }
""", impl_of="impl Reversed"),
        Fn(F, "impl Iterator for Reversed :: fn next", props=P, impl_as="impl Reversed",
           subst=[("Option<Self::Item>", "Option<Output>", 1)],
           spec=r"""
    ensures
        old(self).view().len() > 0 ==> r == Some(old(self).view()[0]),                                   // @yields_head_of_definition
        old(self).view().len() == 0 ==> r is None,                                                       // @none_when_definition_is_empty
        final(self).view() =~= (if old(self).view().len() > 0 { old(self).view().drop_first() } else { old(self).view() }),   // @rest_of_definition
"""),
        Fn(F, "impl KotoIterator for Reversed :: fn next_back", props=P, impl_as="impl Reversed",
           spec=r"""
    ensures
        old(self).view().len() > 0 ==> r == Some(old(self).view().last()),                               // @yields_last_of_definition
        old(self).view().len() == 0 ==> r is None,
        final(self).view() =~= (if old(self).view().len() > 0 { old(self).view().drop_last() } else { old(self).view() }),   // @rest_of_definition
"""),

        # ------------------------------------------------------------------ step
        Type(F, "struct Step"),
        Raw(r"""
    spec fn wf(&self) -> bool { self.step >= 1 }     // Step::new rejects 0
""", impl_of="impl Step"),
        Fn(F, "impl Iterator for Step :: fn next", props=P, impl_as="impl Step",
           # `it:` names Verus' ghost loop iterator (annotation only, rule R6)
           subst=[("Option<Self::Item>", "Option<Output>", 1), ("for _ in 0..self.step - 1 {", "for _ in it: 0..self.step - 1 {", 1)],
           loops={1: r"""
            invariant
                self.step == old(self).step, old(self).step >= 1,
                self.iter.rem() =~= old(self).iter.rem().skip(min(1 + it.index@ as int, old(self).iter.rem().len() as int)),
            ensures
                // (the loop is left early once the source is exhausted: nothing is left to skip)
                self.iter.rem() =~= old(self).iter.rem().skip(min(old(self).step as int, old(self).iter.rem().len() as int)),
"""},
           spec=r"""
    requires old(self).wf(),
    ensures
        // the mathematical definition: every step-th element, starting with the first remaining one
        old(self).iter.rem().len() > 0 ==> r == Some(old(self).iter.rem()[0]),                           // @yields_head_of_definition
        old(self).iter.rem().len() == 0 ==> r is None,                                                   // @none_when_definition_is_empty
        // the next element yielded will be the one `step` positions further on
        final(self).iter.rem() =~= old(self).iter.rem().skip(min(old(self).step as int, old(self).iter.rem().len() as int)),   // @advances_by_step
        final(self).step == old(self).step,
"""),

        # ------------------------------------------------------------------ pair_first / pair_second
        Type(F, "struct PairFirst"),
        Fn(F, "impl Iterator for PairFirst :: fn next", props=P, impl_as="impl PairFirst",
           subst=[("Option<Self::Item>", "Option<Output>", 1)],
           spec=r"""
    ensures
        // keys of a map iteration: the first half of a pair, anything else unchanged; one pull per element
        old(self).iter.rem().len() > 0 ==> r == Some(match old(self).iter.rem()[0] { KIteratorOutput::ValuePair(first, _) => KIteratorOutput::Value(first), other => other }),   // @first_of_pair
        old(self).iter.rem().len() == 0 ==> r is None,
        final(self).iter.rem() =~= (if old(self).iter.rem().len() > 0 { old(self).iter.rem().drop_first() } else { old(self).iter.rem() }),   // @pulls_exactly_one
"""),
        Type(F, "struct PairSecond"),
        Fn(F, "impl Iterator for PairSecond :: fn next", props=P, impl_as="impl PairSecond",
           subst=[("Option<Self::Item>", "Option<Output>", 1)],
           spec=r"""
    ensures
        old(self).iter.rem().len() > 0 ==> r == Some(match old(self).iter.rem()[0] { KIteratorOutput::ValuePair(_, second) => KIteratorOutput::Value(second), other => other }),   // @second_of_pair
        old(self).iter.rem().len() == 0 ==> r is None,
        final(self).iter.rem() =~= (if old(self).iter.rem().len() > 0 { old(self).iter.rem().drop_first() } else { old(self).iter.rem() }),   // @pulls_exactly_one
"""),
        # ------------------------------------------------------------------ cycle
        Type(F, "struct Cycle"),
        Fn(F, "impl Iterator for Cycle :: fn next", props=P, impl_as="impl Cycle",
           subst=[("Option<Self::Item>", "Option<Output>", 1),
                  ("KValue::try_from(output)", "kvalue_try_from(output)", 1),
                  ("Some(value.into())", "Some(value_into_output(value))", 1),
                  ("Some(result.into())", "Some(value_into_output(result))", 1)],
           spec=r"""
    requires old(self).cycle_index <= old(self).cache@.len(), old(self).cache@.len() < usize::MAX,
    ensures
        final(self).cycle_index <= final(self).cache@.len(),
        // first pass: the source's elements are passed through and remembered, in order
        (old(self).iter.rem().len() > 0 && as_value(old(self).iter.rem()[0]) is Some) ==> ({
            let v = as_value(old(self).iter.rem()[0])->0;
            &&& r == Some(KIteratorOutput::Value(v)) && final(self).cache@ == old(self).cache@.push(v)
            &&& final(self).iter.rem() == old(self).iter.rem().drop_first() && final(self).cycle_index == old(self).cycle_index }),   // @first_pass_remembers
        // an empty source cycles to nothing
        old(self).iter.rem().len() == 0 && old(self).cache@.len() == 0 ==> r is None,                    // @empty_cycle_is_empty
        // afterwards the remembered elements repeat in their original order, wrapping around
        old(self).iter.rem().len() == 0 && old(self).cache@.len() > 0 ==> ({
            let i = if old(self).cycle_index == old(self).cache@.len() { 0 } else { old(self).cycle_index as int };
            &&& r == Some(KIteratorOutput::Value(old(self).cache@[i]))
            &&& final(self).cycle_index == i + 1
            &&& final(self).cache@ == old(self).cache@ }),                                             // @repeats_in_order
"""),
        # ------------------------------------------------------------------ take_while (iterator.take with a predicate)
        Type(F, "struct TakeWhile"),
        Fn(F, "impl Iterator for TakeWhile :: fn next", props=P, impl_as="impl TakeWhile",
           subst=[("Option<Self::Item>", "Option<Output>", 1),
                  ("CallArgs::AsTuple(&[a.clone(), b.clone()])", "pair_args(a.clone(), b.clone())", 1),
                  ("""                let error = Error::with_error_frame(
                    ErrorKind::UnexpectedType {
                        expected: "Bool from the predicate".into(),
                        unexpected,
                    },
                    self.error_frame.clone(),
                );""", "                let error = unexpected_bool_error(unexpected, self.error_frame.clone());", 1)],
           spec=r"""
    ensures
        // once the predicate has said no, the adaptor is finished for good and never touches the source again
        old(self).finished ==> r is None && final(self).finished && final(self).iter.rem() == old(self).iter.rem(),   // @finished_is_final
        !old(self).finished && old(self).iter.rem().len() == 0 ==> r is None,                             // @none_when_source_is_empty
        // otherwise exactly one element is pulled ...
        !old(self).finished && old(self).iter.rem().len() > 0 ==> final(self).iter.rem() == old(self).iter.rem().drop_first(),   // @pulls_exactly_one
        // ... passed on while the predicate holds ...
        !old(self).finished && old(self).iter.rem().len() > 0 && verdict(old(self).predicate, old(self).iter.rem()[0]) == 1 ==> r == Some(old(self).iter.rem()[0]) && !final(self).finished,   // @passes_while_predicate_holds
        // ... and the first `false` ends the sequence for good
        !old(self).finished && old(self).iter.rem().len() > 0 && verdict(old(self).predicate, old(self).iter.rem()[0]) == 2 ==> r is None && final(self).finished,   // @first_false_latches
        // errors of the source are passed on
        !old(self).finished && old(self).iter.rem().len() > 0 && verdict(old(self).predicate, old(self).iter.rem()[0]) == 0 ==> r == Some(old(self).iter.rem()[0]),   // @source_errors_pass
        // a predicate that fails or answers with a non-Bool yields an error element
        !old(self).finished && old(self).iter.rem().len() > 0 && verdict(old(self).predicate, old(self).iter.rem()[0]) == 3 ==> (r matches Some(KIteratorOutput::Error(_))),   // @bad_predicate_is_an_error_element
"""),
        # ------------------------------------------------------------------ keep (filter)
        Type(F, "struct Keep"),
        Fn(F, "impl Iterator for Keep :: fn next", props=P, impl_as="impl Keep",
           subst=[("Option<Self::Item>", "Option<Output>", 1),
                  # `for x in &mut it` is `while let Some(x) = it.next()` (std's impl Iterator for &mut I); rule R5
                  ("for output in &mut self.iter {", "while let Some(output) = self.iter.next() {", 1),
                  ("CallArgs::AsTuple(&[a.clone(), b.clone()])", "pair_args(a.clone(), b.clone())", 1),
                  ("""                    let error = Error::with_error_frame(
                        ErrorKind::UnexpectedType {
                            expected: "Bool from the predicate".into(),
                            unexpected,
                        },
                        self.error_frame.clone(),
                    );""", "                    let error = unexpected_bool_error(unexpected, self.error_frame.clone());", 1)],
           loops={1: r"""
            invariant
                self.predicate == old(self).predicate,
                ({ let j = old(self).iter.rem().len() - self.iter.rem().len();
                   &&& 0 <= j <= old(self).iter.rem().len()
                   &&& self.iter.rem() == old(self).iter.rem().skip(j)
                   &&& first_kept(old(self).predicate, old(self).iter.rem()) == j + first_kept(old(self).predicate, self.iter.rem()) }),
            ensures
                self.iter.rem().len() == 0,
                first_kept(old(self).predicate, old(self).iter.rem()) == old(self).iter.rem().len(),
            decreases self.iter.rem().len(),
"""},
           loop_open={1: r"""proof {
    let j = old(self).iter.rem().len() - self.iter.rem().len() - 1;
    assert(old(self).iter.rem().skip(j)[0] == old(self).iter.rem()[j]);
    assert(old(self).iter.rem().skip(j).drop_first() =~= old(self).iter.rem().skip(j + 1));
    lemma_first_kept_bounds(old(self).predicate, old(self).iter.rem());
}"""},
           spec=r"""
    ensures
        // the elements the predicate rejects are skipped, the first other one is yielded, and the
        // source is advanced exactly past it (no look-ahead)
        ({ let s = old(self).iter.rem(); let k = first_kept(old(self).predicate, s);
           &&& (k < s.len() && verdict(old(self).predicate, s[k]) == 1 ==> r == Some(s[k]))             // @yields_first_kept
           &&& (k < s.len() && verdict(old(self).predicate, s[k]) == 0 ==> r == Some(s[k]))             // @source_errors_pass
           &&& (k < s.len() && verdict(old(self).predicate, s[k]) == 3 ==> (r matches Some(KIteratorOutput::Error(_))))   // @bad_predicate_is_an_error_element
           &&& (k < s.len() ==> final(self).iter.rem() =~= s.skip(k + 1))                               // @advances_exactly_past_it
           &&& (k >= s.len() ==> r is None && final(self).iter.rem().len() == 0) }),                    // @none_when_nothing_kept
"""),
        # ------------------------------------------------------------------ zip
        Type(F, "struct Zip"),
        Fn(F, "impl Iterator for Zip :: fn next", props=P, impl_as="impl Zip",
           subst=[("Option<Self::Item>", "Option<Output>", 1)],
           spec=r"""
    ensures
        // pairs up the heads of both sources; ends with the shorter one
        ({ let a = old(self).iter_a.rem(); let b = old(self).iter_b.rem();
           &&& (a.len() > 0 && b.len() > 0 && collected(a[0]) is Value && collected(b[0]) is Value
                    ==> r == Some(KIteratorOutput::ValuePair(collected(a[0])->Value_0, collected(b[0])->Value_0)))   // @pairs_the_heads
           &&& (a.len() == 0 ==> r is None && final(self).iter_b.rem() == b)                            // @b_untouched_when_a_is_empty
           &&& (a.len() > 0 && collected(a[0]) is Value && b.len() == 0 ==> r is None)                  // @ends_with_the_shorter
           &&& (a.len() > 0 && a[0] is Error ==> r == Some(a[0]) && final(self).iter_b.rem() == b)      // @errors_of_a_pass
           &&& (a.len() > 0 && collected(a[0]) is Value && b.len() > 0 && b[0] is Error ==> r == Some(b[0]))   // @errors_of_b_pass
           // one pull from each source per pair, a first
           &&& (a.len() > 0 ==> final(self).iter_a.rem() == a.drop_first())                             // @pulls_one_from_a
           &&& (a.len() > 0 && collected(a[0]) is Value && b.len() > 0 ==> final(self).iter_b.rem() == b.drop_first()) }),   // @pulls_one_from_b
"""),
        # the laziness clause of C13 for Step, as a separate obligation on a second extraction of the
        # same function: it FAILS on the unchanged tree (finding F14, known_findings.json)
        Fn(F, "impl Iterator for Step :: fn next", props=("C13",), impl_as="impl Step", rename="next__laziness",
           subst=[("Option<Self::Item>", "Option<Output>", 1), ("for _ in 0..self.step - 1 {", "for _ in it: 0..self.step - 1 {", 1)],
           loops={1: r"""
            invariant
                self.step == old(self).step, old(self).step >= 1,
                self.iter.rem() =~= old(self).iter.rem().skip(min(1 + it.index@ as int, old(self).iter.rem().len() as int)),
            ensures
                // (the loop is left early once the source is exhausted: nothing is left to skip)
                self.iter.rem() =~= old(self).iter.rem().skip(min(old(self).step as int, old(self).iter.rem().len() as int)),
"""},
           spec=r"""
    requires old(self).wf(),
    ensures
        // "adaptors pull source elements only when consumed": yielding one element pulls one
        old(self).iter.rem().len() > 0 ==> final(self).iter.rem() =~= old(self).iter.rem().drop_first(),   // @pulls_only_what_was_consumed
"""),
    ],
    epilogue=r"""
// ---- vacuity guard: MUST FAIL
proof fn canary_adaptors(t: Take) requires t.view().len() > 1 ensures false {}
""",
    canaries=("canary_adaptors",),
)
