"""V-adaptors: iterator adaptor state machines (crates/runtime/src/core_lib/iterator/adaptors.rs).

Contracts only. Function bodies come from /repo at run time.
"""
from engine.unit import Fn, Raw, Type, Unit

F = "crates/runtime/src/core_lib/iterator/adaptors.rs"
P = ("C13", "C06")

PRELUDE = r"""
global size_of usize == 8;   // assumption: 64-bit target

// ---- shims (assumptions)
#[verifier::external_body] struct KIteratorOutput { _p: u8 }
type Output = KIteratorOutput;

// The adapted iterator: an opaque sequence source. `rem()` is the (finite) sequence of outputs it
// still has to yield; next pops the head, next_back pops the last, nth(n) drops n and pops.
// This is the contract V-cursors / V-range prove for the built-in sources; a side-effecting
// generator that changes what it yields depending on who asks is outside the model.
#[verifier::external_body] struct KIterator { _p: u8 }
impl KIterator {
    uninterp spec fn rem(&self) -> Seq<Output>;

    #[verifier::external_body]
    fn next(&mut self) -> (r: Option<Output>)
        ensures
            old(self).rem().len() > 0 ==> r == Some(old(self).rem()[0]) && final(self).rem() == old(self).rem().drop_first(),
            old(self).rem().len() == 0 ==> r is None && final(self).rem() == old(self).rem(),
    { unimplemented!() }

    #[verifier::external_body]
    fn next_back(&mut self) -> (r: Option<Output>)
        ensures
            old(self).rem().len() > 0 ==> r == Some(old(self).rem().last()) && final(self).rem() == old(self).rem().drop_last(),
            old(self).rem().len() == 0 ==> r is None && final(self).rem() == old(self).rem(),
    { unimplemented!() }

    // std's default Iterator::nth: n calls to next, then one more
    #[verifier::external_body]
    fn nth(&mut self, n: usize) -> (r: Option<Output>)
        ensures
            n < old(self).rem().len() ==> r == Some(old(self).rem()[n as int]) && final(self).rem() == old(self).rem().skip(n as int + 1),
            n >= old(self).rem().len() ==> r is None && final(self).rem().len() == 0,
    { unimplemented!() }
}

// `take(&mut self.remaining)` is core::mem::take on a usize (rule R5)
#[verifier::external_body]
fn take_usize(dest: &mut usize) -> (r: usize) ensures r == *old(dest), *final(dest) == 0 { unimplemented!() }

spec fn min(a: int, b: int) -> int { if a < b { a } else { b } }
"""

UNIT = Unit(
    name="V-adaptors",
    prelude=PRELUDE,
    items=[
        # ------------------------------------------------------------------ take
        Type(F, "struct Take"),
        Raw(r"""
    // the mathematical definition: the first `remaining` elements of the source
    spec fn view(&self) -> Seq<Output> { self.iter.rem().take(min(self.remaining as int, self.iter.rem().len() as int)) }
""", impl_of="impl Take"),
        Fn(F, "impl Iterator for Take :: fn next", props=P, impl_as="impl Take",
           subst=[("Option<Self::Item>", "Option<Output>", 1)],
           spec=r"""
    ensures
        old(self).view().len() > 0 ==> r == Some(old(self).view()[0]),                                   // @yields_head_of_definition
        old(self).view().len() == 0 ==> r is None,                                                       // @none_when_definition_is_empty
        final(self).view() =~= (if old(self).view().len() > 0 { old(self).view().drop_first() } else { old(self).view() }),   // @rest_of_definition
        // laziness: exactly one source element is pulled per yielded element, none once n were taken
        old(self).remaining > 0 && old(self).iter.rem().len() > 0 ==> final(self).iter.rem() == old(self).iter.rem().drop_first(),   // @pulls_exactly_one
        old(self).remaining == 0 ==> final(self).iter.rem() == old(self).iter.rem(),                     // @source_untouched_after_n
"""),
        # ------------------------------------------------------------------ skip
        Type(F, "struct Skip"),
        Raw(r"""
    // the mathematical definition: the source without its first `remaining` elements
    spec fn view(&self) -> Seq<Output> { self.iter.rem().skip(min(self.remaining as int, self.iter.rem().len() as int)) }
""", impl_of="impl Skip"),
        Fn(F, "impl Iterator for Skip :: fn next", props=P, impl_as="impl Skip",
           subst=[("Option<Self::Item>", "Option<Output>", 1), ("take(&mut self.remaining)", "take_usize(&mut self.remaining)", 1)],
           spec=r"""
    ensures
        old(self).view().len() > 0 ==> r == Some(old(self).view()[0]),                                   // @yields_head_of_definition
        old(self).view().len() == 0 ==> r is None,                                                       // @none_when_definition_is_empty
        final(self).view() =~= (if old(self).view().len() > 0 { old(self).view().drop_first() } else { old(self).view() }),   // @rest_of_definition
        // laziness: the skipped elements and the yielded one are pulled, nothing more
        old(self).view().len() > 0 ==> final(self).iter.rem() =~= old(self).view().drop_first(),         // @pulls_no_more_than_needed
"""),
        Fn(F, "impl KotoIterator for Skip :: fn next_back", props=P, impl_as="impl Skip",
           spec=r"""
    ensures
        // reversing a skipped sequence: the last element of the definition, never a skipped one
        old(self).view().len() > 0 ==> r == Some(old(self).view().last()),                               // @yields_last_of_definition
        old(self).view().len() == 0 ==> r is None,                                                       // @none_when_definition_is_empty
        final(self).view() =~= (if old(self).view().len() > 0 { old(self).view().drop_last() } else { old(self).view() }),   // @rest_of_definition
"""),
        # ------------------------------------------------------------------ chain
        Type(F, "struct Chain"),
        Raw(r"""
    // the mathematical definition: a followed by b
    spec fn view(&self) -> Seq<Output> {
        match self.iter_a { Some(a) => a.rem() + self.iter_b.rem(), None => self.iter_b.rem() }
    }
""", impl_of="impl Chain"),
        Fn(F, "impl Iterator for Chain :: fn next", props=P, impl_as="impl Chain",
           subst=[("Option<Self::Item>", "Option<Output>", 1)],
           spec=r"""
    ensures
        old(self).view().len() > 0 ==> r == Some(old(self).view()[0]),                                   // @yields_head_of_definition
        old(self).view().len() == 0 ==> r is None,                                                       // @none_when_definition_is_empty
        final(self).view() =~= (if old(self).view().len() > 0 { old(self).view().drop_first() } else { old(self).view() }),   // @rest_of_definition
        // laziness: b is not pulled while a still has elements
        (old(self).iter_a matches Some(a) && a.rem().len() > 0) ==> final(self).iter_b.rem() == old(self).iter_b.rem(),   // @b_untouched_while_a_yields
"""),
        # ------------------------------------------------------------------ reversed
        Type(F, "struct Reversed"),
        Raw(r"""
    // the mathematical definition: the source backwards
    spec fn view(&self) -> Seq<Output> { self.iter.rem().reverse() }
""", impl_of="impl Reversed"),
        Fn(F, "impl Iterator for Reversed :: fn next", props=P, impl_as="impl Reversed",
           subst=[("Option<Self::Item>", "Option<Output>", 1)],
           spec=r"""
    ensures
        old(self).view().len() > 0 ==> r == Some(old(self).view()[0]),                                   // @yields_head_of_definition
        old(self).view().len() == 0 ==> r is None,                                                       // @none_when_definition_is_empty
        final(self).view() =~= (if old(self).view().len() > 0 { old(self).view().drop_first() } else { old(self).view() }),   // @rest_of_definition
"""),
        Fn(F, "impl KotoIterator for Reversed :: fn next_back", props=P, impl_as="impl Reversed",
           spec=r"""
    ensures
        old(self).view().len() > 0 ==> r == Some(old(self).view().last()),                               // @yields_last_of_definition
        old(self).view().len() == 0 ==> r is None,
        final(self).view() =~= (if old(self).view().len() > 0 { old(self).view().drop_last() } else { old(self).view() }),   // @rest_of_definition
"""),

        # ------------------------------------------------------------------ step
        Type(F, "struct Step"),
        Raw(r"""
    spec fn wf(&self) -> bool { self.step >= 1 }     // Step::new rejects 0
""", impl_of="impl Step"),
        Fn(F, "impl Iterator for Step :: fn next", props=P, impl_as="impl Step",
           # `it:` names Verus' ghost loop iterator (annotation only, rule R6)
           subst=[("Option<Self::Item>", "Option<Output>", 1), ("for _ in 0..self.step - 1 {", "for _ in it: 0..self.step - 1 {", 1)],
           loops={1: r"""
            invariant
                self.step == old(self).step,
                self.iter.rem() =~= old(self).iter.rem().skip(min(1 + it.index@ as int, old(self).iter.rem().len() as int)),
"""},
           spec=r"""
    requires old(self).wf(),
    ensures
        // the mathematical definition: every step-th element, starting with the first remaining one
        old(self).iter.rem().len() > 0 ==> r == Some(old(self).iter.rem()[0]),                           // @yields_head_of_definition
        old(self).iter.rem().len() == 0 ==> r is None,                                                   // @none_when_definition_is_empty
        // the next element yielded will be the one `step` positions further on
        final(self).iter.rem() =~= old(self).iter.rem().skip(min(old(self).step as int, old(self).iter.rem().len() as int)),   // @advances_by_step
        final(self).step == old(self).step,
"""),

        # the laziness clause of C13 for Step, as a separate obligation on a second extraction of the
        # same function: it FAILS on the unchanged tree (finding F14, known_findings.json)
        Fn(F, "impl Iterator for Step :: fn next", props=("C13",), impl_as="impl Step", rename="next__laziness",
           subst=[("Option<Self::Item>", "Option<Output>", 1), ("for _ in 0..self.step - 1 {", "for _ in it: 0..self.step - 1 {", 1)],
           loops={1: r"""
            invariant
                self.step == old(self).step,
                self.iter.rem() =~= old(self).iter.rem().skip(min(1 + it.index@ as int, old(self).iter.rem().len() as int)),
"""},
           spec=r"""
    requires old(self).wf(),
    ensures
        // "adaptors pull source elements only when consumed": yielding one element pulls one
        old(self).iter.rem().len() > 0 ==> final(self).iter.rem() =~= old(self).iter.rem().drop_first(),   // @pulls_only_what_was_consumed
"""),
    ],
    epilogue=r"""
// ---- vacuity guard: MUST FAIL
proof fn canary_adaptors(t: Take) requires t.view().len() > 1 ensures false {}
""",
    canaries=("canary_adaptors",),
)
