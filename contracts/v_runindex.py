"""V-runindex: `container[index]` (crates/runtime/src/vm.rs run_index, validate_index) over the REAL
KValue enum declaration: C01 / C15 "indexing and range slicing ... return the result defined ..., or an
error", C06 "no panic" (both `unreachable!()` are proved unreachable), C17 "@index is called with
(value, index)".

Contracts only. Function bodies come from /repo at run time.
"""
from engine.unit import Fn, Raw, Type, Unit

F = "crates/runtime/src/vm.rs"
M = "crates/runtime/src/types/meta_map.rs"
VAL = "crates/runtime/src/types/value.rs"
P = ("C01", "C15", "C06", "C17")

PRELUDE = r"""
global size_of usize == 8;   // assumption: 64-bit target
use core::ops::Range;
// ---- shims (assumptions): the payload types of KValue
#[verifier::external_body] pub struct KNumber { _p: u8 }
#[verifier::external_body] pub struct KRange { _p: u8 }
#[verifier::external_body] pub struct KList { _p: u8 }
#[verifier::external_body] pub struct KTuple { _p: u8 }
#[verifier::external_body] pub struct KMap { _p: u8 }
#[verifier::external_body] pub struct KString { _p: u8 }
#[verifier::external_body] pub struct KFunction { _p: u8 }
#[verifier::external_body] pub struct KNativeFunction { _p: u8 }
#[verifier::external_body] pub struct KIterator { _p: u8 }
#[verifier::external_body] pub struct KObject { _p: u8 }
#[verifier::external_body] pub struct ObjectRef { _p: u8 }
pub struct RegisterSlice { pub start: usize, pub count: usize }
#[verifier::external_body] pub struct ValueKey { _p: u8 }
#[verifier::external_body] pub struct ListDataRef { _p: u8 }
#[verifier::external_body] pub struct MapDataRef { _p: u8 }
#[verifier::external_body] pub struct Error { _p: u8 }
pub type Result<T> = core::result::Result<T, Error>;
pub enum MetaKey { ReadOp(ReadOp), Other(u8) }
fn read_key(op: ReadOp) -> (r: MetaKey) ensures r == MetaKey::ReadOp(op) { MetaKey::ReadOp(op) }

// numbers as indices (K-number's territory): `usize::from(n)` saturates, `n < 0.0`
impl KNumber {
    pub uninterp spec fn as_usize(&self) -> usize;
    pub uninterp spec fn negative(&self) -> bool;
}
impl Clone for KNumber { #[verifier::external_body] fn clone(&self) -> (r: Self) ensures r == *self { unimplemented!() } }
impl Copy for KNumber {}
#[verifier::external_body] fn number_to_usize(n: KNumber) -> (r: usize) ensures r == n.as_usize() { unimplemented!() }
#[verifier::external_body] fn number_is_negative(n: KNumber) -> (r: bool) ensures r == n.negative() { unimplemented!() }
pub uninterp spec fn number_of_i64(i: i64) -> KNumber;
#[verifier::external_body] fn i64_into_number(i: i64) -> (r: KNumber) ensures r == number_of_i64(i) { unimplemented!() }
// i64::try_from(usize) (std): assumed contract
#[verifier::external_body] fn i64_try_from_usize(x: usize) -> (r: core::result::Result<i64, ()>)
    ensures (r is Ok) == (x <= i64::MAX), r matches Ok(v) ==> v as int == x as int { unimplemented!() }
#[verifier::external_body] fn err_wrong_size<T>(size: usize, expected: usize) -> (r: Result<T>) ensures r is Err { unimplemented!() }
#[verifier::external_body] fn err_negative_index<T>(n: KNumber) -> (r: Result<T>) ensures r is Err { unimplemented!() }
#[verifier::external_body] fn err_out_of_bounds<T>(n: KNumber, size: usize) -> (r: Result<T>) ensures r is Err { unimplemented!() }
#[verifier::external_body] fn err_invalid_utf8<T>() -> (r: Result<T>) ensures r is Err { unimplemented!() }
#[verifier::external_body] fn err_unable_to_index<T>() -> (r: Result<T>) ensures r is Err { unimplemented!() }
#[verifier::external_body] fn err_index_overflow<T>() -> (r: Result<T>) ensures r is Err { unimplemented!() }

// lists
impl ListDataRef {
    pub uninterp spec fn view(&self) -> Seq<KValue>;
    #[verifier::external_body] fn len(&self) -> (r: usize) ensures r == self@.len() { unimplemented!() }
    // `data.get(..i).map_or(Null, |e| List(KList::from_slice(e)))` / `data.get(i..)..` (slice::get is None
    // past the end), rule R5
    #[verifier::external_body] fn slice_to_or_null(&self, i: usize) -> (r: KValue)
        ensures i <= self@.len() ==> (r matches KValue::List(l) && l.elems() == self@.subrange(0, i as int)), i > self@.len() ==> r is Null { unimplemented!() }
    #[verifier::external_body] fn slice_from_or_null(&self, i: usize) -> (r: KValue)
        ensures i <= self@.len() ==> (r matches KValue::List(l) && l.elems() == self@.subrange(i as int, self@.len() as int)), i > self@.len() ==> r is Null { unimplemented!() }
    // `data.get(i).cloned().unwrap_or(Null)`, rule R5
    #[verifier::external_body] fn get_cloned_or_null(&self, i: usize) -> (r: KValue) ensures r == (if i < self@.len() { self@[i as int] } else { KValue::Null }) { unimplemented!() }
    // `data[i].clone()` (Index on the Vec: panics out of bounds), rule R5
    #[verifier::external_body] fn get_cloned(&self, i: usize) -> (r: KValue) requires i < self@.len() ensures r == self@[i as int] { unimplemented!() }   // @list_index_in_bounds
    // `KList::from_slice(&data[a..b])` (slicing panics out of bounds), rule R5
    #[verifier::external_body] fn sub_list(&self, r: Range<usize>) -> (l: KList) requires r.start <= r.end <= self@.len() ensures l.elems() == self@.subrange(r.start as int, r.end as int) { unimplemented!() }   // @list_slice_in_bounds
}
impl KList {
    pub uninterp spec fn elems(&self) -> Seq<KValue>;
    #[verifier::external_body] fn len(&self) -> (r: usize) ensures r == self.elems().len() { unimplemented!() }
    #[verifier::external_body] fn data(&self) -> (r: ListDataRef) ensures r@ == self.elems() { unimplemented!() }
}
// tuples: make_sub_tuple is PROVED in V-tuple (Some exactly when the range is inside)
impl KTuple {
    pub uninterp spec fn elems(&self) -> Seq<KValue>;
    #[verifier::external_body] fn len(&self) -> (r: usize) ensures r == self.elems().len() { unimplemented!() }
    #[verifier::external_body] fn get_cloned(&self, i: usize) -> (r: KValue) requires i < self.elems().len() ensures r == self.elems()[i as int] { unimplemented!() }   // @tuple_index_in_bounds
    #[verifier::external_body] fn get_cloned_or_null(&self, i: usize) -> (r: KValue) ensures r == (if i < self.elems().len() { self.elems()[i as int] } else { KValue::Null }) { unimplemented!() }
    #[verifier::external_body]
    fn make_sub_tuple(&self, r: Range<usize>) -> (o: Option<KTuple>)
        ensures (o is Some) == (r.start <= r.end && r.end <= self.elems().len()), o matches Some(t) ==> t.elems() == self.elems().subrange(r.start as int, r.end as int) { unimplemented!() }
}
// strings: KString::with_bounds is PROVED in V-strslice
impl KString {
    pub uninterp spec fn slen(&self) -> nat;
    pub uninterp spec fn boundary(&self, i: int) -> bool;
    pub uninterp spec fn is_part_of(&self, parent: &KString, lo: int, hi: int) -> bool;
    #[verifier::external_body] fn len(&self) -> (r: usize) ensures r == self.slen(), r <= isize::MAX { unimplemented!() }
    #[verifier::external_body]
    fn with_bounds(&self, r: Range<usize>) -> (o: Option<KString>)
        ensures (o is Some) == (r.start <= r.end && r.end <= self.slen() && self.boundary(r.start as int) && self.boundary(r.end as int)),
                o matches Some(sub) ==> sub.is_part_of(self, r.start as int, r.end as int) { unimplemented!() }
}
// ranges: KRange::{indices, size, start} are PROVED in V-range
impl KRange {
    pub uninterp spec fn sstart(&self) -> Option<i64>;
    pub uninterp spec fn ssize(&self) -> Option<usize>;
    #[verifier::external_body] fn indices(&self, max_index: usize) -> (r: Range<usize>) ensures r.start <= r.end <= max_index, r == self.sindices(max_index) { unimplemented!() }
    pub uninterp spec fn sindices(&self, max_index: usize) -> Range<usize>;
    #[verifier::external_body] fn start(&self) -> (r: Option<i64>) ensures r == self.sstart() { unimplemented!() }
    pub uninterp spec fn send(&self) -> Option<(i64, bool)>;
    pub uninterp spec fn scontains(&self, i: i64) -> bool;
    #[verifier::external_body] fn end(&self) -> (r: Option<(i64, bool)>) ensures r == self.send() { unimplemented!() }
    // `r.contains(i.into())`: PROVED exact in V-range
    #[verifier::external_body] fn contains_i64(&self, i: i64) -> (r: bool) ensures r == self.scontains(i) { unimplemented!() }
    // V-range: the element count; a bounded range's last element start + size - 1 is an i64
    #[verifier::external_body] fn size(&self) -> (r: Option<usize>) ensures r == self.ssize(), r matches Some(n) ==> (self.sstart() matches Some(s) ==> s + n <= i64::MAX + 1) { unimplemented!() }
}
// maps
impl MapDataRef {
    pub uninterp spec fn view(&self) -> Seq<(ValueKey, KValue)>;
    // `data.make_data_slice(..i).map_or(Null, |s| KMap::with_data(s).into())` / `(i..)`, rule R5
    #[verifier::external_body] fn slice_to_map_or_null(&self, i: usize) -> (r: KValue)
        ensures i <= self@.len() ==> (r matches KValue::Map(m) && m.entries() == self@.subrange(0, i as int)), i > self@.len() ==> r is Null { unimplemented!() }
    #[verifier::external_body] fn slice_from_map_or_null(&self, i: usize) -> (r: KValue)
        ensures i <= self@.len() ==> (r matches KValue::Map(m) && m.entries() == self@.subrange(i as int, self@.len() as int)), i > self@.len() ==> r is Null { unimplemented!() }
    #[verifier::external_body] fn len(&self) -> (r: usize) ensures r == self@.len() { unimplemented!() }
    #[verifier::external_body]
    fn get_index(&self, i: usize) -> (r: Option<(&ValueKey, &KValue)>)
        ensures (r is Some) == (i < self@.len()), r matches Some(e) ==> *e.0 == self@[i as int].0 && *e.1 == self@[i as int].1 { unimplemented!() }
}
pub uninterp spec fn pair_of(k: ValueKey, v: KValue) -> KTuple;
// `KTuple::from(vec![key.value().clone(), value.clone()])`, rule R5
#[verifier::external_body] fn pair_tuple(k: &ValueKey, v: &KValue) -> (r: KTuple) ensures r == pair_of(*k, *v) { unimplemented!() }
impl KMap {
    pub uninterp spec fn meta(&self) -> Map<MetaKey, KValue>;
    pub uninterp spec fn entries(&self) -> Seq<(ValueKey, KValue)>;
    #[verifier::external_body]
    fn contains_meta_key(&self, k: &MetaKey) -> (r: bool) ensures r == self.meta().contains_key(*k) { unimplemented!() }
    #[verifier::external_body]
    fn get_meta_value(&self, k: &MetaKey) -> (r: Option<KValue>)
        ensures r == (if self.meta().contains_key(*k) { Some(self.meta()[*k]) } else { None }) { unimplemented!() }
    #[verifier::external_body] fn data(&self) -> (r: MapDataRef) ensures r@ == self.entries() { unimplemented!() }
}
impl KObject { #[verifier::external_body] fn try_borrow(&self) -> Result<ObjectRef> { unimplemented!() } }
impl ObjectRef {
    #[verifier::external_body] fn index(&self, i: &KValue) -> Result<KValue> { unimplemented!() }
    #[verifier::external_body] fn size(&self) -> Option<usize> { unimplemented!() }
}
// std / conversions (rule R5)
#[verifier::external_body] fn i8_unsigned_abs(i: i8) -> (r: u8) ensures r as int == (if i >= 0 { i as int } else { -(i as int) }) { unimplemented!() }
#[verifier::external_body] fn i64_try_from_i128(x: i128) -> (r: core::result::Result<i64, ()>)
    ensures (r is Ok) == (i64::MIN <= x <= i64::MAX), r matches Ok(v) ==> v as int == x as int { unimplemented!() }
// signed_index_to_unsigned: PROVED in V-index (these are its four clauses)
pub open spec fn pos(index: i8, size: usize) -> usize {
    if index >= 0 { index as usize } else if -(index as int) <= size { (size + index as int) as usize } else { 0 }
}
#[verifier::external_body] fn signed_index_to_unsigned(index: i8, size: usize) -> (r: usize) ensures r == pos(index, size), index < 0 ==> r <= size { unimplemented!() }
pub struct Call { pub result: Option<u8>, pub instance: KValue, pub arg: KValue, pub op: KValue }
pub struct KotoVm { pub pending: Ghost<Option<Call>> }
"""

AFTER_ENUM = r"""
impl Clone for KValue { #[verifier::external_body] fn clone(&self) -> (r: Self) ensures r == *self { unimplemented!() } }
#[verifier::external_body] fn unexpected_type<T>(expected: &str, unexpected: &KValue) -> (r: Result<T>) ensures r is Err { unimplemented!() }
// Option<KString> -> KValue (`.into()`: Some(s) is Str(s), None is Null), i8 / usize -> KValue; rule R5
fn option_tuple_into_value(o: Option<KTuple>) -> (r: KValue) ensures r == (match o { Some(t) => KValue::Tuple(t), None => KValue::Null }) { match o { Some(t) => KValue::Tuple(t), None => KValue::Null } }
pub uninterp spec fn value_of_range(a: i64, b: i64) -> KValue;
// `KRange::from(a..b).into()`, rule R5
#[verifier::external_body] fn range_value(r: core::ops::Range<i64>) -> (v: KValue) ensures v == value_of_range(r.start, r.end) { unimplemented!() }
fn option_str_into_value(o: Option<KString>) -> (r: KValue) ensures r == (match o { Some(s) => KValue::Str(s), None => KValue::Null }) { match o { Some(s) => KValue::Str(s), None => KValue::Null } }
pub uninterp spec fn value_of_i8(i: i8) -> KValue;
#[verifier::external_body] fn i8_into_value(i: i8) -> (r: KValue) ensures r == value_of_i8(i) { unimplemented!() }
#[verifier::external_body] fn usize_into_value(i: usize) -> KValue { unimplemented!() }
// what a valid index is: not negative and (when the container has a size) below it
spec fn valid_index(n: KNumber, size: Option<usize>) -> bool { !n.negative() && (size matches Some(s) ==> n.as_usize() < s) }
"""

VM_SPECS = r"""
    pub uninterp spec fn reg(&self, r: u8) -> KValue;
    #[verifier::external_body] fn clone_register(&self, r: u8) -> (v: KValue) ensures v == self.reg(r) { unimplemented!() }
    #[verifier::external_body] fn get_register(&self, r: u8) -> (v: &KValue) ensures *v == self.reg(r) { unimplemented!() }
    // get_value_size (run_unary_op(Size) then a Number): the size the value reports, or an error
    pub uninterp spec fn size_of(&self, r: u8) -> Option<usize>;
    #[verifier::external_body]
    fn get_value_size(&mut self, value_register: u8) -> (r: Result<usize>)
        ensures *final(self) == *old(self), r matches Ok(n) ==> old(self).size_of(value_register) == Some(n), r is Err ==> old(self).size_of(value_register) is None { unimplemented!() }
    // run_read_op (V-vmproto): asks the value's @index function; here only what it is asked
    pub uninterp spec fn read_answer(value: KValue, arg: KValue) -> Result<KValue>;
    #[verifier::external_body]
    fn run_read_op(&mut self, op: ReadOp, value: KValue, arg: KValue) -> (r: Result<KValue>)
        ensures r == Self::read_answer(value, arg) { unimplemented!() }
    // the whole register file (temporary tuples address it directly)
    pub uninterp spec fn raw(&self) -> Seq<KValue>;
    // `self.registers[i].clone()` (Index on the Vec: panics out of bounds), rule R5
    #[verifier::external_body] fn register_raw_cloned(&self, i: usize) -> (v: KValue) requires i < self.raw().len() ensures v == self.raw()[i as int] { unimplemented!() }   // @raw_register_in_bounds
    #[verifier::external_body]
    fn set_register(&mut self, r: u8, v: KValue) ensures final(self).reg(r) == v, final(self).pending == old(self).pending { unimplemented!() }
    #[verifier::external_body]
    fn call_overridden_op_2(&mut self, result: Option<u8>, instance: KValue, arg: KValue, op: KValue) -> (r: Result<()>)
        ensures r is Ok ==> final(self).pending@ == Some(Call { result, instance, arg, op }) { unimplemented!() }
"""


V = "old(self).reg(value_register)"
I = "old(self).reg(index_register)"
RES = "final(self).reg(result_register)"


def when(vpat, ipat, body, label):
    return "        %s matches %s ==> (%s matches %s ==> (%s)),   // @%s\n" % (V, vpat, I, ipat, body, label)


SPEC = "\n    ensures\n" + "".join([
    # lists and tuples: the element, or an error for an index that is negative or past the end
    when("KValue::List(l)", "KValue::Number(n)", "((r is Ok) == valid_index(n, Some(l.elems().len() as usize))) && (r is Ok ==> %s == l.elems()[n.as_usize() as int])" % RES, "list_element_or_error"),
    when("KValue::Tuple(t)", "KValue::Number(n)", "((r is Ok) == valid_index(n, Some(t.elems().len() as usize))) && (r is Ok ==> %s == t.elems()[n.as_usize() as int])" % RES, "tuple_element_or_error"),
    # slices: exactly the (clamped) range of elements, never an error
    when("KValue::List(l)", "KValue::Range(rg)", "r is Ok && (%s matches KValue::List(s) && s.elems() == l.elems().subrange(rg.sindices(l.elems().len() as usize).start as int, rg.sindices(l.elems().len() as usize).end as int))" % RES, "list_slice"),
    when("KValue::Tuple(t)", "KValue::Range(rg)", "r is Ok && (%s matches KValue::Tuple(s) && s.elems() == t.elems().subrange(rg.sindices(t.elems().len() as usize).start as int, rg.sindices(t.elems().len() as usize).end as int))" % RES, "tuple_slice"),
    # C15 strings: one byte wide, or the range; an error when that would cut through a character
    when("KValue::Str(s)", "KValue::Number(n)", "((r is Ok) == (valid_index(n, Some(s.slen() as usize)) && s.boundary(n.as_usize() as int) && s.boundary(n.as_usize() + 1))) && (r is Ok ==> (%s matches KValue::Str(sub) && sub.is_part_of(&s, n.as_usize() as int, n.as_usize() + 1)))" % RES, "string_byte_index_or_error"),
    when("KValue::Str(s)", "KValue::Range(rg)", "(r is Ok) == (s.boundary(rg.sindices(s.slen() as usize).start as int) && s.boundary(rg.sindices(s.slen() as usize).end as int))", "string_slice_or_error"),
    # C17: a map with @index: that function is called with (map, index)
    "        %s matches KValue::Map(m) ==> (m.meta().contains_key(MetaKey::ReadOp(ReadOp::Index)) && r is Ok ==> final(self).pending@ == Some(Call { result: Some(result_register), instance: %s, arg: %s, op: m.meta()[MetaKey::ReadOp(ReadOp::Index)] })),   // @metakey_function_called_with_map_and_index\n" % (V, V, I),
    # a plain map: entry number n as a (key, value) tuple
    when("KValue::Map(m)", "KValue::Number(n)", "!m.meta().contains_key(MetaKey::ReadOp(ReadOp::Index)) ==> ((r is Ok) == valid_index(n, Some(m.entries().len() as usize))) && (r is Ok ==> %s == KValue::Tuple(pair_of(m.entries()[n.as_usize() as int].0, m.entries()[n.as_usize() as int].1)))" % RES, "map_entry_or_error"),
    # ranges with a start: start + n, or an error (never an overflow)
    when("KValue::Range(rg)", "KValue::Number(n)", "rg.sstart() matches Some(st) ==> (r is Ok ==> valid_index(n, rg.ssize()) && st + n.as_usize() <= i64::MAX && %s == KValue::Number(number_of_i64((st + n.as_usize()) as i64)))" % RES, "range_element"),
    when("KValue::Range(rg)", "KValue::Number(n)", "rg.sstart() matches Some(st) ==> (valid_index(n, rg.ssize()) && n.as_usize() <= i64::MAX && st + n.as_usize() <= i64::MAX ==> r is Ok)", "range_element_in_range_is_ok"),
])

TV = "old(self).reg(value)"
TRES = "final(self).reg(result)"
TEMP_SPEC = """
    requires
        // a temporary tuple addresses registers that exist (MakeTempTuple, bytecode well-formedness: C05)
        old(self).reg(value) matches KValue::TemporaryTuple(rs) ==> rs.start + rs.count <= old(self).raw().len(),
        old(self).raw().len() <= usize::MAX,
    ensures
        // C03: element `index` of a sequence; a negative index counts from the end (`(..., x, y)`
        // patterns); past the end there is nothing: null (the pattern's size check decides the match)
        %(v)s matches KValue::List(l) ==> r is Ok && %(res)s == (if pos(index, l.elems().len() as usize) < l.elems().len() { l.elems()[pos(index, l.elems().len() as usize) as int] } else { KValue::Null }),   // @list_element_or_null
        %(v)s matches KValue::Tuple(t) ==> r is Ok && %(res)s == (if pos(index, t.elems().len() as usize) < t.elems().len() { t.elems()[pos(index, t.elems().len() as usize) as int] } else { KValue::Null }),   // @tuple_element_or_null
        // a temporary tuple (how (key, value) pairs and multiple values travel) unpacks exactly like the
        // tuple of the same elements
        %(v)s matches KValue::TemporaryTuple(rs) ==> r is Ok && %(res)s == (if pos(index, rs.count) < rs.count { old(self).raw()[rs.start + pos(index, rs.count)] } else { KValue::Null }),   // @temporary_tuple_unpacks_like_a_tuple
        // a plain map: entry `index` as a (key, value) tuple, or null
        %(v)s matches KValue::Map(m) ==> (!m.meta().contains_key(MetaKey::ReadOp(ReadOp::Index)) ==> r is Ok && %(res)s == (if pos(index, m.entries().len() as usize) < m.entries().len()
            { KValue::Tuple(pair_of(m.entries()[pos(index, m.entries().len() as usize) as int].0, m.entries()[pos(index, m.entries().len() as usize) as int].1)) } else { KValue::Null })),   // @map_entry_or_null
        // C17: a map with @index: that function is called with (map, index)
        %(v)s matches KValue::Map(m) ==> (m.meta().contains_key(MetaKey::ReadOp(ReadOp::Index)) && r is Ok ==>
            final(self).pending@ == Some(Call { result: Some(result), instance: %(v)s, arg: value_of_i8(index), op: m.meta()[MetaKey::ReadOp(ReadOp::Index)] })),   // @metakey_function_called_with_map_and_index
        // a range: start + index or end + index (computed without overflow), null when that is not an element
        %(v)s matches KValue::Range(rg) ==> (r is Ok ==> (%(res)s is Null || (%(res)s matches KValue::Number(_)))),   // @range_element_or_null
        %(v)s matches KValue::Range(rg) ==> (index >= 0 ==> (rg.sstart() matches Some(st) ==> r is Ok && (st + index <= i64::MAX && rg.scontains((st + index) as i64) ==> %(res)s == KValue::Number(number_of_i64((st + index) as i64))))),   // @range_element_from_start
""" % dict(v=TV, res=TRES)

SV = "old(self).reg(value)"
SRES = "final(self).reg(register)"
SLICE_SPEC = """
    ensures
        // C03 `rest...`: the elements before (slice_to) / from (slice_from) position `index`, a negative
        // index counting from the end; null when the position is past the end
        %(v)s matches KValue::List(l) ==> r is Ok && (pos(index, l.elems().len() as usize) <= l.elems().len() ==> (%(res)s matches KValue::List(s) && s.elems() ==
            (if is_slice_to { l.elems().subrange(0, pos(index, l.elems().len() as usize) as int) } else { l.elems().subrange(pos(index, l.elems().len() as usize) as int, l.elems().len() as int) }))),   // @list_rest
        %(v)s matches KValue::List(l) ==> (pos(index, l.elems().len() as usize) > l.elems().len() ==> %(res)s is Null),                                    // @list_rest_past_the_end_is_null
        %(v)s matches KValue::Tuple(t) ==> r is Ok && (pos(index, t.elems().len() as usize) <= t.elems().len() ==> (%(res)s matches KValue::Tuple(s) && s.elems() ==
            (if is_slice_to { t.elems().subrange(0, pos(index, t.elems().len() as usize) as int) } else { t.elems().subrange(pos(index, t.elems().len() as usize) as int, t.elems().len() as int) }))),   // @tuple_rest
        %(v)s matches KValue::Tuple(t) ==> (pos(index, t.elems().len() as usize) > t.elems().len() ==> %(res)s is Null),                                   // @tuple_rest_past_the_end_is_null
        // a plain map: the entries before / from that position
        %(v)s matches KValue::Map(m) ==> (!m.meta().contains_key(MetaKey::ReadOp(ReadOp::Index)) ==> r is Ok && (pos(index, m.entries().len() as usize) <= m.entries().len() ==> (%(res)s matches KValue::Map(s) && s.entries() ==
            (if is_slice_to { m.entries().subrange(0, pos(index, m.entries().len() as usize) as int) } else { m.entries().subrange(pos(index, m.entries().len() as usize) as int, m.entries().len() as int) })))),   // @map_rest
        // C17: a map with @index is asked for the range 0..position / position..size, with its reported size
        %(v)s matches KValue::Map(m) ==> (m.meta().contains_key(MetaKey::ReadOp(ReadOp::Index)) ==> (old(self).size_of(value) matches Some(n) ==> (r is Ok ==>
            Self::read_answer(%(v)s, (if is_slice_to { value_of_range(0, pos(index, n) as i64) } else { value_of_range(pos(index, n) as i64, n as i64) })) == Ok::<KValue, Error>(%(res)s)))),   // @metakey_function_asked_for_the_rest_range
        // strings: the text before / from that byte position, null when that cuts a character
        %(v)s matches KValue::Str(s) ==> r is Ok,                                                                                                          // @string_rest_never_errs
""" % dict(v=SV, res=SRES)

UNIT = Unit(
    name="V-runindex",
    prelude=PRELUDE,
    items=[
        Type(M, "enum ReadOp", derive="PartialEq, Eq, Clone, Copy"),
        Type(VAL, "enum KValue"),
        Raw(AFTER_ENUM),
        Raw(VM_SPECS, impl_of="impl KotoVm"),
        Fn(F, "impl KotoVm :: fn validate_index", props=P, let_chains=True,
           subst=[("usize::from(n)", "number_to_usize(n)", None), ("n < 0.0", "number_is_negative(n)", None),
                  ("""runtime_error!("negative indices aren't allowed ('{n}')")""", "err_negative_index(n)", None),
                  ("""runtime_error!("index out of bounds - index: {n}, size: {size}")""", "err_out_of_bounds(n, size)", None)],
           spec=r"""
    ensures
        // an index is accepted exactly when it is not negative and inside the container
        (r is Ok) == valid_index(n, size),                                                                  // @accepted_iff_valid
        r matches Ok(i) ==> i == n.as_usize(),                                                              // @index_is_the_number
"""),
        Fn(F, "impl KotoVm :: fn run_index", props=P,
           subst=[
               ("l.data()[index].clone()", "l.data().get_cloned(index)", None),
               ("List(KList::from_slice(&l.data()[indices]))", "List(l.data().sub_list(indices))", None),
               ("t[index].clone()", "t.get_cloned(index)", None),
               (r"runtime_error!\(\s*\"indexing with \(\{(?:index|range)\}\) would result in invalid UTF-8 data\"\s*\)", "err_invalid_utf8()", None, "re"),
               (r"&ReadOp::Index\.into\(\)", "&read_key(ReadOp::Index)", None, "re"),
               ("let result = KTuple::from(vec![key.value().clone(), value.clone()]);", "let result = pair_tuple(key, value);", None),
               (r"Number\(\((.*?)\)\.into\(\)\)", r"Number(i64_into_number(\1))", None, "re"),
               ("Number(result.into())", "Number(i64_into_number(result))", None),
               ("i64::try_from(index)", "i64_try_from_usize(index)", None),
               (r"runtime_error!\(\s*\"Unable to index '\{\}' with '\{\}'\",\s*unexpected_value\.type_as_string\(\),\s*unexpected_index\.type_as_string\(\),?\s*\)", "err_unable_to_index()", None, "re"),
               (r"runtime_error!\(\s*\"index \(\{n\}\) is out of range\"\s*\)", "err_index_overflow()", None, "re"),
           ],
           spec=SPEC),
        Fn(F, "impl KotoVm :: fn run_temp_index", props=("C03", "C01", "C06", "C17"),
           subst=[
               ("let index_op = ReadOp::Index.into();", "let index_op = read_key(ReadOp::Index);", None),
               ("list.data().get(index).cloned().unwrap_or(Null)", "list.data().get_cloned_or_null(index)", None),
               ("tuple.get(index).cloned().unwrap_or(Null)", "tuple.get_cloned_or_null(index)", None),
               ("index.unsigned_abs()", "i8_unsigned_abs(index)", None),
               (r"self\.registers\[(.*?)\]\.clone\(\)", r"self.register_raw_cloned(\1)", None, "re"),
               (r"s\.with_bounds\((.*?)\)\.into\(\)", r"option_str_into_value(s.with_bounds(\1))", None, "re"),
               (r"runtime_error!\(\s*\"Unable to index a \{\} with \{\}\",\s*lhs\.type_as_string\(\),\s*index,?\s*\)", "err_unable_to_index()", None, "re"),
               ("i64::try_from(result)", "i64_try_from_i128(result)", None),
               ("r.contains(result.into())", "r.contains_i64(result)", None),
               ("=> result.into(),", "=> KValue::Number(i64_into_number(result)),", None),
               ("lhs, index.into(), op", "lhs, i8_into_value(index), op", None),
               ("Tuple(vec![key.value().clone(), value.clone()].into())", "Tuple(pair_tuple(key, value))", None),
               ("o.index(&index.into())", "o.index(&usize_into_value(index))", None),
           ],
           spec=TEMP_SPEC),
        Fn(F, "impl KotoVm :: fn run_slice", props=("C03", "C06", "C17"),
           subst=[
               ("let index_op = ReadOp::Index.into();", "let index_op = read_key(ReadOp::Index);", None),
               (r"list\.data\(\)\s*\.get\(\.\.([^.()]+?)\)\s*\.map_or\(Null, \|entries\| List\(KList::from_slice\(entries\)\)\)", r"list.data().slice_to_or_null(\1)", None, "re"),
               (r"list\.data\(\)\s*\.get\(([^.()]+?)\.\.\)\s*\.map_or\(Null, \|entries\| List\(KList::from_slice\(entries\)\)\)", r"list.data().slice_from_or_null(\1)", None, "re"),
               (r"tuple\.make_sub_tuple\((.*?)\)\.into\(\)", r"option_tuple_into_value(tuple.make_sub_tuple(\1))", None, "re"),
               (r"s\.with_bounds\((.*?)\)\.into\(\)", r"option_str_into_value(s.with_bounds(\1))", None, "re"),
               (r"data\.make_data_slice\(\.\.index\)\s*\.map_or\(Null, \|slice\| KMap::with_data\(slice\)\.into\(\)\)", "data.slice_to_map_or_null(index)", None, "re"),
               (r"data\.make_data_slice\(index\.\.\)\s*\.map_or\(Null, \|slice\| KMap::with_data\(slice\)\.into\(\)\)", "data.slice_from_map_or_null(index)", None, "re"),
               ("KRange::from(range).into()", "range_value(range)", None),
           ],
           spec=SLICE_SPEC),
        Fn(F, "impl KotoVm :: fn run_check_size_equal", props=("C03", "C06"),
           subst=[(r"runtime_error!\(\s*\"the container has a size of '\{size\}', expected '\{expected_size\}'\"\s*\)", "err_wrong_size(size, expected_size)", None, "re")],
           spec=r"""
    ensures
        // C03: a nested pattern without `...` matches by size: exactly that many elements
        (r is Ok) == (old(self).size_of(value_register) == Some(expected_size)),                            // @matches_exactly_that_size
        *final(self) == *old(self),
"""),
        Fn(F, "impl KotoVm :: fn run_check_size_min", props=("C03", "C06"),
           subst=[(r"runtime_error!\(\s*\"The container has a size of '\{size\}', expected a minimum of  '\{expected_size\}'\"\s*\)", "err_wrong_size(size, expected_size)", None, "re")],
           spec=r"""
    ensures
        // C03: a nested pattern with `...` matches by size: at least the named elements
        (r is Ok) == (old(self).size_of(value_register) matches Some(n) && n >= expected_size),            // @matches_at_least_that_size
        *final(self) == *old(self),
"""),
    ],
    epilogue=r"""
// ---- vacuity guard: MUST FAIL
proof fn canary_runindex(n: KNumber) requires valid_index(n, Some(3usize)) ensures false {}
""",
    canaries=("canary_runindex",),
)
