"""Which unit serves which property (DESIGN.md section 5)."""
VERUS_UNITS = {
    "V-frame": "v_frame",
    "V-vmproto": "v_vmproto",
    "V-range": "v_range",
    "V-cursors": "v_cursors",
    "V-adaptors": "v_adaptors",
    "V-lexer": "v_lexer",
    "V-strslice": "v_strslice",
    "V-bind": "v_bind",
    "V-emit": "v_emit",
    "V-truthy": "v_truthy",
    "V-objdefaults": "v_objdefaults",
    "V-index": "v_small:UNIT_INDEX",
    "V-prec": "v_small:UNIT_PREC",
    "V-debuginfo": "v_small:UNIT_DEBUGINFO",
}

PROPERTIES = {
    "C01": {"verus": ["V-frame", "V-range", "V-index", "V-prec", "V-emit", "V-truthy"], "kani": ["K-number"]},
    "C05": {"verus": ["V-frame", "V-emit", "V-vmproto"], "kani": ["K-emit", "K-varint"]},
    "C06": {"verus": ["V-frame", "V-vmproto", "V-range", "V-lexer", "V-cursors", "V-adaptors", "V-strslice", "V-index", "V-debuginfo", "V-bind", "V-emit"], "kani": ["K-number", "K-emit", "K-strslice", "K-varint"]},
    "C02": {"verus": ["V-bind"], "kani": []},
    "C04": {"verus": ["V-vmproto"], "kani": []},
    "C07": {"verus": ["V-vmproto"], "kani": []},
    "C08": {"verus": ["V-vmproto"], "kani": []},
    "C09": {"verus": ["V-lexer"], "kani": []},
    "C12": {"verus": ["V-vmproto", "V-debuginfo"], "kani": []},
    "C13": {"verus": ["V-range", "V-cursors", "V-adaptors"], "kani": []},
    "C17": {"verus": ["V-objdefaults"], "kani": []},
    "C14": {"verus": ["V-strslice"], "kani": ["K-number", "K-strslice"]},
    "C15": {"verus": ["V-strslice"], "kani": ["K-strslice"]},
}
