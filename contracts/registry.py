"""Which unit serves which property (DESIGN.md section 5)."""
VERUS_UNITS = {
    "V-frame": "v_frame",
}

PROPERTIES = {
    "C05": {
        "verus": ["V-frame"],
        "kani": [],
        "claim": "",
        "not_covered": "",
    },
}
