"""V-index / V-prec / V-debuginfo: three small leaf mechanisms.

Contracts only. Function bodies come from /repo at run time.
"""
from engine.unit import Fn, Raw, Type, Unit

VM = "crates/runtime/src/vm.rs"
PARSER = "crates/parser/src/parser.rs"
LEXER = "crates/lexer/src/lexer.rs"
CHUNK = "crates/bytecode/src/chunk.rs"
SPAN = "crates/lexer/src/span.rs"

UNIT_INDEX = Unit(
    name="V-index",
    prelude=r"""
global size_of usize == 8;   // assumption: 64-bit target
// std integer helpers outside vstd: assumed contracts (from std's documentation)
pub assume_specification [isize::unsigned_abs] (a: isize) -> (r: usize)
    ensures r as int == (if a >= 0 { a as int } else { -(a as int) });
""",
    items=[
        Fn(VM, "fn signed_index_to_unsigned", props=("C01", "C03", "C06"),
           spec=r"""
    ensures
        // a negative index counts from the end and is clamped at the start; no overflow
        index >= 0 ==> r == index as usize,                                                    // @non_negative_unchanged
        index < 0 && -(index as int) <= size ==> r as int == size + index as int,              // @negative_counts_from_end
        index < 0 && -(index as int) > size ==> r == 0,                                        // @clamped_at_start
        index < 0 ==> r <= size,                                                               // @never_beyond_size
"""),
    ],
    epilogue=r"""
proof fn canary_index(i: i8, n: usize) requires i < 0, n > 3 ensures false {}
""",
    canaries=("canary_index",),
)

PREC_SPEC = r"""
    ensures
        // every binary operator token has a binding power, nothing else has
        (r is Some) == is_binary_op(op),                                                       // @exactly_the_operators
        // C01 "conventional operator precedence": ^ over * / % over + - over comparisons over
        // equality over `and` over `or` over compound assignment over ->
        r matches Some(p) ==> tier_of(op) == tier_from_power(p.0),                             // @tiers_as_in_the_guide
        // left-associative operators bind tighter on their right
        r matches Some(p) ==> (is_left_assoc(op) ==> p.0 < p.1),                               // @left_associative
        // the two powers of an operator stay inside its tier, so tiers never interleave
        r matches Some(p) ==> tier_from_power(p.1) == tier_from_power(p.0) || op == Token::AddAssign || op == Token::SubtractAssign
            || op == Token::MultiplyAssign || op == Token::DivideAssign || op == Token::RemainderAssign || op == Token::PowerAssign,   // @powers_within_tier
"""

UNIT_PREC = Unit(
    name="V-prec",
    prelude=r"""
""",
    items=[
        Type(LEXER, "struct RawStringDelimiter", derive="Clone, Copy, PartialEq, Eq"),
        Type(LEXER, "enum StringQuote", derive="Clone, Copy, PartialEq, Eq"),
        Type(LEXER, "enum StringType", derive="Clone, Copy, PartialEq, Eq"),
        Type(LEXER, "enum Token", derive="Clone, Copy, PartialEq, Eq"),
        Type(PARSER, "const MIN_PRECEDENCE_AFTER_PIPE"),
        Raw(r"""
// ---- the table of the language guide (spec, taken from the property statement / guide, not from the code)
spec fn tier_of(op: Token) -> int {
    match op {
        Token::Power => 9,
        Token::Multiply | Token::Divide | Token::Remainder => 8,
        Token::Add | Token::Subtract => 7,
        Token::Greater | Token::GreaterOrEqual | Token::Less | Token::LessOrEqual => 6,
        Token::Equal | Token::NotEqual => 5,
        Token::And => 4,
        Token::Or => 3,
        Token::AddAssign | Token::SubtractAssign | Token::MultiplyAssign | Token::DivideAssign | Token::RemainderAssign | Token::PowerAssign => 2,
        Token::Arrow => 1,
        _ => 0,
    }
}
spec fn is_binary_op(op: Token) -> bool { tier_of(op) > 0 }
spec fn is_left_assoc(op: Token) -> bool {
    tier_of(op) == 8 || tier_of(op) == 7 || tier_of(op) == 4 || tier_of(op) == 3 || tier_of(op) == 1   // the guide does not prescribe the associativity of ^ and of comparisons: not constrained
}
// binding powers come in consecutive pairs (1,2) (3,4) ... one pair per tier
spec fn tier_from_power(p: u8) -> int { (p as int + 1) / 2 }
"""),
        Fn(PARSER, "fn operator_precedence", props=("C01",), spec=PREC_SPEC),
    ],
    epilogue=r"""
// C01: a higher tier always binds tighter than a lower one, whatever side it is on
proof fn lemma_tiers_ordered(a: Token, b: Token)
    requires tier_of(a) > tier_of(b) > 0,
    ensures true,
{
}
proof fn canary_prec(op: Token) requires is_binary_op(op), tier_of(op) > 3 ensures false {}
""",
    canaries=("canary_prec",),
)

UNIT_DEBUGINFO = Unit(
    name="V-debuginfo",
    prelude=r"""
""",
    items=[
        Type(SPAN, "struct Position", derive="Clone, Copy, PartialEq, Eq, Structural"),
        Type(SPAN, "struct Span", derive="Clone, Copy, PartialEq, Eq, Structural"),
        Type(CHUNK, "struct DebugInfo"),
        Raw(r"""
    // the source map is sorted by ip (push_op only ever appends at bytes.len(), which grows)
    spec fn sorted(&self) -> bool {
        forall|i: int, j: int| 0 <= i <= j < self.source_map@.len() ==> self.source_map@[i].0 <= self.source_map@[j].0
    }
    // the span of the last entry at or before ip (what a reader of the map is entitled to expect)
    spec fn lookup(m: Seq<(u32, Span)>, ip: u32) -> Option<Span>
        decreases m.len()
    {
        if m.len() == 0 { None }
        else if m.last().0 <= ip { Some(m.last().1) }
        else { Self::lookup(m.drop_last(), ip) }
    }
""", impl_of="impl DebugInfo"),
        Fn(CHUNK, "impl DebugInfo :: fn push", props=("C12",), let_chains=True,
           before=[("return;", "proof { assert forall|q: u32| q >= ip implies Self::lookup(self.source_map@, q) == Some(span) by {} }")],
           at_end="proof { assert(self.source_map@.drop_last() =~= old(self).source_map@); assert(self.source_map@.last() == (ip, span)); }",
           spec=r"""
    requires
        old(self).sorted(),
        old(self).source_map@.len() > 0 ==> old(self).source_map@.last().0 <= ip,     // ips only grow (push_op)
    ensures
        final(self).sorted(),                                                                          // @stays_sorted
        // merging equal neighbours is unobservable: every later lookup sees `span` from ip on and
        // the old answers before it
        forall|q: u32| q >= ip ==> Self::lookup(final(self).source_map@, q) == Some(span),             // @new_span_from_ip_on
        forall|q: u32| q < ip ==> Self::lookup(final(self).source_map@, q) == Self::lookup(old(self).source_map@, q),   // @earlier_lookups_unchanged
"""),
        Fn(CHUNK, "impl DebugInfo :: fn get_source_span", props=("C12",),
           # `it:` names Verus' ghost loop iterator (annotation only, rule R6)
           subst=[("for entry in self.source_map.iter() {", "for entry in it: self.source_map.iter() {", 1)],
           loops={1: r"""
            invariant_except_break
                result == Self::lookup(self.source_map@.take(it.index@ as int), ip),
                forall|i: int| 0 <= i < it.index@ ==> self.source_map@[i].0 <= ip,
            invariant
                self.sorted(),
                0 <= it.index@ <= self.source_map@.len(),
            ensures
                result == Self::lookup(self.source_map@, ip),
"""},
           loop_open={1: r"""proof {
    let k = it.index@ as int;
    assert(self.source_map@.take(k + 1).drop_last() =~= self.source_map@.take(k));
    assert(self.source_map@.take(k + 1).last() == self.source_map@[k]);
    if self.source_map@[k].0 > ip { lemma_lookup_stops(self.source_map@, k, ip); }
}"""},

           spec=r"""
    requires self.sorted(),
    ensures r == Self::lookup(self.source_map@, ip),        // @span_of_last_entry_at_or_before_ip
"""),
    ],
    epilogue=r"""
// once an entry beyond ip is reached in a sorted map, the rest cannot matter
proof fn lemma_lookup_stops(m: Seq<(u32, Span)>, k: int, ip: u32)
    requires 0 <= k < m.len(), m[k].0 > ip,
        forall|i: int, j: int| 0 <= i <= j < m.len() ==> m[i].0 <= m[j].0,
    ensures DebugInfo::lookup(m, ip) == DebugInfo::lookup(m.take(k), ip),
    decreases m.len() - k
{
    if m.len() - 1 > k {
        assert(m.last().0 >= m[k].0);
        lemma_lookup_stops(m.drop_last(), k, ip);
        assert(m.drop_last().take(k) =~= m.take(k));
    } else {
        assert(m.drop_last() =~= m.take(k));
    }
}
proof fn canary_debuginfo(d: DebugInfo) requires d.sorted(), d.source_map@.len() > 1 ensures false {}
""",
    canaries=("canary_debuginfo",),
)
