"""V-compare: comparison operators on maps with metakeys (crates/runtime/src/vm.rs run_less,
run_less_or_equal, run_greater, run_greater_or_equal), C17's "missing `<=`, `>`, `>=` are derived from
`@==` / `@<`" and "invokes the corresponding metakey function with the documented operands".

The dispatch macro `call_metamap_binary_op!` is expanded in place from the real macro_rules! text
(rule R12). Calling into script code is assumed (call_overridden_op_2 pushes the call,
run_overridden_comparison_op yields the truth value the metakey function computes for exactly the
operands it is given); what is proved is which metakey function is chosen, with which operands, in
which order, and how the results are combined.

Contracts only. Function bodies come from /repo at run time.
"""
from engine.unit import Fn, Raw, Type, Unit

F = "crates/runtime/src/vm.rs"
M = "crates/runtime/src/types/meta_map.rs"
P = ("C17", "C01", "C06")

PRELUDE = r"""
global size_of usize == 8;   // assumption: 64-bit target

// ---- shims (assumptions)
#[verifier::external_body] pub struct Error { _p: u8 }
pub type Result<T> = core::result::Result<T, Error>;
#[verifier::external_body] pub struct KNumber { _p: u8 }
#[verifier::external_body] pub struct KString { _p: u8 }
#[verifier::external_body] pub struct KObject { _p: u8 }
#[verifier::external_body] pub struct ObjectRef { _p: u8 }
pub enum MetaKey { BinaryOp(BinaryOp), Other(u8) }
// `&Op.into()` (impl From<BinaryOp> for MetaKey), rule R5
pub fn meta_key(op: BinaryOp) -> (r: MetaKey) ensures r == MetaKey::BinaryOp(op) { MetaKey::BinaryOp(op) }

// KMap: only its metamap matters here
#[verifier::external_body] pub struct KMap { _p: u8 }
impl KMap {
    pub uninterp spec fn meta(&self) -> Map<MetaKey, KValue>;
    #[verifier::external_body]
    pub fn contains_meta_key(&self, k: &MetaKey) -> (r: bool) ensures r == self.meta().contains_key(*k) { unimplemented!() }
    #[verifier::external_body]
    pub fn get_meta_value(&self, k: &MetaKey) -> (r: Option<KValue>)
        ensures r == (if self.meta().contains_key(*k) { Some(self.meta()[*k]) } else { None }) { unimplemented!() }
    pub open spec fn op(&self, o: BinaryOp) -> KValue { self.meta()[MetaKey::BinaryOp(o)] }
    pub open spec fn has(&self, o: BinaryOp) -> bool { self.meta().contains_key(MetaKey::BinaryOp(o)) }
}
pub enum KValue { Null, Bool(bool), Number(KNumber), Str(KString), Map(KMap), Object(KObject), Other(u8) }
impl Clone for KValue { #[verifier::external_body] fn clone(&self) -> (r: Self) ensures r == *self { unimplemented!() } }
// `result.into()` (impl From<bool> for KValue), rule R5
pub fn bool_into_value(b: bool) -> (r: KValue) ensures r == KValue::Bool(b) { KValue::Bool(b) }
// comparisons of numbers / strings (K-number's territory; `a.as_str() < b.as_str()`), rule R5
pub uninterp spec fn num_cmp(a: KNumber, b: KNumber, op: int) -> bool;
pub uninterp spec fn str_cmp(a: KString, b: KString, op: int) -> bool;
#[verifier::external_body] pub fn number_cmp(a: &KNumber, b: &KNumber, op: u8) -> (r: bool) ensures r == num_cmp(*a, *b, op as int) { unimplemented!() }
#[verifier::external_body] pub fn string_cmp(a: &KString, b: &KString, op: u8) -> (r: bool) ensures r == str_cmp(*a, *b, op as int) { unimplemented!() }
// host objects: V-objdefaults' territory
impl KObject { #[verifier::external_body] pub fn try_borrow(&self) -> Result<ObjectRef> { unimplemented!() } }
impl ObjectRef {
    #[verifier::external_body] pub fn less(&self, rhs: &KValue) -> Result<bool> { unimplemented!() }
    #[verifier::external_body] pub fn less_or_equal(&self, rhs: &KValue) -> Result<bool> { unimplemented!() }
    #[verifier::external_body] pub fn greater(&self, rhs: &KValue) -> Result<bool> { unimplemented!() }
    #[verifier::external_body] pub fn greater_or_equal(&self, rhs: &KValue) -> Result<bool> { unimplemented!() }
}
#[verifier::external_body]
pub fn binary_op_error<T>(lhs: &KValue, rhs: &KValue, op: BinaryOp) -> (r: Result<T>) ensures r is Err { unimplemented!() }

// the truth value the metakey function `op` computes for (lhs, rhs): script code, uninterpreted
pub uninterp spec fn op_says(lhs: KValue, rhs: KValue, op: KValue) -> bool;

pub struct KotoVm { pub registers: Ghost<Seq<KValue>>, pub pending: Ghost<Option<(Option<u8>, KValue, KValue, KValue)>> }
"""

VM_SPECS = r"""
    pub uninterp spec fn reg(&self, r: u8) -> KValue;
    #[verifier::external_body]
    fn get_register(&self, r: u8) -> (v: &KValue) ensures *v == self.reg(r) { unimplemented!() }
    #[verifier::external_body]
    fn set_register(&mut self, r: u8, v: KValue) ensures final(self).reg(r) == v, final(self).pending == old(self).pending { unimplemented!() }
    // assumed: sets up the call `op(a, b)` whose result goes to `result` (the frame runs when the
    // instruction loop continues); `pending` records the most recent such call
    #[verifier::external_body]
    fn call_overridden_op_2(&mut self, result: Option<u8>, a: KValue, b: KValue, op: KValue) -> (r: Result<()>)
        ensures r is Ok ==> final(self).pending@ == Some((result, a, b, op)) { unimplemented!() }
    // assumed: calls `op(lhs, rhs)` right away and returns its Bool result
    #[verifier::external_body]
    fn run_overridden_comparison_op(&mut self, lhs: KValue, rhs: KValue, op: KValue) -> (r: Result<bool>)
        ensures r matches Ok(b) ==> b == op_says(lhs, rhs, op) { unimplemented!() }

    // the documented dispatch for a map on the left of a comparison
    spec fn direct(o: &KotoVm, f: &KotoVm, ok: bool, result: u8, lhs: u8, rhs: u8, op: BinaryOp) -> bool {
        o.reg(lhs) matches KValue::Map(m) ==> (m.has(op) && ok ==>
            f.pending@ == Some((Some(result), o.reg(lhs), o.reg(rhs), m.op(op))))
    }
"""

NUMSTR = [
    (r"Bool\(a (<=|>=|<|>) b\)", None),
]

CODE = {"<": 0, "<=": 1, ">": 2, ">=": 3}


def cmp_subst(sym, code):
    # whichever operator the arm uses is passed to the stub as its code (so that a changed operator is
    # judged, not lost); the contract demands the code of THIS function's operator
    out = []
    for s_, c_ in CODE.items():
        out.append(("Bool(a %s b)" % s_, "Bool(number_cmp(a, b, %d))" % c_, None))
        out.append(("Bool(a.as_str() %s b.as_str())" % s_, "Bool(string_cmp(a, b, %d))" % c_, None))
    return out + [
        (r"&([A-Za-z]+)\.into\(\)", r"&meta_key(\1)", None, "re"),
        (r"\bresult\.into\(\)", "bool_into_value(result)", None, "re"),
        (r"(o\.try_borrow\(\)\?\.[a-z_]+\(rhs_value\)\?)\.into\(\)", r"bool_into_value(\1)", 1, "re"),
    ]


def builtin_clauses(lhs, rhs, result, code):
    return """
        // C01: numbers and strings compare by value / lexicographically with THIS operator
        old(self).reg(%(l)s) matches KValue::Number(a) ==> (old(self).reg(%(r)s) matches KValue::Number(b) ==> r is Ok && final(self).reg(%(res)s) == KValue::Bool(num_cmp(a, b, %(c)d))),   // @numbers_compare_with_this_operator
        old(self).reg(%(l)s) matches KValue::Str(a) ==> (old(self).reg(%(r)s) matches KValue::Str(b) ==> r is Ok && final(self).reg(%(res)s) == KValue::Bool(str_cmp(a, b, %(c)d))),      // @strings_compare_with_this_operator
""" % dict(l=lhs, r=rhs, res=result, c=code)


MACROS = [("call_metamap_binary_op", F, "mod macros :: macro_rules! call_metamap_binary_op")]

UNIT = Unit(
    name="V-compare",
    prelude=PRELUDE,
    items=[
        Type(M, "enum BinaryOp", derive="PartialEq, Eq, Clone, Copy"),
        Raw(VM_SPECS, impl_of="impl KotoVm"),
        Fn(F, "impl KotoVm :: fn run_less", props=P, macros=MACROS, subst=cmp_subst("<", 0),
           spec=r"""
    ensures
        // C17: a map with @< : that function is called with (lhs, rhs), its result goes to `result`
        Self::direct(old(self), final(self), r is Ok, result, lhs, rhs, BinaryOp::Less),                   // @metakey_function_called_with_documented_operands
        // no @<: an error (nothing to derive `<` from)
        old(self).reg(lhs) matches KValue::Map(m) ==> (!m.has(BinaryOp::Less) ==> r is Err),               // @missing_operator_is_an_error
""" + builtin_clauses("lhs", "rhs", "result", 0) + r""""""),
        Fn(F, "impl KotoVm :: fn run_less_or_equal", props=P, macros=MACROS, subst=cmp_subst("<=", 1),
           spec=r"""
    ensures
        Self::direct(old(self), final(self), r is Ok, result, lhs, rhs, BinaryOp::LessOrEqual),            // @metakey_function_called_with_documented_operands
        // C17: a missing `<=` is derived from @< and @==: (lhs < rhs) or (lhs == rhs), operands in order
        old(self).reg(lhs) matches KValue::Map(m) ==> (!m.has(BinaryOp::LessOrEqual) && m.has(BinaryOp::Less) && m.has(BinaryOp::Equal) && r is Ok ==>
            final(self).reg(result) == KValue::Bool(op_says(old(self).reg(lhs), old(self).reg(rhs), m.op(BinaryOp::Less))
                                                    || op_says(old(self).reg(lhs), old(self).reg(rhs), m.op(BinaryOp::Equal)))),   // @derived_from_less_and_equal
        old(self).reg(lhs) matches KValue::Map(m) ==> (!m.has(BinaryOp::LessOrEqual) && !(m.has(BinaryOp::Less) && m.has(BinaryOp::Equal)) ==> r is Err),   // @missing_operator_is_an_error
""" + builtin_clauses("lhs", "rhs", "result", 1) + r""""""),
        Fn(F, "impl KotoVm :: fn run_greater", props=P, macros=MACROS, subst=cmp_subst(">", 2),
           spec=r"""
    ensures
        Self::direct(old(self), final(self), r is Ok, result, lhs, rhs, BinaryOp::Greater),                // @metakey_function_called_with_documented_operands
        // C17: a missing `>` is derived from @< and @==: not ((lhs < rhs) or (lhs == rhs))
        old(self).reg(lhs) matches KValue::Map(m) ==> (!m.has(BinaryOp::Greater) && m.has(BinaryOp::Less) && m.has(BinaryOp::Equal) && r is Ok ==>
            final(self).reg(result) == KValue::Bool(!(op_says(old(self).reg(lhs), old(self).reg(rhs), m.op(BinaryOp::Less))
                                                      || op_says(old(self).reg(lhs), old(self).reg(rhs), m.op(BinaryOp::Equal))))),   // @derived_from_less_and_equal
        old(self).reg(lhs) matches KValue::Map(m) ==> (!m.has(BinaryOp::Greater) && !(m.has(BinaryOp::Less) && m.has(BinaryOp::Equal)) ==> r is Err),   // @missing_operator_is_an_error
""" + builtin_clauses("lhs", "rhs", "result", 2) + r""""""),
        Fn(F, "impl KotoVm :: fn run_greater_or_equal", props=P, macros=MACROS, subst=cmp_subst(">=", 3) + [("use macros::call_metamap_binary_op;", "", 1)],
           spec=r"""
    ensures
        Self::direct(old(self), final(self), r is Ok, result, lhs, rhs, BinaryOp::GreaterOrEqual),         // @metakey_function_called_with_documented_operands
        // C17: a missing `>=` is derived from @<: not (lhs < rhs)
        old(self).reg(lhs) matches KValue::Map(m) ==> (!m.has(BinaryOp::GreaterOrEqual) && m.has(BinaryOp::Less) && r is Ok ==>
            final(self).reg(result) == KValue::Bool(!op_says(old(self).reg(lhs), old(self).reg(rhs), m.op(BinaryOp::Less)))),   // @derived_from_less
        old(self).reg(lhs) matches KValue::Map(m) ==> (!m.has(BinaryOp::GreaterOrEqual) && !m.has(BinaryOp::Less) ==> r is Err),   // @missing_operator_is_an_error
""" + builtin_clauses("lhs", "rhs", "result", 3) + r""""""),
    ],
    epilogue=r"""
// ---- vacuity guard: MUST FAIL
proof fn canary_compare(vm: KotoVm, r: u8, m: KMap) requires vm.reg(r) == KValue::Map(m), m.has(BinaryOp::Less), !m.has(BinaryOp::LessOrEqual) ensures false {}
""",
    canaries=("canary_compare",),
)
