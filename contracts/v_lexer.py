"""V-lexer: cursor bookkeeping and mode-specific scanners (crates/lexer/src/lexer.rs).

Contracts only. Function bodies come from /repo at run time.
"""
from engine.unit import Fn, Raw, Type, Unit

F = "crates/lexer/src/lexer.rs"
S = "crates/lexer/src/span.rs"
P = ("C09", "C06")

PRELUDE = r"""
global size_of usize == 8;   // assumption: 64-bit target
use core::iter::Peekable;
use core::str::Chars;

// ---- ghost model of the character cursor (assumptions: std's Peekable<Chars>, written from its docs)
#[verifier::external_type_specification]
#[verifier::external_body]
#[verifier::reject_recursive_types(I)]
pub struct ExPeekable<I: Iterator>(Peekable<I>);

// the characters the cursor still has to yield
pub uninterp spec fn pk<I: Iterator>(p: &Peekable<I>) -> Seq<I::Item>;

pub assume_specification<I: Iterator> [<Peekable<I> as Iterator>::next] (p: &mut Peekable<I>) -> (r: Option<I::Item>)
    ensures
        pk(old(p)).len() > 0 ==> r == Some(pk(old(p))[0]) && pk(final(p)) == pk(old(p)).drop_first(),
        pk(old(p)).len() == 0 ==> r is None && pk(final(p)) == pk(old(p));

pub assume_specification<I: Iterator> [Peekable::<I>::peek] (p: &mut Peekable<I>) -> (r: Option<&I::Item>)
    ensures
        pk(final(p)) == pk(old(p)),
        pk(old(p)).len() > 0 ==> r == Some(&pk(old(p))[0]),
        pk(old(p)).len() == 0 ==> r is None;

// `chars.clone()` (lookahead): the copy has the same characters ahead (std's derive(Clone))
pub assume_specification<I: Iterator + Clone> [<Peekable<I> as Clone>::clone] (p: &Peekable<I>) -> (r: Peekable<I>)
    where I::Item: Clone
    ensures pk(&r) == pk(p);

// ---- UTF-8 length and display width of a character: uninterpreted tables with their ranges
// (std char::len_utf8 is 1..=4; unicode-width's width() is None or 0..=2)
pub uninterp spec fn clen(c: char) -> int;
pub uninterp spec fn cwidth(c: char) -> int;
#[verifier::external_body]
proof fn axiom_clen(c: char) ensures 1 <= clen(c) <= 4, (c as u32) < 0x80 ==> clen(c) == 1 {}
#[verifier::external_body]
proof fn axiom_cwidth(c: char) ensures 0 <= cwidth(c) <= 2, 0x20 <= (c as u32) < 0x7f ==> cwidth(c) == 1 {}

// `c.len_utf8()` and `c.width().unwrap_or(0)` (rule R5: method calls on char routed to these stubs)
#[verifier::external_body]
fn len_utf8(c: char) -> (r: usize) ensures r as int == clen(c), 1 <= r <= 4, (c as u32) < 0x80 ==> r == 1 { unimplemented!() }
#[verifier::external_body]
fn width_or_0(c: char) -> (r: usize) ensures r as int == cwidth(c), r <= 2 { unimplemented!() }

// `c.try_into() == Ok(quote)` goes through `impl TryFrom<char> for StringQuote` ('"' <-> Double,
// '\'' <-> Single, extracted text above): routed to this stub (rule R5)
spec fn quote_char(q: StringQuote) -> char { match q { StringQuote::Double => '"', StringQuote::Single => '\'' } }
spec fn is_quote_spec(c: char, q: StringQuote) -> bool { c == quote_char(q) }
// `c.try_into()` to a StringQuote (impl TryFrom<char> for StringQuote, extracted text above)
#[verifier::external_body]
fn char_to_quote(c: char) -> (r: Result<StringQuote, ()>)
    ensures (r is Ok) == (c == '"' || c == '\''), r matches Ok(q) ==> c == quote_char(q)
{ unimplemented!() }
#[verifier::external_body]
fn is_quote(c: char, q: StringQuote) -> (r: bool) ensures r == (c == quote_char(q)) { unimplemented!() }

// ---- character classes used by the number / identifier scanners
// unicode-xid's XID_Continue table: uninterpreted
pub uninterp spec fn xid_continue(c: char) -> bool;
#[verifier::external_body]
fn is_id_continue(c: char) -> (r: bool) ensures r == xid_continue(c) { unimplemented!() }
// std char::is_ascii_digit / is_ascii_hexdigit (assumed from std's documentation)
spec fn ascii_digit(c: char) -> bool { '0' <= c <= '9' }
spec fn ascii_hexdigit(c: char) -> bool { ('0' <= c <= '9') || ('a' <= c <= 'f') || ('A' <= c <= 'F') }
#[verifier::external_body]
fn char_is_ascii_digit(c: &char) -> (r: bool) ensures r == ascii_digit(*c) { unimplemented!() }
#[verifier::external_body]
fn char_is_ascii_hexdigit(c: &char) -> (r: bool) ensures r == ascii_hexdigit(*c) { unimplemented!() }
// printable ASCII: one byte, one column
spec fn plain(c: char) -> bool { 0x20 <= (c as u32) < 0x7f }
// a run of plain characters: bytes == chars == columns
proof fn lemma_plain_run(s: Seq<char>, n: int, col: int)
    requires 0 <= n <= s.len(), forall|i: int| 0 <= i < n ==> plain(s[i]),
    ensures bytes(s.take(n)) == n, newlines(s.take(n)) == 0, col_after(col, s.take(n)) == col + n,
    decreases n
{
    if n == 0 { lemma_empty(s, col); } else { lemma_plain_run(s, n - 1, col); lemma_step(s, n - 1, col); }
}

// ---- what a scanner consumed, as functions of the consumed characters
// number of bytes of the token text
pub open spec fn bytes(s: Seq<char>) -> int decreases s.len() {
    if s.len() == 0 { 0 } else { bytes(s.drop_last()) + clen(s.last()) }
}
// number of line breaks
pub open spec fn newlines(s: Seq<char>) -> int decreases s.len() {
    if s.len() == 0 { 0 } else { newlines(s.drop_last()) + (if s.last() == '\n' { 1int } else { 0int }) }
}
// the column after the consumed characters: zero right after a line break, otherwise it grows by
// the display width of each character (a '\r' is only ever consumed together with its '\n')
pub open spec fn col_after(col: int, s: Seq<char>) -> int decreases s.len() {
    if s.len() == 0 { col }
    else if s.last() == '\n' { 0 }
    else if s.last() == '\r' { col_after(col, s.drop_last()) }
    else { col_after(col, s.drop_last()) + cwidth(s.last()) }
}

// total display width
pub open spec fn wsum(s: Seq<char>) -> int decreases s.len() {
    if s.len() == 0 { 0 } else { wsum(s.drop_last()) + cwidth(s.last()) }
}
// without line breaks the column simply grows by the display width
proof fn lemma_col_is_wsum(s: Seq<char>, n: int, col: int)
    requires 0 <= n <= s.len(), forall|i: int| 0 <= i < n ==> s[i] != '\n' && s[i] != '\r',
    ensures col_after(col, s.take(n)) == col + wsum(s.take(n)), newlines(s.take(n)) == 0,
    decreases n
{
    if n == 0 { lemma_empty(s, col); assert(s.take(0) =~= Seq::<char>::empty()); }
    else {
        lemma_col_is_wsum(s, n - 1, col);
        lemma_step(s, n - 1, col);
        assert(s.take(n).drop_last() =~= s.take(n - 1));
    }
}

// a single-line comment: '#' followed by k-1 characters none of which is a line break
proof fn lemma_single_line(s: Seq<char>, k: int, col: int)
    requires 1 <= k <= s.len(), s[0] == '#', forall|i: int| 1 <= i < k ==> s[i] != '\n' && s[i] != '\r',
    ensures
        col_after(col, s.take(k)) == col + 1 + wsum(s.skip(1).take(k - 1)),
        newlines(s.take(k)) == 0,
        bytes(s.take(k)) == 1 + bytes(s.skip(1).take(k - 1)),
    decreases k
{
    if k == 1 {
        lemma_empty(s, col); lemma_step(s, 0, col);
        assert(s.skip(1).take(0) =~= Seq::<char>::empty());
    } else {
        lemma_single_line(s, k - 1, col);
        lemma_step(s, k - 1, col);
        lemma_step(s.skip(1), k - 2, col);
        assert(s.skip(1)[k - 2] == s[k - 1]);
    }
}

// a run of one-byte, one-column characters (quotes and hashes of a raw string delimiter)
proof fn lemma_delimiter_run(s: Seq<char>, a: int, b: int, col: int, q: StringQuote)
    requires 0 <= a <= b <= s.len(), forall|j: int| a <= j < b ==> s[j] == '#' || s[j] == quote_char(q),
    ensures
        bytes(s.take(b)) == bytes(s.take(a)) + (b - a),
        newlines(s.take(b)) == newlines(s.take(a)),
        col_after(col, s.take(b)) == col_after(col, s.take(a)) + (b - a),
    decreases b - a
{
    if a < b {
        lemma_delimiter_run(s, a, b - 1, col, q);
        lemma_step(s, b - 1, col);
    }
}

// `_` followed by k-1 identifier characters
proof fn lemma_ignored(s: Seq<char>, k: int, col: int)
    requires 1 <= k <= s.len(), s[0] == '_', forall|i: int| 1 <= i < k ==> s[i] != '\n' && s[i] != '\r',
    ensures
        col_after(col, s.take(k)) == col + 1 + wsum(s.skip(1).take(k - 1)),
        newlines(s.take(k)) == 0,
        bytes(s.take(k)) == clen('_') + bytes(s.skip(1).take(k - 1)),
        clen('_') == 1,
    decreases k
{
    axiom_clen('_');
    if k == 1 {
        lemma_empty(s, col); lemma_step(s, 0, col);
        assert(s.skip(1).take(0) =~= Seq::<char>::empty());
    } else {
        lemma_ignored(s, k - 1, col);
        lemma_step(s, k - 1, col);
        lemma_step(s.skip(1), k - 2, col);
        assert(s.skip(1)[k - 2] == s[k - 1]);
    }
}

// the workhorse: consuming one more character
proof fn lemma_step(s: Seq<char>, n: int, col: int)
    requires 0 <= n < s.len(),
    ensures
        bytes(s.take(n + 1)) == bytes(s.take(n)) + clen(s[n]),
        wsum(s.take(n + 1)) == wsum(s.take(n)) + cwidth(s[n]),
        1 <= clen(s[n]) <= 4,
        (s[n] as u32) < 0x80 ==> clen(s[n]) == 1,
        0 <= cwidth(s[n]) <= 2,
        0x20 <= (s[n] as u32) < 0x7f ==> cwidth(s[n]) == 1,
        newlines(s.take(n + 1)) == newlines(s.take(n)) + (if s[n] == '\n' { 1int } else { 0int }),
        col_after(col, s.take(n + 1)) == (if s[n] == '\n' { 0 } else if s[n] == '\r' { col_after(col, s.take(n)) } else { col_after(col, s.take(n)) + cwidth(s[n]) }),
{
    assert(s.take(n + 1).drop_last() =~= s.take(n));
    assert(s.take(n + 1).last() == s[n]);
    axiom_clen(s[n]);
    axiom_cwidth(s[n]);
}
proof fn lemma_empty(s: Seq<char>, col: int)
    ensures bytes(s.take(0)) == 0, newlines(s.take(0)) == 0, col_after(col, s.take(0)) == col,
{
    assert(s.take(0) =~= Seq::<char>::empty());
}
// monotonicity facts used for the overflow obligations
proof fn lemma_bounds(s: Seq<char>, n: int, col: int)
    requires 0 <= n <= s.len(), col >= 0,
    ensures 0 <= bytes(s.take(n)) <= 4 * n, 0 <= newlines(s.take(n)) <= n, 0 <= col_after(col, s.take(n)) <= col + 2 * n,
    decreases n
{
    if n == 0 { lemma_empty(s, col); } else { lemma_bounds(s, n - 1, col); lemma_step(s, n - 1, col); }
}
"""

LEXER_SPECS = r"""
    // sizes for which no counter can overflow (sources below 256 MiB)
    spec fn roomy(&self, input: Seq<char>) -> bool {
        &&& self.current_byte < 0x1000_0000
        &&& self.span.end.line < 0x1000_0000
        &&& self.span.end.column < 0x1000_0000
        &&& input.len() < 0x0400_0000
    }
    // C09 cursor contract: the new token starts where the previous one ended (contiguity) and
    // covers exactly `n` bytes
    spec fn advanced_from(&self, o: &Self, n: int) -> bool {
        &&& self.previous_byte == o.current_byte
        &&& self.current_byte == o.current_byte + n
        &&& self.span.start == o.span.end
        &&& self.source == o.source
        &&& self.indent == o.indent
        &&& self.string_mode_stack@ == o.string_mode_stack@
    }
    // the same, for scanners that also switch the string mode
    spec fn scanned_modes(&self, o: &Self, input: Seq<char>, n: int) -> bool {
        &&& 0 <= n <= input.len()
        &&& self.previous_byte == o.current_byte
        &&& self.current_byte == o.current_byte + bytes(input.take(n))
        &&& self.span.start == o.span.end
        &&& self.span.end.line == o.span.end.line + newlines(input.take(n))
        &&& self.span.end.column == col_after(o.span.end.column as int, input.take(n))
    }
    // C09 scanner contract: the token consumed exactly the first `n` characters of the input:
    // its byte length is theirs (so it ends on a character boundary), the line advanced by the
    // line breaks among them, and the column follows col_after
    spec fn scanned(&self, o: &Self, input: Seq<char>, n: int) -> bool {
        &&& 0 <= n <= input.len()
        &&& self.advanced_from(o, bytes(input.take(n)))
        &&& self.span.end.line == o.span.end.line + newlines(input.take(n))
        &&& self.span.end.column == col_after(o.span.end.column as int, input.take(n))
    }
"""

UNIT = Unit(
    name="V-lexer",
    prelude=PRELUDE,
    items=[
        Type(S, "struct Position", derive="Clone, Copy, PartialEq, Eq"),
        Type(S, "struct Span", derive="Clone, Copy, PartialEq, Eq"),
        Type(F, "struct RawStringDelimiter", derive="Clone, Copy, PartialEq, Eq"),
        Type(F, "enum StringQuote", derive="Clone, Copy, PartialEq, Eq"),
        Type(F, "enum StringType", derive="Clone, Copy, PartialEq, Eq"),
        Type(F, "enum StringMode"),
        Type(F, "enum Token", derive="Clone, Copy, PartialEq, Eq"),
        Type(F, "struct TokenLexer"),
        Raw(LEXER_SPECS, impl_of="impl<'a> TokenLexer<'a>"),
        Fn(F, "impl<'a> TokenLexer<'a> :: fn current_position", props=P, spec=r"""
    ensures r == self.span.end,
"""),
        Fn(F, "impl<'a> TokenLexer<'a> :: fn advance_to_position", props=P, spec=r"""
    requires old(self).current_byte + char_bytes <= usize::MAX,
    ensures
        final(self).advanced_from(old(self), char_bytes as int),     // @contiguous_and_byte_exact
        final(self).span.end == position,                           // @ends_at_given_position
"""),
        Fn(F, "impl<'a> TokenLexer<'a> :: fn advance_line_utf8", props=P, spec=r"""
    requires old(self).current_byte + char_bytes <= usize::MAX, old(self).span.end.column + char_count <= u32::MAX,
    ensures
        final(self).advanced_from(old(self), char_bytes as int),     // @contiguous_and_byte_exact
        final(self).span.end.line == old(self).span.end.line,        // @same_line
        final(self).span.end.column == old(self).span.end.column + char_count,   // @column_grows_by_width
"""),
        Fn(F, "impl<'a> TokenLexer<'a> :: fn advance_line", props=P, spec=r"""
    requires old(self).current_byte + char_bytes <= usize::MAX, old(self).span.end.column + char_bytes <= u32::MAX,
    ensures
        final(self).advanced_from(old(self), char_bytes as int),     // @contiguous_and_byte_exact
        final(self).span.end.line == old(self).span.end.line,        // @same_line
        final(self).span.end.column == old(self).span.end.column + char_bytes,   // @column_grows_by_width
"""),
        Fn(F, "impl<'a> TokenLexer<'a> :: fn consume_newline", props=P,
           after_open="let ghost input = pk(&chars);",
           spec=r"""
    requires old(self).roomy(pk(&chars)),
    ensures
        // a line break is "\n" or "\r\n": exactly those characters are consumed, the line number
        // grows by one and the column restarts at zero
        r != Token::Error ==> (exists|n: int| final(self).scanned(old(self), pk(&chars), n) && n >= 1 && pk(&chars)[n - 1] == '\n'),   // @consumes_exactly_the_line_break
        r != Token::Error ==> final(self).span.end.line == old(self).span.end.line + 1 && final(self).span.end.column == 0,   // @next_line_column_zero
        r == Token::Error ==> *final(self) == *old(self),               // @error_does_not_advance
""",
           before=[("NewLine\n", r"""proof {
    let n: int = if input[0] == '\r' { 2 } else { 1 };
    let col = old(self).span.end.column as int;
    lemma_empty(input, col);
    lemma_step(input, 0, col);
    if n == 2 { lemma_step(input, 1, col); }
    assert(self.scanned(old(self), input, n));
}""")],
           ),

        Fn(F, "fn consume_and_count_utf8", props=P,
           subst=[("c.len_utf8()", "len_utf8(*c)", 1), ("c.width().unwrap_or(0)", "width_or_0(*c)", 1)],
           after_open="let ghost input = pk(chars);",
           loops={1: r"""
            invariant
                input == pk(old(chars)),
                input.len() < 0x0400_0000,
                forall|c: char| call_requires(predicate, (c,)),
                ({ let k = input.len() - pk(chars).len();
                   &&& 0 <= k <= input.len()
                   &&& pk(chars) == input.skip(k)
                   &&& char_bytes as int == bytes(input.take(k))
                   &&& char_count as int == wsum(input.take(k))
                   &&& char_bytes <= 4 * k && char_count <= 2 * k
                   &&& forall|i: int| 0 <= i < k ==> call_ensures(predicate, (input[i],), true) }),
            decreases pk(chars).len(),
"""},
           before=[("chars.next();", r"""proof {
    let k = input.len() - pk(chars).len();
    lemma_step(input, k, 0);
    assert(input.take(k + 1).drop_last() =~= input.take(k));
    assert(input.skip(k)[0] == input[k]);
    assert(input.skip(k).drop_first() =~= input.skip(k + 1));
}""")],
           spec=r"""
    requires pk(old(chars)).len() < 0x0400_0000, forall|c: char| call_requires(predicate, (c,)),
    ensures
        // consumes a prefix of the input and reports exactly its UTF-8 byte length and display width
        ({ let input = pk(old(chars)); let k = input.len() - pk(final(chars)).len();
           &&& 0 <= k <= input.len()
           &&& pk(final(chars)) == input.skip(k)                              // @consumes_a_prefix
           &&& r.0 as int == bytes(input.take(k))                           // @byte_count_is_utf8_length
           &&& r.1 as int == wsum(input.take(k))                            // @width_is_display_width
           &&& r.0 <= 4 * k && r.1 <= 2 * k
           &&& forall|i: int| 0 <= i < k ==> call_ensures(predicate, (input[i],), true) }),   // @only_matching_chars
"""),

        Fn(F, "impl<'a> TokenLexer<'a> :: fn consume_comment", props=P,
           subst=[("c.len_utf8()", "len_utf8(c)", 1), ("c.width().unwrap_or(0)", "width_or_0(c)", 1),
                  # the closure gets its (obvious) specification spelled out; its body is unchanged (rule R6)
                  ("|c| !matches!(c, '\\r' | '\\n')", "|c: char| -> (b: bool) ensures b == (c != '\\r' && c != '\\n') { !matches!(c, '\\r' | '\\n') }", 1)],
           after_open="let ghost input = pk(&chars); let ghost col0 = self.span.end.column as int; let ghost line0 = self.span.end.line as int;",
           loops={1: r"""
            invariant
                input.len() < 0x0400_0000, input.len() > 0,
                *self == *old(self),
                col0 == old(self).span.end.column, line0 == old(self).span.end.line, old(self).roomy(input),
                ({ let k = input.len() - pk(&chars).len();
                   &&& 1 <= k <= input.len()
                   &&& pk(&chars) == input.skip(k)
                   &&& char_bytes as int == bytes(input.take(k))
                   &&& position.line as int == line0 + newlines(input.take(k))
                   &&& position.column as int == col_after(col0, input.take(k))
                   &&& char_bytes <= 4 * k && position.column <= col0 + 2 * k && position.line <= line0 + k }),
            decreases pk(&chars).len(),
"""},
           loop_open={1: r"""proof {
    let k = input.len() - pk(&chars).len() - 1;
    lemma_step(input, k, col0);
    assert(input.skip(k)[0] == input[k]);
    assert(input.skip(k).drop_first() =~= input.skip(k + 1));
    if k + 1 < input.len() {
        lemma_step(input, k + 1, col0);
        assert(input.skip(k + 1)[0] == input[k + 1]);
        assert(input.skip(k + 1).drop_first() =~= input.skip(k + 2));
    }
    lemma_bounds(input, k + 1, col0);
}"""},
           before=[
               ("if chars.peek() == Some(&'-') {\n            // multi-line comment", r"""proof { lemma_empty(input, col0); lemma_step(input, 0, col0); assert(input.skip(0) =~= input); assert(input.skip(0).drop_first() =~= input.skip(1)); }"""),
               ("if end_found {", r"""proof { let k = input.len() - pk(&chars).len(); assert(self.scanned(old(self), input, k)); }"""),
               ("CommentSingle\n", r"""proof {
    let k = input.len() - pk(&chars).len();
    assert forall|i: int| 1 <= i < k implies input[i] != '\n' && input[i] != '\r' by {
        assert(input.skip(1)[i - 1] == input[i]);
    }
    lemma_single_line(input, k, col0);
    assert(self.scanned(old(self), input, k));
}"""),
           ],
           spec=r"""
    requires old(self).roomy(pk(&chars)), pk(&chars).len() > 0, pk(&chars)[0] == '#',
    ensures
        // a comment token covers exactly the characters that were consumed: its byte length is their
        // UTF-8 length, the line grows by the line breaks inside a multi-line comment, the column
        // restarts after each of them
        r != Token::Error ==> (exists|n: int| final(self).scanned(old(self), pk(&chars), n) && n >= 1),   // @token_covers_consumed_chars
        r == Token::CommentSingle ==> final(self).span.end.line == old(self).span.end.line,             // @single_line_comment_stays_on_line
"""),

        Fn(F, "impl<'a> TokenLexer<'a> :: fn consume_string_literal", props=P,
           # the returns inside the loop need the entry value of `chars` (a by-value `mut` parameter,
           # which cannot be named in an invariant): let the loop body see the facts before the loop
           attrs=("verifier::loop_isolation(false)",),
           subst=[("c.len_utf8()", "len_utf8(c)", 1), ("c.width().unwrap_or(0)", "width_or_0(c)", 1),
                  ("_ if c.try_into() == Ok(end_quote) =>", "_ if is_quote(c, end_quote) =>", 1),
                  ("Some(&c) if c.try_into() == Ok(end_quote) => true,", "Some(c) if is_quote(*c, end_quote) => true,", 1)],
           after_open="let ghost input = pk(&chars); let ghost col0 = self.span.end.column as int; let ghost line0 = self.span.end.line as int;",
           loops={1: r"""
            invariant
                input.len() < 0x0400_0000,
                *self == *old(self),
                col0 == old(self).span.end.column, line0 == old(self).span.end.line, old(self).roomy(input),
                ({ let k = input.len() - pk(&chars).len();
                   &&& 0 <= k <= input.len()
                   &&& pk(&chars) == input.skip(k)
                   &&& string_bytes as int == bytes(input.take(k))
                   &&& position.line as int == line0 + newlines(input.take(k))
                   &&& position.column as int == col_after(col0, input.take(k))
                   &&& string_bytes <= 4 * k && position.column <= col0 + 2 * k && position.line <= line0 + k }),
            decreases pk(&chars).len(),
"""},
           loop_open={1: r"""proof {
    let k = input.len() - pk(&chars).len();
    if k < input.len() {
        lemma_step(input, k, col0);
        assert(input.skip(k)[0] == input[k]);
        assert(input.skip(k).drop_first() =~= input.skip(k + 1));
        if k + 1 < input.len() {
            lemma_step(input, k + 1, col0);
            assert(input.skip(k + 1)[0] == input[k + 1]);
            assert(input.skip(k + 1).drop_first() =~= input.skip(k + 2));
            if k + 2 < input.len() {
                lemma_step(input, k + 2, col0);
                assert(input.skip(k + 2)[0] == input[k + 2]);
                assert(input.skip(k + 2).drop_first() =~= input.skip(k + 3));
            }
        }
    }
    lemma_bounds(input, k, col0);
}"""},
           before=[
               ("let mut string_bytes = 0;", "proof { lemma_empty(input, col0); assert(input.skip(0) =~= input); }"),
               ("return StringLiteral;", "proof { let k = input.len() - pk(&chars).len(); assert(self.scanned(old(self), input, k)); }", 1),
               ("return StringLiteral;", "proof { let k = input.len() - pk(&chars).len(); assert(self.scanned(old(self), input, k)); }", 2),
           ],
           spec=r"""
    requires old(self).roomy(pk(&chars)),
    ensures
        // the literal's text is exactly the characters consumed (escapes, line breaks and multi-byte
        // characters included): byte-exact length, lines counted, column restarted after a break
        r != Token::Error ==> (exists|n: int| final(self).scanned(old(self), pk(&chars), n)),          // @token_covers_consumed_chars
        r == Token::Error ==> *final(self) == *old(self),                                               // @error_does_not_advance
"""),

        Fn(F, "impl<'a> TokenLexer<'a> :: fn consume_raw_string_contents", props=P,
           attrs=("verifier::loop_isolation(false)", "verifier::rlimit(60)"),
           subst=[("c.len_utf8()", "len_utf8(c)", 1), ("c.width().unwrap_or(0)", "width_or_0(c)", 1),
                  ("_ if c.try_into() == Ok(delimiter.quote) =>", "_ if is_quote(c, delimiter.quote) =>", 1),
                  ("for i in 0..delimiter.hash_count {", "for i in it: 0..delimiter.hash_count {", 1)],
           after_open="let ghost input = pk(&chars); let ghost col0 = self.span.end.column as int; let ghost line0 = self.span.end.line as int;",
           loops={1: r"""
            invariant
                input.len() < 0x0400_0000,
                *self == *old(self),
                col0 == old(self).span.end.column, line0 == old(self).span.end.line, old(self).roomy(input),
                ({ let k = input.len() - pk(&chars).len();
                   &&& 0 <= k <= input.len()
                   &&& pk(&chars) == input.skip(k)
                   &&& string_bytes as int == bytes(input.take(k))
                   &&& position.line as int == line0 + newlines(input.take(k))
                   &&& position.column as int == col_after(col0, input.take(k))
                   &&& string_bytes <= 4 * k && position.column <= col0 + 2 * k && position.line <= line0 + k }),
            decreases pk(&chars).len(),
""",
                  2: r"""
            invariant
                input.len() < 0x0400_0000,
                *self == *old(self),
                col0 == old(self).span.end.column, line0 == old(self).span.end.line, old(self).roomy(input),
                // k0 = position of the quote; the quote and i hashes after it have been consumed, the
                // accumulators still describe the text BEFORE the quote
                input.len() - pk(&chars).len() >= kk,
                ({ let k = input.len() - pk(&chars).len(); let k0 = k - 1 - it.index@ as int;
                   &&& 0 <= k0 && k <= input.len()
                   &&& pk(&chars) == input.skip(k)
                   &&& is_quote_spec(input[k0], delimiter.quote)
                   &&& forall|j: int| k0 < j < k ==> input[j] == '#'
                   &&& string_bytes as int == bytes(input.take(k0))
                   &&& position.line as int == line0 + newlines(input.take(k0))
                   &&& position.column as int == col_after(col0, input.take(k0))
                   &&& string_bytes <= 4 * k0 && position.column <= col0 + 2 * k0 && position.line <= line0 + k0 }),
"""},
           loop_open={1: r"""let ghost kk: int = input.len() - pk(&chars).len();
proof {
    let k = input.len() - pk(&chars).len();
    lemma_step(input, k - 1, col0);
    assert(input.skip(k - 1)[0] == input[k - 1]);
    assert(input.skip(k - 1).drop_first() =~= input.skip(k));
    if k < input.len() {
        lemma_step(input, k, col0);
        assert(input.skip(k)[0] == input[k]);
        assert(input.skip(k).drop_first() =~= input.skip(k + 1));
    }
    lemma_bounds(input, k, col0);
}""",
                      2: r"""proof {
    let k = input.len() - pk(&chars).len();
    if k < input.len() {
        assert(input.skip(k)[0] == input[k]);
        assert(input.skip(k).drop_first() =~= input.skip(k + 1));
    }
}"""},
           before=[
               ("let mut string_bytes = 0;", "proof { lemma_empty(input, col0); assert(input.skip(0) =~= input); }"),
               ("continue 'outer;", r"""proof {
    let k = input.len() - pk(&chars).len();
    let k0 = k - 1 - i as int;
    lemma_delimiter_run(input, k0, k, col0, delimiter.quote);
    lemma_bounds(input, k, col0);
}"""),
               ("self.string_mode_stack.pop(); // StringMode::RawStart", r"""proof {
    let k = input.len() - pk(&chars).len();
    let k0 = k - 1 - delimiter.hash_count as int;
    assert(self.scanned_modes(old(self), input, k0));
}"""),
               ("return Token::StringLiteral;", r"""proof {
    let k = input.len() - pk(&chars).len();
    let k0 = k - 1 - delimiter.hash_count as int;
    assert(self.scanned_modes(old(self), input, k0));
}"""),
           ],
           spec=r"""
    requires old(self).roomy(pk(&chars)),
    ensures
        // the raw string's contents end right before the end delimiter; everything before it was
        // counted byte-exactly, with its line breaks
        r != Token::Error ==> (exists|n: int| final(self).scanned_modes(old(self), pk(&chars), n)),   // @token_covers_contents
        r == Token::Error ==> *final(self) == *old(self),                                             // @error_does_not_advance
"""),

        Fn(F, "impl<'a> TokenLexer<'a> :: fn consume_raw_string_end", props=P,
           spec=r"""
    requires old(self).current_byte < 0x1000_0000, old(self).span.end.column < 0x1000_0000,
    ensures
        // the end delimiter is a quote and hash_count hashes: one byte and one column each
        final(self).previous_byte == old(self).current_byte,                                          // @contiguous
        final(self).current_byte == old(self).current_byte + 1 + delimiter.hash_count,                // @byte_exact
        final(self).span.start == old(self).span.end,
        final(self).span.end.line == old(self).span.end.line,
        final(self).span.end.column == old(self).span.end.column + 1 + delimiter.hash_count,
        r == Token::StringEnd,
"""),
        Fn(F, "fn consume_and_count", props=P,
           after_open="let ghost input = pk(chars);",
           loops={1: r"""
            invariant
                input == pk(old(chars)), input.len() < 0x0400_0000,
                forall|c: char| call_requires(predicate, (c,)),
                ({ let k = input.len() - pk(chars).len();
                   &&& 0 <= k <= input.len()
                   &&& pk(chars) == input.skip(k)
                   &&& char_bytes as int == k
                   &&& forall|i: int| 0 <= i < k ==> call_ensures(predicate, (input[i],), true) }),
            decreases pk(chars).len(),
"""},
           before=[("chars.next();", r"""proof {
    let k = input.len() - pk(chars).len();
    assert(input.skip(k)[0] == input[k]);
    assert(input.skip(k).drop_first() =~= input.skip(k + 1));
}""")],
           spec=r"""
    requires pk(old(chars)).len() < 0x0400_0000, forall|c: char| call_requires(predicate, (c,)),
    ensures
        // counts CHARACTERS (callers only pass ASCII predicates, for which this is the byte count)
        ({ let input = pk(old(chars)); let k = input.len() - pk(final(chars)).len();
           &&& 0 <= k <= input.len()
           &&& pk(final(chars)) == input.skip(k)                              // @consumes_a_prefix
           &&& r as int == k                                                // @count_is_number_of_chars
           &&& forall|i: int| 0 <= i < k ==> call_ensures(predicate, (input[i],), true) }),   // @only_matching_chars
"""),

        Fn(F, "fn is_decimal_digit", props=P, subst=[("c.is_ascii_digit()", "char_is_ascii_digit(&c)", 1)], spec=r"""
    ensures r == (ascii_digit(c) || c == '_'), r ==> plain(c),
"""),
        Fn(F, "fn is_binary_digit", props=P, spec=r"""
    ensures r == (c == '0' || c == '1' || c == '_'), r ==> plain(c),
"""),
        Fn(F, "fn is_octal_digit", props=P, spec=r"""
    ensures r == (('0' <= c <= '7') || c == '_'), r ==> plain(c),
"""),
        Fn(F, "fn is_hex_digit", props=P, subst=[("c.is_ascii_hexdigit()", "char_is_ascii_hexdigit(&c)", 1)], spec=r"""
    ensures r == (ascii_hexdigit(c) || c == '_'), r ==> plain(c),
"""),
        Fn(F, "fn is_whitespace", props=P, spec=r"""
    ensures r == (c == ' ' || c == '\t'),
"""),
        Fn(F, "impl<'a> TokenLexer<'a> :: fn consume_ignored", props=P,
           subst=[("c.len_utf8()", "len_utf8(c)", 1)],
           after_open="let ghost input = pk(&chars); let ghost col0 = self.span.end.column as int;",
           # anchors are kept short (call prefix only) so that a change of the ARGUMENTS is judged, not lost
           before=[("self.advance_line_utf8(", r"""proof {
    let k = input.len() - pk(&chars).len();
    assert forall|i: int| 1 <= i < k implies input[i] != '\n' && input[i] != '\r' by {
        assert(input.skip(1)[i - 1] == input[i]);
        assert(call_ensures(is_id_continue, (input.skip(1)[i - 1],), true));
    }
    lemma_ignored(input, k, col0);
    lemma_bounds(input, k, col0);
}"""),
                   ("Token::Underscore\n", r"""proof { let k = input.len() - pk(&chars).len(); assert(self.scanned(old(self), input, k)); }""")],
           spec=r"""
    requires old(self).roomy(pk(&chars)), pk(&chars).len() > 0, pk(&chars)[0] == '_',
        // identifier characters never are line breaks (XID_Continue contains no control characters)
        forall|c: char| xid_continue(c) ==> c != '\n' && c != '\r',
    ensures
        // `_name`: the byte length is the UTF-8 length of the consumed characters (identifiers may be
        // multi-byte), the column grows by their display width, the line stays
        exists|n: int| final(self).scanned(old(self), pk(&chars), n) && n >= 1,                       // @token_covers_consumed_chars
        final(self).span.end.line == old(self).span.end.line,
        r == Token::Underscore,
"""),

        Fn(F, "impl<'a> TokenLexer<'a> :: fn parse_raw_string_start", props=P,
           attrs=("verifier::loop_isolation(false)",),
           subst=[("if let Ok(quote) = c.try_into() {", "if let Ok::<StringQuote, ()>(quote) = char_to_quote(c) {", 1)],
           after_open="let ghost input = pk(&chars);",
           loops={1: r"""
            invariant
                *self == *old(self),
                input.len() < 0x0400_0000,
                ({ let k = input.len() - pk(&chars).len();
                   &&& 0 <= k <= input.len() && k == hash_count && hash_count < 256
                   &&& pk(&chars) == input.skip(k)
                   &&& forall|i: int| 0 <= i < k ==> input[i] == '#' }),
            decreases pk(&chars).len(),
"""},
           loop_open={1: r"""proof {
    let k = input.len() - pk(&chars).len();
    if k < input.len() {
        assert(input.skip(k)[0] == input[k]);
        assert(input.skip(k).drop_first() =~= input.skip(k + 1));
    }
}"""},
           spec=r"""
    requires old(self).current_byte < 0x1000_0000, old(self).span.end.column < 0x1000_0000, pk(&chars).len() < 0x0400_0000,
    ensures
        // r#..#" : the `r` (already consumed by the caller), the hashes and the quote are one byte and
        // one column each; anything else is not a raw string start and nothing moves
        r is None ==> *final(self) == *old(self),                                                        // @not_a_raw_string_nothing_moves
        r is Some ==> (exists|h: int| 0 <= h < 256 && h < pk(&chars).len()
            && (forall|i: int| 0 <= i < h ==> pk(&chars)[i] == '#')
            && (pk(&chars)[h] == '"' || pk(&chars)[h] == '\'')
            && final(self).previous_byte == old(self).current_byte
            && final(self).current_byte == old(self).current_byte + 2 + h
            && final(self).span.start == old(self).span.end
            && final(self).span.end.line == old(self).span.end.line
            && final(self).span.end.column == old(self).span.end.column + 2 + h),                       // @covers_r_hashes_and_quote
"""),
    ],
    epilogue=r"""
// ---- vacuity guard: MUST FAIL
proof fn canary_lexer(s: Seq<char>) requires s.len() > 1, bytes(s) > 2 ensures false {}
""",
    canaries=("canary_lexer",),
)
