"""V-range: KRange (crates/runtime/src/types/range.rs).

Contracts only. Function bodies come from /repo at run time.
"""
from engine.unit import Fn, Raw, Type, Unit

F = "crates/runtime/src/types/range.rs"
P = ("C01", "C13", "C06")

PRELUDE = r"""
global size_of usize == 8;   // assumption: 64-bit target
use core::cmp::Ordering;
use core::ops::Range;
use vstd::std_specs::cmp::OrdSpec;

// ---- shims (assumptions)
// koto_memory::Ptr (Rc/Arc): value semantics; make_mut gives unique access (clone-on-write)
pub struct Ptr<T> { pub v: T }
impl<T> core::ops::Deref for Ptr<T> {
    type Target = T;
    fn deref(&self) -> (r: &T) ensures *r == self.v { &self.v }
}
impl<T> Ptr<T> {
    #[verifier::external_body]
    fn make_mut(p: &mut Ptr<T>) -> (r: &mut T)
        ensures *r == old(p).v, final(p).v == *final(r)
    { unimplemented!() }
}
#[verifier::external_body]
pub struct Error { _p: u8 }
// `runtime_error!("expected a bounded range")` (rule R5)
#[verifier::external_body]
fn runtime_error_expected_bounded<T>() -> (r: Result<T, Error>) ensures r is Err { unimplemented!() }

// `.into()` of Bounded64 (impl From<Bounded64> for Inner, rule R5)
fn bounded64_into_inner(range: Bounded64) -> (r: Inner)
    ensures r == Inner::BoundedLarge(Ptr { v: range })
{ Inner::BoundedLarge(Ptr { v: range }) }

// std integer helpers outside vstd: assumed contracts (from std's documentation)
pub assume_specification [i64::saturating_add] (a: i64, b: i64) -> (r: i64)
    ensures r as int == (if a + b > i64::MAX { i64::MAX as int } else if a + b < i64::MIN { i64::MIN as int } else { a + b });
pub assume_specification [i64::abs_diff] (a: i64, b: i64) -> (r: u64)
    ensures r as int == (if a >= b { a - b } else { b - a });

// `if n < 0.0 { n.floor() } else { n.ceil() }.into()` (KNumber, K-number's territory): the integer
// the number is compared as (rule R5)
#[verifier::external_body]
pub struct KNumber { _p: u8 }
impl KNumber { pub uninterp spec fn as_index(&self) -> i64; }
#[verifier::external_body]
fn number_away_from_zero(n: KNumber) -> (r: i64) ensures r == n.as_index() { unimplemented!() }

// i32::try_from(i64) (std): assumed contract
#[verifier::external_body]
fn i32_try_from(x: i64) -> (r: Result<i32, ()>)
    ensures (r is Ok) == (i32::MIN <= x <= i32::MAX), r matches Ok(v) ==> v as int == x as int
{ unimplemented!() }
"""

SPECS = r"""
    // ---- abstract view: the (mathematical) interval of integers the range still has to yield,
    // independent of the Bounded(i32) / BoundedLarge(i64) representation
    spec fn bounded(&self) -> bool { self.0 is Bounded || self.0 is BoundedLarge }
    spec fn lo(&self) -> int {
        match self.0 {
            Inner::Bounded { start, .. } => start as int,
            Inner::BoundedLarge(r) => r.v.start as int,
            Inner::From { start } => start as int,
            _ => i64::MIN as int,
        }
    }
    // exclusive upper end
    spec fn hi(&self) -> int {
        match self.0 {
            Inner::Bounded { end, inclusive, .. } => if inclusive { end as int + 1 } else { end as int },
            Inner::BoundedLarge(r) => if r.v.inclusive { r.v.end as int + 1 } else { r.v.end as int },
            Inner::To { end, inclusive } => if inclusive { end as int + 1 } else { end as int },
            _ => i64::MAX as int,
        }
    }
    spec fn count(&self) -> int { if self.hi() > self.lo() { self.hi() - self.lo() } else { 0 } }
    spec fn elems(&self) -> Seq<int> { Seq::new(self.count() as nat, |i: int| self.lo() + i) }
"""

POP_COMMON = r"""
    ensures
        // an unbounded range cannot be iterated: error, nothing changes
        !old(self).bounded() ==> r is Err && *final(self) == *old(self),                              // @unbounded_is_error
        old(self).bounded() ==> r is Ok && final(self).bounded(),                                     // @bounded_is_ok
"""

UNIT = Unit(
    name="V-range",
    prelude=PRELUDE,
    items=[
        Type(F, "struct Bounded64"),
        Type(F, "enum Inner"),
        Type(F, "struct KRange"),
        Raw(SPECS, impl_of="impl KRange"),
        Fn(F, "impl KRange :: fn new", props=P,
           subst=[
               ("(i32::try_from(start), i32::try_from(end))", "(i32_try_from(start), i32_try_from(end))", 1),
               ("""                    _ => Self(
                        Bounded64 {
                            start,
                            end,
                            inclusive,
                        }
                        .into(),
                    ),""", """                    _ => Self(
                        bounded64_into_inner(Bounded64 {
                            start,
                            end,
                            inclusive,
                        }),
                    ),""", 1),
           ],
           spec=r"""
    ensures
        // the representation (i32 pair or boxed i64 pair) is invisible: the view is what was asked for
        (start is Some && end is Some) ==> r.bounded() && r.lo() == start->0 as int && r.hi() == (if (end->0).1 { (end->0).0 as int + 1 } else { (end->0).0 as int }),   // @bounded_view
        (start is Some && end is Some) <==> r.bounded(),                                                // @bounded_iff_both_ends
        (start is Some && end is None) ==> r.0 == (Inner::From { start: start->0 }),
        (start is None && end is Some) ==> r.0 == (Inner::To { end: (end->0).0, inclusive: (end->0).1 }),
        (start is None && end is None) ==> r.0 is Unbounded,
"""),
        Fn(F, "impl KRange :: fn start", props=P,
           spec=r"""
    ensures
        (self.0 is Bounded || self.0 is BoundedLarge || self.0 is From) ==> (r matches Some(s) && s as int == self.lo()),   // @start_is_lo
        (self.0 is To || self.0 is Unbounded) ==> r is None,
"""),
        Fn(F, "impl KRange :: fn end", props=P,
           spec=r"""
    ensures
        (self.0 is Bounded || self.0 is BoundedLarge || self.0 is To) ==> (r matches Some(e) && (if e.1 { e.0 as int + 1 } else { e.0 as int }) == self.hi()),   // @end_is_hi
        (self.0 is From || self.0 is Unbounded) ==> r is None,
"""),
        Fn(F, "impl KRange :: fn is_bounded", props=P,
           spec=r"""
    ensures r == self.bounded(),
"""),
        Fn(F, "impl KRange :: fn pop_front", props=P,
           subst=[('runtime_error!("expected a bounded range")', "runtime_error_expected_bounded()", 1),
                  # `start`/`end` are `&mut i32` here: std's `impl Ord for &mut A` delegates to A; made explicit (rule R5)
                  ("match start.cmp(&end) {", "match (*start).cmp(&*end) {", 1)],
           spec=POP_COMMON + r"""
        // C13: yields the first remaining element and keeps the rest, in order; then None forever
        old(self).bounded() && old(self).count() > 0 ==> (r matches Ok(Some(x)) && x as int == old(self).lo()),   // @yields_first
        old(self).bounded() && old(self).count() > 0 ==> final(self).elems() =~= old(self).elems().drop_first(),    // @rest_in_order
        old(self).bounded() && old(self).count() == 0 ==> (r matches Ok(None) && final(self).count() == 0),   // @exhausted_stays_exhausted
"""),
        Fn(F, "impl KRange :: fn pop_back", props=P,
           subst=[('runtime_error!("expected a bounded range")', "runtime_error_expected_bounded()", 1),
                  # `start`/`end` are `&mut i32` here: std's `impl Ord for &mut A` delegates to A; made explicit (rule R5)
                  ("match start.cmp(&end) {", "match (*start).cmp(&*end) {", 1)],
           spec=POP_COMMON + r"""
        // C13: yields the last remaining element and keeps the rest, in order
        old(self).bounded() && old(self).count() > 0 ==> (r matches Ok(Some(x)) && x as int == old(self).hi() - 1),   // @yields_last
        old(self).bounded() && old(self).count() > 0 ==> final(self).elems() =~= old(self).elems().drop_last(),     // @rest_in_order
        old(self).bounded() && old(self).count() == 0 ==> (r matches Ok(None) && final(self).count() == 0),   // @exhausted_stays_exhausted
"""),

        Fn(F, "impl KRange :: fn as_bounded_range", props=P,
           spec=r"""
    ensures
        // C06: total, no overflow (an inclusive end at i64::MAX saturates)
        r.start <= r.end,                                                                               // @never_descending
        self.bounded() ==> r.start as int == self.lo(),                                                 // @start_is_lo
        self.bounded() && self.hi() <= i64::MAX ==> r.end as int == (if self.hi() > self.lo() { self.hi() } else { self.lo() }),   // @end_is_exclusive_end
        self.bounded() && self.hi() > i64::MAX ==> r.end == i64::MAX,                                   // @saturates_at_max
        self.0 is From ==> r.start as int == self.lo() && r.end == i64::MAX,
        self.0 is Unbounded ==> r.start == i64::MIN && r.end == i64::MAX,
        self.0 is To ==> r.start == i64::MIN,
"""),
        Fn(F, "impl KRange :: fn indices", props=P,
           spec=r"""
    requires max_index <= isize::MAX as usize,      // lengths of Rust containers
    ensures
        // C01/C15: a slice range is always inside the container: 0 <= start <= end <= max_index
        r.start <= r.end <= max_index,                                                                  // @indices_in_bounds
        // in-range bounds are used as they are, everything else is clamped
        self.bounded() && 0 <= self.lo() <= self.hi() <= max_index ==> r.start as int == self.lo() && r.end as int == self.hi(),   // @in_range_bounds_unchanged
        self.bounded() && self.lo() < 0 ==> r.start == 0,                                               // @negative_start_clamped
        self.bounded() && self.lo() > max_index ==> r.start == max_index && r.end == max_index,         // @start_beyond_end_is_empty
        self.bounded() && self.hi() > max_index && 0 <= self.lo() <= max_index ==> r.end == max_index,  // @end_clamped
"""),
        Fn(F, "impl KRange :: fn size", props=P,
           spec=r"""
    ensures
        !self.bounded() ==> r is None,                                                                  // @unbounded_has_no_size
        // the number of elements the range yields (descending ranges are empty); no overflow
        self.bounded() && self.hi() <= i64::MAX ==> (r matches Some(n) && n as int == self.count()),    // @size_is_element_count
        self.bounded() ==> r is Some,
"""),

        Fn(F, "impl KRange :: fn contains", props=P,
           subst=[("let n: i64 = if n < 0.0 { n.floor() } else { n.ceil() }.into();", "let n: i64 = number_away_from_zero(n);", 1)],
           spec=r"""
    ensures
        // membership is exact, also for an inclusive end at i64::MAX (where the exclusive end does
        // not fit an i64); descending ranges contain nothing
        self.bounded() ==> r == (self.lo() <= n.as_index() < self.hi()),                                 // @bounded_membership_exact
        self.0 is From ==> r == (n.as_index() >= self.lo()),                                             // @from_membership
        self.0 is To ==> r == (n.as_index() < self.hi()),                                                // @to_membership
        self.0 is Unbounded ==> r,                                                                       // @unbounded_contains_everything
"""),
    ],
    epilogue=r"""
// ---- C13 composition: the remaining elements are strictly increasing, so however pop_front and
// pop_back are interleaved (each removes exactly the first / last remaining element) no element is
// yielded twice, the front yields ascending and the back descending
proof fn lemma_elems_strictly_increasing(r: KRange, i: int, j: int)
    requires 0 <= i < j < r.elems().len(),
    ensures r.elems()[i] < r.elems()[j], r.elems()[i] == r.lo() + i, r.elems().len() == r.count(),
{
}

// ---- vacuity guards: MUST FAIL
proof fn canary_range(r: KRange) requires r.bounded(), r.count() > 2 ensures false {}
""",
    canaries=("canary_range",),
)
