"""Catalogue of deliberate edits of koto's source for the self-test (engine/selftest.py).

kind "break": property-breaking, must produce a VIOLATION naming `expect`
kind "quiet": meaning-preserving, must produce no alarm
"""
FRAME = "crates/bytecode/src/frame.rs"
COMPILER = "crates/bytecode/src/compiler.rs"
NUMBER = "crates/runtime/src/types/number.rs"
VM = "crates/runtime/src/vm.rs"
RANGE = "crates/runtime/src/types/range.rs"
STRSLICE = "crates/parser/src/string_slice.rs"
PARSER = "crates/parser/src/parser.rs"
CHUNK = "crates/bytecode/src/chunk.rs"

MUTANTS = [
    # ---- V-frame
    dict(name="frame_push_limit_off_by_one", kind="break", prop="C05", units=["V-frame"], file=FRAME,
         old="if new_register == u8::MAX {", new="if new_register > u8::MAX {", expect="V-frame::Frame::push_register"),
    dict(name="frame_pop_keeps_count", kind="break", prop="C05", units=["V-frame"], file=FRAME,
         old="if register >= self.temporary_base {", new="if register > self.temporary_base {", expect="V-frame::Frame::pop_register"),
    dict(name="frame_local_limit_off_by_one", kind="break", prop="C05", units=["V-frame"], file=FRAME, count=2,
         old="if new_local_register < self.temporary_base as usize {", new="if new_local_register <= self.temporary_base as usize {", expect="V-frame::Frame::"),
    dict(name="frame_used_not_tracked", kind="break", prop="C05", units=["V-frame"], file=FRAME,
         old="self.temporaries_used_in_frame.max(self.temporary_count);", new="self.temporaries_used_in_frame.max(self.temporary_count - 1);", expect="V-frame::Frame::push_register"),
    dict(name="frame_quiet_rename_local", kind="quiet", prop="C05", units=["V-frame"], file=FRAME,
         old="let new_register = self.temporary_base + self.temporary_count;\n\n        if new_register == u8::MAX {", new="let fresh = self.temporary_base + self.temporary_count;\n        let new_register = fresh;\n\n        if new_register == u8::MAX {", expect=""),
    # ---- K-emit
    dict(name="emit_jump_back_truncates", kind="break", prop="C05", units=["K-emit"], file=COMPILER,
         old="        match u16::try_from(offset) {\n            Ok(offset_u16) => {\n                self.push_op_without_span(op, bytes);", new="        match Ok::<u16, ()>(offset as u16) {\n            Ok(offset_u16) => {\n                self.push_op_without_span(op, bytes);", expect="K-emit::emit_push_jump_back_op"),
    dict(name="emit_placeholder_off_by_two", kind="break", prop="C05", units=["K-emit"], file=COMPILER,
         old="let offset = self.bytes.len() - offset_ip - 2; // -2 bytes for u16", new="let offset = self.bytes.len() - offset_ip; // -2 bytes for u16", expect="K-emit::emit_update_offset_placeholder"),
    dict(name="emit_var_u32_wrong_shift", kind="break", prop="C05", units=["K-emit"], file=COMPILER,
         old="            n >>= 7;\n\n            if n != 0 {\n                byte |= 0x80;", new="            n >>= 8;\n\n            if n != 0 {\n                byte |= 0x80;", expect="K-emit::emit_push_var_u32_matches_spec"),
    # ---- K-number
    dict(name="number_add_saturates", kind="break", prop="C01", units=["K-number"], file=NUMBER,
         old="number_op!(Add, add, +, wrapping_add);", new="number_op!(Add, add, +, saturating_add);", expect="K-number::number_add_int_wraps"),
    dict(name="number_eq_truncates_float", kind="break", prop="C14", units=["K-number"], file=NUMBER,
         old="            (I64(a), F64(b)) => *a as f64 == *b,\n            (I64(a), I64(b)) => a == b,", new="            (I64(a), F64(b)) => *a == *b as i64,\n            (I64(a), I64(b)) => a == b,", expect="K-number::number_eq_"),
    dict(name="number_rem_zero_panics", kind="break", prop="C06", units=["K-number"], file=NUMBER,
         old="            (I64(_), I64(0)) => F64(f64::NAN),\n", new="", expect="K-number::number_rem_int_total"),
    dict(name="number_sub_mixed_swapped", kind="break", prop="C01", units=["K-number"], file=NUMBER, count=2,
         old="(I64(a), F64(b)) => F64(a as f64 $f64_op b),", new="(I64(a), F64(b)) => F64(b $f64_op a as f64),", expect="K-number::number_sub_"),
    # ---- V-vmproto
    dict(name="vm_call_leaks_on_bind_error", kind="break", prop="C07", units=["V-vmproto"], file=VM,
         old="            self.truncate_registers(result_register);\n            return Err(error);", new="            return Err(error);", expect="V-vmproto::KotoVm::call_and_run_function"),
    dict(name="vm_wrapper_no_truncate", kind="break", prop="C07", units=["V-vmproto"], file=VM,
         old="        let result = self.run_binary_op_inner(op, lhs, rhs);\n        // Ensure that the operation's registers are discarded if it exited early with an error\n        self.truncate_registers(result_register);", new="        let result = self.run_binary_op_inner(op, lhs, rhs);", expect="V-vmproto::KotoVm::run_binary_op::no_register_left_behind"),
    dict(name="vm_forgets_pop_frame_on_error", kind="break", prop="C07", units=["V-vmproto"], file=VM, count=3,
         old="            if result.is_err() {\n                self.pop_frame(KValue::Null)?;\n            }", new="", expect="V-vmproto::KotoVm::"),
    dict(name="vm_run_forgets_pop_frame", kind="break", prop="C07", units=["V-vmproto"], file=VM,
         old="        if result.is_err() {\n            self.pop_frame(KValue::Null)?;\n        }\n\n        // Reset the register stack", new="        // Reset the register stack", expect="V-vmproto::KotoVm::run::"),
    dict(name="vm_timeout_catchable", kind="break", prop="C08", units=["V-vmproto"], file=VM,
         old="                        ErrorKind::Timeout(timeout.execution_limit).into(),\n                        false,", new="                        ErrorKind::Timeout(timeout.execution_limit).into(),\n                        true,", expect="V-vmproto::KotoVm::execute_instructions"),
    dict(name="vm_unwind_ignores_barrier", kind="break", prop="C04", units=["V-vmproto"], file=VM,
         old="                    if frame.execution_barrier {\n                        break;\n                    }\n", new="", expect="V-vmproto::KotoVm::pop_call_stack_on_error"),
    dict(name="vm_unwind_ignores_allow_catch", kind="break", prop="C08", units=["V-vmproto"], file=VM,
         old="Some((error_register, catch_ip)) if allow_catch => {", new="Some((error_register, catch_ip)) => {", expect="V-vmproto::KotoVm::pop_call_stack_on_error"),
    dict(name="vm_timeout_polled_every_other_instruction", kind="break", prop="C08", units=["V-vmproto"], file=VM,
         old="                && timeout.check_for_timeout()", new="                && self.instruction_ip % 2 == 0\n                && timeout.check_for_timeout()", expect="V-vmproto::KotoVm::execute_instructions"),
    dict(name="vm_state_left_active_on_error", kind="break", prop="C07", units=["V-vmproto"], file=VM,
         old="                        self.execution_state = ExecutionState::Inactive;\n                        return Err(error);", new="                        return Err(error);", expect="V-vmproto::KotoVm::execute_instructions::state_not_active_on_exit"),
    dict(name="vm_pop_frame_keeps_base", kind="break", prop="C07", units=["V-vmproto"], file=VM,
         old="            self.register_base = 0;\n            self.min_frame_registers = 0;", new="            self.min_frame_registers = 0;", expect="V-vmproto::KotoVm::pop_frame"),
    dict(name="vm_trace_skips_failing_instruction", kind="break", prop="C12", units=["V-vmproto"], file=VM,
         old="        error.extend_trace(self.instruction_frame());\n\n        while let Some(frame) = self.call_stack.last() {", new="        while let Some(frame) = self.call_stack.last() {", expect="V-vmproto::KotoVm::pop_call_stack_on_error::"),
    dict(name="vm_timeout_check_after_deadline_only_once", kind="break", prop="C08", units=["V-vmproto"], file=VM,
         old="            if now >= self.deadline {\n                true", new="            if now >= self.deadline && self.interval_instructions > 0 {\n                true", expect="V-vmproto::ExecutionTimeout::check_for_timeout"),
    dict(name="vm_quiet_rename_frame_base", kind="quiet", prop="C07", units=["V-vmproto"], file=VM,
         old="        let frame_base = self.next_register();\n        self.registers.push(KValue::Null); // Instance register", new="        let base_of_frame = self.next_register();\n        let frame_base = base_of_frame;\n        self.registers.push(KValue::Null); // Instance register", expect=""),
    # ---- V-range
    dict(name="range_pop_back_off_by_one", kind="break", prop="C13", units=["V-range"], file=RANGE,
         old="let result = if *inclusive { *end } else { *end - 1 } as i64;", new="let result = if *inclusive { *end } else { *end } as i64;", expect="V-range::KRange::pop_back"),
    dict(name="range_pop_front_inclusive_end_twice", kind="break", prop="C13", units=["V-range"], file=RANGE,
         old="                        *inclusive = false; // Allow iteration to stop\n                        Some(result)\n                    } else {\n                        None\n                    }\n                }\n                Greater => None,\n            },\n            BoundedLarge(r) => {\n                let r = Ptr::make_mut(r);\n                match r.start.cmp(&r.end) {\n                    Less => {\n                        let result = r.start;", new="                        Some(result)\n                    } else {\n                        None\n                    }\n                }\n                Greater => None,\n            },\n            BoundedLarge(r) => {\n                let r = Ptr::make_mut(r);\n                match r.start.cmp(&r.end) {\n                    Less => {\n                        let result = r.start;", expect="V-range::KRange::pop_front"),
    dict(name="range_indices_unclamped_end", kind="break", prop="C01", units=["V-range"], file=RANGE,
         old="let end = range.end.clamp(start, max_index);", new="let end = range.end.max(start);", expect="V-range::KRange::indices"),
    dict(name="range_inclusive_overflow_again", kind="break", prop="C06", units=["V-range"], file=RANGE,
         old="end.saturating_add(1)", new="end + 1", expect="V-range::KRange::as_bounded_range"),
    dict(name="range_large_repr_differs", kind="break", prop="C13", units=["V-range"], file=RANGE,
         old="                        let result = if r.inclusive { r.end } else { r.end - 1 };\n                        r.end -= 1;", new="                        let result = if r.inclusive { r.end } else { r.end - 1 };\n                        r.end -= if r.inclusive { 2 } else { 1 };", expect="V-range::KRange::pop_back"),
    # ---- K-strslice
    dict(name="strslice_new_unvalidated", kind="break", prop="C15", units=["K-strslice"], file=STRSLICE,
         old="        string.get(bounds.clone())?;\n", new="", expect="K-strslice::strslice_new_validates"),
    dict(name="strslice_with_bounds_escapes_parent", kind="break", prop="C15", units=["K-strslice"], file=STRSLICE,
         old="        if new_bounds.end <= self.bounds.end.to_usize()\n            && self.data.get(new_bounds.clone()).is_some()", new="        if self.data.get(new_bounds.clone()).is_some()", expect="K-strslice::strslice_with_bounds_stays_inside"),
    dict(name="strslice_split_escapes_parent", kind="break", prop="C15", units=["K-strslice"], file=STRSLICE,
         old="if split_point <= self.bounds.end.to_usize() && self.data.is_char_boundary(split_point) {", new="if self.data.is_char_boundary(split_point) {", expect="K-strslice::strslice_split_stays_inside"),
    # ---- V-index / V-prec / V-debuginfo / V-strslice / V-cursors / V-adaptors / V-lexer
    dict(name="index_negative_not_clamped", kind="break", prop="C01", units=["V-index"], file=VM,
         old="size - (index as isize).unsigned_abs().min(size)", new="size - (index as isize).unsigned_abs()", expect="V-index::signed_index_to_unsigned"),
    dict(name="prec_and_or_swapped", kind="break", prop="C01", units=["V-prec"], file=PARSER,
         old="        Or => (5, 6),\n        And => (7, 8),", new="        Or => (7, 8),\n        And => (5, 6),", expect="V-prec::operator_precedence"),
    dict(name="prec_subtract_right_assoc", kind="break", prop="C01", units=["V-prec"], file=PARSER,
         old="Add | Subtract => (13, 14),", new="Add | Subtract => (14, 13),", expect="V-prec::operator_precedence"),
    dict(name="prec_quiet_power_right_assoc", kind="quiet", prop="C01", units=["V-prec"], file=PARSER,
         old="Power => (17, 18),", new="Power => (18, 17),", expect=""),
    dict(name="debuginfo_lookup_strict", kind="break", prop="C12", units=["V-debuginfo"], file=CHUNK,
         old="if entry.0 <= ip {", new="if entry.0 < ip {", expect="V-debuginfo::DebugInfo::get_source_span"),
    dict(name="debuginfo_merge_ignores_span", kind="break", prop="C12", units=["V-debuginfo"], file=CHUNK,
         old="            && entry.1 == span\n", new="            && entry.1.start == span.start\n", expect="V-debuginfo::DebugInfo::push"),
    dict(name="tupleslice_escapes_parent", kind="break", prop="C14", units=["V-strslice"], file="crates/runtime/src/types/tuple.rs",
         old="if new_bounds.end <= self.bounds.end && self.data.get(new_bounds.clone()).is_some() {", new="if self.data.get(new_bounds.clone()).is_some() {", expect="V-strslice::TupleSlice::with_bounds"),
    dict(name="cursor_list_next_back_crosses", kind="break", prop="C13", units=["V-cursors"], file="crates/runtime/src/types/iterator.rs", count=6,
         old="if self.end > self.index {", new="if self.end > 0 {", expect="V-cursors::"),
    dict(name="adaptor_take_off_by_one", kind="break", prop="C13", units=["V-adaptors"], file="crates/runtime/src/core_lib/iterator/adaptors.rs",
         old="        if self.remaining > 0 {\n            self.remaining -= 1;\n            self.iter.next()", new="        if self.remaining > 1 {\n            self.remaining -= 1;\n            self.iter.next()", expect="V-adaptors::Take::next"),
    dict(name="adaptor_skip_back_yields_skipped", kind="break", prop="C13", units=["V-adaptors"], file="crates/runtime/src/core_lib/iterator/adaptors.rs",
         old="            self.iter.nth(self.remaining - 1);\n            self.remaining = 0;", new="            self.remaining = 0;", expect="V-adaptors::Skip::next_back"),
    dict(name="adaptor_chain_pulls_b_early", kind="break", prop="C13", units=["V-adaptors"], file="crates/runtime/src/core_lib/iterator/adaptors.rs",
         old="            Some(ref mut iter) => match iter.next() {\n                output @ Some(_) => output,", new="            Some(ref mut iter) => match (iter.next(), self.iter_b.next()).0 {\n                output @ Some(_) => output,", expect="V-adaptors::Chain::next"),
    dict(name="lexer_comment_forgets_line", kind="break", prop="C09", units=["V-lexer"], file="crates/lexer/src/lexer.rs",
         old="                    '\\n' => {\n                        position.line += 1;\n                        position.column = 0;\n                    }\n                    _ => {}", new="                    '\\n' => {\n                        position.column = 0;\n                    }\n                    _ => {}", expect="V-lexer::TokenLexer::consume_comment"),
    dict(name="lexer_newline_crlf_one_byte", kind="break", prop="C09", units=["V-lexer"], file="crates/lexer/src/lexer.rs",
         old="            consumed_bytes += 1;\n            chars.next();", new="            chars.next();", expect="V-lexer::TokenLexer::consume_newline"),
    dict(name="lexer_advance_breaks_contiguity", kind="break", prop="C09", units=["V-lexer"], file="crates/lexer/src/lexer.rs",
         old="        self.span = Span {\n            start: self.span.end,\n            end: position,\n        };", new="        self.span = Span {\n            start: self.span.start,\n            end: position,\n        };", expect="V-lexer::TokenLexer::advance_to_position"),
]
