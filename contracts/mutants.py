"""Catalogue of deliberate edits of koto's source for the self-test (engine/selftest.py).

kind "break": property-breaking, must produce a VIOLATION naming `expect`
kind "quiet": meaning-preserving, must produce no alarm
"""
FRAME = "crates/bytecode/src/frame.rs"
COMPILER = "crates/bytecode/src/compiler.rs"
NUMBER = "crates/runtime/src/types/number.rs"
VM = "crates/runtime/src/vm.rs"
RANGE = "crates/runtime/src/types/range.rs"
STRSLICE = "crates/parser/src/string_slice.rs"
PARSER = "crates/parser/src/parser.rs"
CHUNK = "crates/bytecode/src/chunk.rs"

STRITER = "crates/runtime/src/core_lib/string/iterators.rs"
MODLOADER = "crates/bytecode/src/module_loader.rs"
MUTANTS = [
    # ---- V-frame
    dict(name="frame_push_limit_off_by_one", kind="break", prop="C05", units=["V-frame"], file=FRAME,
         old="if new_register == u8::MAX {", new="if new_register > u8::MAX {", expect="V-frame::Frame::push_register"),
    dict(name="frame_pop_keeps_count", kind="break", prop="C05", units=["V-frame"], file=FRAME,
         old="if register >= self.temporary_base {", new="if register > self.temporary_base {", expect="V-frame::Frame::pop_register"),
    dict(name="frame_local_limit_off_by_one", kind="break", prop="C05", units=["V-frame"], file=FRAME, count=2,
         old="if new_local_register < self.temporary_base as usize {", new="if new_local_register <= self.temporary_base as usize {", expect="V-frame::Frame::"),
    dict(name="frame_used_not_tracked", kind="break", prop="C05", units=["V-frame"], file=FRAME,
         old="self.temporaries_used_in_frame.max(self.temporary_count);", new="self.temporaries_used_in_frame.max(self.temporary_count - 1);", expect="V-frame::Frame::push_register"),
    dict(name="frame_quiet_rename_local", kind="quiet", prop="C05", units=["V-frame"], file=FRAME,
         old="let new_register = self.temporary_base + self.temporary_count;\n\n        if new_register == u8::MAX {", new="let fresh = self.temporary_base + self.temporary_count;\n        let new_register = fresh;\n\n        if new_register == u8::MAX {", expect=""),
    # ---- K-emit
    dict(name="emit_jump_back_truncates", kind="break", prop="C05", units=["K-emit"], file=COMPILER,
         old="        match u16::try_from(offset) {\n            Ok(offset_u16) => {\n                self.push_op_without_span(op, bytes);", new="        match Ok::<u16, ()>(offset as u16) {\n            Ok(offset_u16) => {\n                self.push_op_without_span(op, bytes);", expect="K-emit::emit_push_jump_back_op"),
    dict(name="emit_placeholder_off_by_two", kind="break", prop="C05", units=["K-emit"], file=COMPILER,
         old="let offset = self.bytes.len() - offset_ip - 2; // -2 bytes for u16", new="let offset = self.bytes.len() - offset_ip; // -2 bytes for u16", expect="K-emit::emit_update_offset_placeholder"),
    dict(name="emit_var_u32_wrong_shift", kind="break", prop="C05", units=["K-emit"], file=COMPILER,
         old="            n >>= 7;\n\n            if n != 0 {\n                byte |= 0x80;", new="            n >>= 8;\n\n            if n != 0 {\n                byte |= 0x80;", expect="K-emit::emit_push_var_u32_matches_spec"),
    # ---- K-number
    dict(name="number_add_saturates", kind="break", prop="C01", units=["K-number"], file=NUMBER,
         old="number_op!(Add, add, +, wrapping_add);", new="number_op!(Add, add, +, saturating_add);", expect="K-number::number_add_int_wraps"),
    dict(name="number_eq_truncates_float", kind="break", prop="C14", units=["K-number"], file=NUMBER,
         old="            (I64(a), F64(b)) => *a as f64 == *b,\n            (I64(a), I64(b)) => a == b,", new="            (I64(a), F64(b)) => *a == *b as i64,\n            (I64(a), I64(b)) => a == b,", expect="K-number::number_eq_"),
    dict(name="number_rem_zero_panics", kind="break", prop="C06", units=["K-number"], file=NUMBER,
         old="            (I64(_), I64(0)) => F64(f64::NAN),\n", new="", expect="K-number::number_rem_int_total"),
    dict(name="number_sub_mixed_swapped", kind="break", prop="C01", units=["K-number"], file=NUMBER, count=2,
         old="(I64(a), F64(b)) => F64(a as f64 $f64_op b),", new="(I64(a), F64(b)) => F64(b $f64_op a as f64),", expect="K-number::number_sub_"),
    # ---- V-vmproto
    dict(name="vm_call_leaks_on_bind_error", kind="break", prop="C07", units=["V-vmproto"], file=VM, count=2,
         old="            self.truncate_registers(result_register);\n            return Err(error);", new="            return Err(error);", expect="V-vmproto::KotoVm::"),
    dict(name="vm_wrapper_no_truncate", kind="break", prop="C07", units=["V-vmproto"], file=VM,
         old="        let result = self.run_binary_op_inner(op, lhs, rhs);\n        // Ensure that the operation's registers are discarded if it exited early with an error\n        self.truncate_registers(result_register);", new="        let result = self.run_binary_op_inner(op, lhs, rhs);", expect="V-vmproto::KotoVm::run_binary_op::no_register_left_behind"),
    dict(name="vm_forgets_pop_frame_on_error", kind="break", prop="C07", units=["V-vmproto"], file=VM, count=2,
         old="            if result.is_err() {\n                self.pop_frame(KValue::Null)?;\n                self.truncate_builders(builder_counts);\n            }", new="", expect="V-vmproto::KotoVm::"),
    dict(name="vm_run_forgets_pop_frame", kind="break", prop="C07", units=["V-vmproto"], file=VM,
         old="        if result.is_err() {\n            self.pop_frame(KValue::Null)?;\n            self.truncate_builders(builder_counts);\n        }\n\n        // Reset the register stack", new="        // Reset the register stack", expect="V-vmproto::KotoVm::run::"),
    dict(name="vm_timeout_catchable", kind="break", prop="C08", units=["V-vmproto"], file=VM,
         old="                        ErrorKind::Timeout(timeout.execution_limit).into(),\n                        false,", new="                        ErrorKind::Timeout(timeout.execution_limit).into(),\n                        true,", expect="V-vmproto::KotoVm::execute_instructions"),
    dict(name="vm_unwind_ignores_barrier", kind="break", prop="C04", units=["V-vmproto"], file=VM,
         old="                    if frame.execution_barrier {\n                        break;\n                    }\n", new="", expect="V-vmproto::KotoVm::pop_call_stack_on_error"),
    dict(name="vm_unwind_ignores_allow_catch", kind="break", prop="C08", units=["V-vmproto"], file=VM,
         old="Some(catch_point) if allow_catch => {", new="Some(catch_point) => {", expect="V-vmproto::KotoVm::pop_call_stack_on_error"),
    dict(name="vm_timeout_polled_every_other_instruction", kind="break", prop="C08", units=["V-vmproto"], file=VM,
         old="                && timeout.check_for_timeout()", new="                && self.instruction_ip % 2 == 0\n                && timeout.check_for_timeout()", expect="V-vmproto::KotoVm::execute_instructions"),
    dict(name="vm_state_left_active_on_error", kind="break", prop="C07", units=["V-vmproto"], file=VM,
         old="                        self.execution_state = ExecutionState::Inactive;\n                        return Err(error);", new="                        return Err(error);", expect="V-vmproto::KotoVm::execute_instructions::state_not_active_on_exit"),
    dict(name="vm_pop_frame_keeps_base", kind="break", prop="C07", units=["V-vmproto"], file=VM,
         old="            self.register_base = 0;\n            self.min_frame_registers = 0;", new="            self.min_frame_registers = 0;", expect="V-vmproto::KotoVm::pop_frame"),
    dict(name="vm_trace_skips_failing_instruction", kind="break", prop="C12", units=["V-vmproto"], file=VM,
         old="        error.extend_trace(self.instruction_frame());\n\n        while let Some(frame) = self.call_stack.last() {", new="        while let Some(frame) = self.call_stack.last() {", expect="V-vmproto::KotoVm::pop_call_stack_on_error::"),
    dict(name="vm_timeout_check_after_deadline_only_once", kind="break", prop="C08", units=["V-vmproto"], file=VM,
         old="            if now >= self.deadline {\n                true", new="            if now >= self.deadline && self.interval_instructions > 0 {\n                true", expect="V-vmproto::ExecutionTimeout::check_for_timeout"),
    dict(name="vm_quiet_rename_frame_base", kind="quiet", prop="C07", units=["V-vmproto"], file=VM,
         old="        let frame_base = self.next_register(1)?;\n        self.registers.push(KValue::Null); // Instance register", new="        let base_of_frame = self.next_register(1)?;\n        let frame_base = base_of_frame;\n        self.registers.push(KValue::Null); // Instance register", expect=""),
    # ---- V-range
    dict(name="range_pop_back_off_by_one", kind="break", prop="C13", units=["V-range"], file=RANGE,
         old="let result = if *inclusive { *end } else { *end - 1 } as i64;", new="let result = if *inclusive { *end } else { *end } as i64;", expect="V-range::KRange::pop_back"),
    dict(name="range_pop_front_inclusive_end_twice", kind="break", prop="C13", units=["V-range"], file=RANGE,
         old="                        *inclusive = false; // Allow iteration to stop\n                        Some(result)\n                    } else {\n                        None\n                    }\n                }\n                Greater => None,\n            },\n            BoundedLarge(r) => {\n                let r = Ptr::make_mut(r);\n                match r.start.cmp(&r.end) {\n                    Less => {\n                        let result = r.start;", new="                        Some(result)\n                    } else {\n                        None\n                    }\n                }\n                Greater => None,\n            },\n            BoundedLarge(r) => {\n                let r = Ptr::make_mut(r);\n                match r.start.cmp(&r.end) {\n                    Less => {\n                        let result = r.start;", expect="V-range::KRange::pop_front"),
    dict(name="range_indices_unclamped_end", kind="break", prop="C01", units=["V-range"], file=RANGE,
         old="let end = range.end.clamp(start, max_index);", new="let end = range.end.max(start);", expect="V-range::KRange::indices"),
    dict(name="range_inclusive_overflow_again", kind="break", prop="C06", units=["V-range"], file=RANGE,
         old="end.saturating_add(1)", new="end + 1", expect="V-range::KRange::as_bounded_range"),
    dict(name="range_large_repr_differs", kind="break", prop="C13", units=["V-range"], file=RANGE,
         old="                        let result = if r.inclusive { r.end } else { r.end - 1 };\n                        r.end -= 1;", new="                        let result = if r.inclusive { r.end } else { r.end - 1 };\n                        r.end -= if r.inclusive { 2 } else { 1 };", expect="V-range::KRange::pop_back"),
    # ---- K-strslice
    dict(name="strslice_new_unvalidated", kind="break", prop="C15", units=["K-strslice"], file=STRSLICE,
         old="        string.get(bounds.clone())?;\n", new="", expect="K-strslice::strslice_new_validates"),
    dict(name="strslice_with_bounds_escapes_parent", kind="break", prop="C15", units=["K-strslice"], file=STRSLICE,
         old="        if new_bounds.end <= self.bounds.end.to_usize()\n            && self.data.get(new_bounds.clone()).is_some()", new="        if self.data.get(new_bounds.clone()).is_some()", expect="K-strslice::strslice_with_bounds_stays_inside"),
    dict(name="strslice_split_escapes_parent", kind="break", prop="C15", units=["K-strslice"], file=STRSLICE,
         old="if split_point <= self.bounds.end.to_usize() && self.data.is_char_boundary(split_point) {", new="if self.data.is_char_boundary(split_point) {", expect="K-strslice::strslice_split_stays_inside"),
    # ---- V-index / V-prec / V-debuginfo / V-strslice / V-cursors / V-adaptors / V-lexer
    dict(name="index_negative_not_clamped", kind="break", prop="C01", units=["V-index"], file=VM,
         old="size - (index as isize).unsigned_abs().min(size)", new="size - (index as isize).unsigned_abs()", expect="V-index::signed_index_to_unsigned"),
    dict(name="prec_and_or_swapped", kind="break", prop="C01", units=["V-prec"], file=PARSER,
         old="        Or => (5, 6),\n        And => (7, 8),", new="        Or => (7, 8),\n        And => (5, 6),", expect="V-prec::operator_precedence"),
    dict(name="prec_subtract_right_assoc", kind="break", prop="C01", units=["V-prec"], file=PARSER,
         old="Add | Subtract => (13, 14),", new="Add | Subtract => (14, 13),", expect="V-prec::operator_precedence"),
    dict(name="prec_quiet_power_right_assoc", kind="quiet", prop="C01", units=["V-prec"], file=PARSER,
         old="Power => (17, 18),", new="Power => (18, 17),", expect=""),
    dict(name="debuginfo_lookup_strict", kind="break", prop="C12", units=["V-debuginfo"], file=CHUNK,
         old="if entry.0 <= ip {", new="if entry.0 < ip {", expect="V-debuginfo::DebugInfo::get_source_span"),
    dict(name="debuginfo_merge_ignores_span", kind="break", prop="C12", units=["V-debuginfo"], file=CHUNK,
         old="            && entry.1 == span\n", new="            && entry.1.start == span.start\n", expect="V-debuginfo::DebugInfo::push"),
    dict(name="tupleslice_escapes_parent", kind="break", prop="C14", units=["V-strslice"], file="crates/runtime/src/types/tuple.rs",
         old="if new_bounds.end <= self.bounds.end && self.data.get(new_bounds.clone()).is_some() {", new="if self.data.get(new_bounds.clone()).is_some() {", expect="V-strslice::TupleSlice::with_bounds"),
    # ---- V-codegen
    dict(name="codegen_logic_and_or_swapped", kind="break", prop="C01", units=["V-codegen"], file="crates/bytecode/src/compiler.rs",
         old="            AstBinaryOp::And => Op::JumpIfFalse,\n            AstBinaryOp::Or => Op::JumpIfTrue,", new="            AstBinaryOp::And => Op::JumpIfTrue,\n            AstBinaryOp::Or => Op::JumpIfFalse,", expect="V-codegen::Compiler::compile_logic_op::"),
    dict(name="codegen_logic_rhs_any_register", kind="break", prop="C01", units=["V-codegen"], file="crates/bytecode/src/compiler.rs",
         old="self.compile_node_with_jump_offset(rhs, ctx.with_fixed_register(register))?;", new="self.compile_node_with_jump_offset(rhs, ctx.with_any_register())?;", expect="V-codegen::Compiler::compile_logic_op::"),
    dict(name="codegen_logic_temp_not_released", kind="break", prop="C01", units=["V-codegen"], file="crates/bytecode/src/compiler.rs",
         old="""        if result.register.is_none() {
            self.pop_register()?;
        }

        Ok(result)
    }

    fn compile_string(""", new="""        Ok(result)
    }

    fn compile_string(""", expect="V-codegen::Compiler::compile_logic_op::"),
    dict(name="codegen_loop_until_not_negated", kind="break", prop="C01", units=["V-codegen"], file="crates/bytecode/src/compiler.rs",
         old="""            let op = if negate_condition {
                JumpIfTrue
            } else {
                JumpIfFalse
            };""", new="""            let op = if negate_condition {
                JumpIfFalse
            } else {
                JumpIfTrue
            };""", expect="V-codegen::Compiler::compile_loop::condition_at_the_top_exit_after_the_back_jump"),
    dict(name="codegen_loop_start_after_condition", kind="break", prop="C01", units=["V-codegen"], file="crates/bytecode/src/compiler.rs",
         old="self.push_jump_back_op(JumpBack, &[], loop_start_ip)?;\n\n        if body_result.is_temporary {\n            self.pop_register()?;\n        }\n\n        self.pop_loop_and_update_placeholders()?;\n\n        Ok(result)", new="self.push_jump_back_op(JumpBack, &[], loop_start_ip + 1)?;\n\n        if body_result.is_temporary {\n            self.pop_register()?;\n        }\n\n        self.pop_loop_and_update_placeholders()?;\n\n        Ok(result)", expect="V-codegen::Compiler::compile_loop::"),
    dict(name="codegen_loop_no_initial_null", kind="break", prop="C01", units=["V-codegen"], file="crates/bytecode/src/compiler.rs",
         old="""            if condition.is_some() {
                // If there's a condition, then the result should be set to Null in case
                // there are no loop iterations
                self.push_op(SetNull, &[result_register]);
            }""", new="", expect="V-codegen::Compiler::compile_loop::"),
    dict(name="codegen_switch_end_jump_for_else_too", kind="break", prop="C01", units=["V-codegen"], file="crates/bytecode/src/compiler.rs",
         old="""            if condition.is_some() {
                self.push_op_without_span(Op::Jump, &[]);
                result_jump_placeholders.push(self.push_offset_placeholder())
            }""", new="""            {
                self.push_op_without_span(Op::Jump, &[]);
                result_jump_placeholders.push(self.push_offset_placeholder())
            }""", expect="V-codegen::Compiler::compile_switch::"),
    dict(name="codegen_switch_condition_jump_patched_before_arm_end_jump", kind="break", prop="C01", units=["V-codegen"], file="crates/bytecode/src/compiler.rs",
         old="""            self.compile_node(*expression, switch_arm_context)?;

            // Add a jump instruction if this anything other than an `else` arm
            if condition.is_some() {
                self.push_op_without_span(Op::Jump, &[]);
                result_jump_placeholders.push(self.push_offset_placeholder())
            }

            if let Some(jump_placeholder) = arm_end_jump_placeholder {
                self.update_offset_placeholder(jump_placeholder)?;
            }""", new="""            self.compile_node(*expression, switch_arm_context)?;

            if let Some(jump_placeholder) = arm_end_jump_placeholder {
                self.update_offset_placeholder(jump_placeholder)?;
            }

            // Add a jump instruction if this anything other than an `else` arm
            if condition.is_some() {
                self.push_op_without_span(Op::Jump, &[]);
                result_jump_placeholders.push(self.push_offset_placeholder())
            }""", expect="V-codegen::Compiler::compile_switch::"),
    dict(name="codegen_switch_null_even_after_else", kind="break", prop="C01", units=["V-codegen"], file="crates/bytecode/src/compiler.rs",
         old="""            // If the last arm is `else`, then setting to Null isn't necessary
            if !last_arm_is_else {
                self.push_op(Op::SetNull, &[result_register]);
            }""", new="""            {
                self.push_op(Op::SetNull, &[result_register]);
            }""", expect="V-codegen::Compiler::compile_switch::null_when_no_arm_runs"),
    dict(name="codegen_switch_quiet_pop_after_placeholder", kind="quiet", prop="C01", units=["V-codegen"], file="crates/bytecode/src/compiler.rs",
         old="""                if condition_register.is_temporary {
                    self.pop_register()?;
                }

                Some(self.push_offset_placeholder())""", new="""                let placeholder = self.push_offset_placeholder();

                if condition_register.is_temporary {
                    self.pop_register()?;
                }

                Some(placeholder)"""),
    dict(name="codegen_assert_type_ignores_setting", kind="break", prop="C16", units=["V-codegen"], file="crates/bytecode/src/compiler.rs",
         old="                if self.settings.enable_type_checks {\n                    if let Some(span_node_index) = span {", new="                if true {\n                    if let Some(span_node_index) = span {", expect="V-codegen::Compiler::compile_assert_type::nothing_emitted_when_checks_are_disabled"),
    dict(name="codegen_assert_type_optional_swapped", kind="break", prop="C16", units=["V-codegen"], file="crates/bytecode/src/compiler.rs",
         old="""                    let op = if *allow_null {
                        Op::AssertOptionalType
                    } else {
                        Op::AssertType
                    };""", new="""                    let op = if *allow_null {
                        Op::AssertType
                    } else {
                        Op::AssertOptionalType
                    };""", expect="V-codegen::Compiler::compile_assert_type::assertion_emitted_when_checks_are_enabled"),
    dict(name="codegen_assert_type_span_left_on_the_stack", kind="break", prop="C12", units=["V-codegen"], file="crates/bytecode/src/compiler.rs",
         old="""                    if span.is_some() {
                        self.pop_span();
                    }
                }
                Ok(())""", new="""                }
                Ok(())""", expect="V-codegen::Compiler::compile_assert_type::frame_state_restored"),
    dict(name="codegen_check_type_guarded_by_setting", kind="break", prop="C16", units=["V-codegen"], file="crates/bytecode/src/compiler.rs",
         old="""                self.push_op(op, &[value_register]);
                self.push_var_u32((*type_index).into());

                let jump_placeholder = self.push_offset_placeholder();""", new="""                if self.settings.enable_type_checks {
                    self.push_op(op, &[value_register]);
                    self.push_var_u32((*type_index).into());
                }

                let jump_placeholder = self.push_offset_placeholder();""", expect="V-codegen::Compiler::compile_check_type::"),
    dict(name="codegen_check_type_without_span", kind="break", prop="C12", units=["V-codegen"], file="crates/bytecode/src/compiler.rs",
         old="""                self.push_span(type_node, ctx.ast);

                let op = if *allow_null {
                    Op::CheckOptionalType""", new="""                let op = if *allow_null {
                    Op::CheckOptionalType""", expect="V-codegen::Compiler::compile_check_type::"),
    dict(name="codegen_assign_result_any_not_temporary", kind="break", prop="C01", units=["V-codegen"], file="crates/bytecode/src/compiler.rs",
         old="ResultRegister::Any => CompileNodeOutput::with_temporary(self.push_register()?),", new="ResultRegister::Any => CompileNodeOutput::with_assigned(self.push_register()?),", expect="V-codegen::Compiler::assign_result_register::"),
    dict(name="codegen_if_no_jump_after_then_with_else_ifs", kind="break", prop="C01", units=["V-codegen"], file="crates/bytecode/src/compiler.rs",
         old="if !else_if_blocks.is_empty() || else_node.is_some() || result.register.is_some() {", new="if else_node.is_some() || result.register.is_some() {", expect="V-codegen::Compiler::compile_if::"),
    dict(name="codegen_if_condition_patched_after_else_ifs", kind="break", prop="C01", units=["V-codegen"], file="crates/bytecode/src/compiler.rs",
         old="""        // A failing condition for the if jumps to here, at the start of the else if / else blocks
        self.update_offset_placeholder(condition_jump_ip)?;
""", new="", expect="V-codegen::Compiler::compile_if::"),
    dict(name="codegen_if_else_if_jump_not_collected", kind="break", prop="C01", units=["V-codegen"], file="crates/bytecode/src/compiler.rs",
         old="""        for else_if_jump_ip in else_if_jump_ips.iter() {
            self.update_offset_placeholder(*else_if_jump_ip)?;
        }""", new="""        for else_if_jump_ip in else_if_jump_ips.iter() {
            self.update_offset_placeholder(condition_jump_ip)?;
        }""", expect="V-codegen::Compiler::compile_if::"),
    dict(name="codegen_if_then_block_any_register", kind="break", prop="C01", units=["V-codegen"], file="crates/bytecode/src/compiler.rs",
         old="        self.compile_node(*then_node, expression_context)?;", new="        self.compile_node(*then_node, ctx.with_any_register())?;", expect="V-codegen::Compiler::compile_if::"),
    dict(name="codegen_if_no_null_without_else", kind="break", prop="C01", units=["V-codegen"], file="crates/bytecode/src/compiler.rs",
         old="""        } else if let Some(result_register) = result.register {
            self.push_op_without_span(SetNull, &[result_register]);
        }""", new="""        }""", expect="V-codegen::Compiler::compile_if::else_block_or_null_last"),
    dict(name="codegen_cmp_only_last_jump_patched", kind="break", prop="C01", units=["V-codegen"], file="crates/bytecode/src/compiler.rs",
         old="""        for jump_offset in jump_offsets.iter() {
            self.update_offset_placeholder(*jump_offset)?;
        }""", new="""        for jump_offset in jump_offsets.iter() {
            self.update_offset_placeholder(jump_offsets[0])?;
        }""", expect="V-codegen::Compiler::compile_comparison_op::"),
    dict(name="codegen_cmp_operand_evaluated_twice", kind="break", prop="C01", units=["V-codegen"], file="crates/bytecode/src/compiler.rs",
         old="                    lhs_register = rhs_lhs_register;\n                    rhs = *rhs_rhs;", new="                    lhs_register = self.compile_node(*rhs_lhs, ctx.with_any_register())?.unwrap(self)?;\n                    rhs = *rhs_rhs;", expect="V-codegen::Compiler::compile_comparison_op::"),
    dict(name="codegen_cmp_less_maps_to_less_or_equal", kind="break", prop="C01", units=["V-codegen"], file="crates/bytecode/src/compiler.rs",
         old="                Less => Op::Less,\n                LessOrEqual => Op::LessOrEqual,", new="                Less => Op::LessOrEqual,\n                LessOrEqual => Op::LessOrEqual,", expect="V-codegen::Compiler::compile_comparison_op::"),
    dict(name="codegen_cmp_jump_if_true", kind="break", prop="C01", units=["V-codegen"], file="crates/bytecode/src/compiler.rs",
         old="self.push_op(Op::JumpIfFalse, &[comparison_register]);\n                    jump_offsets.push(", new="self.push_op(Op::JumpIfTrue, &[comparison_register]);\n                    jump_offsets.push(", expect="V-codegen::Compiler::compile_comparison_op::"),
    dict(name="codegen_cmp_stale_lhs_register", kind="break", prop="C01", units=["V-codegen"], file="crates/bytecode/src/compiler.rs",
         old="                    lhs_register = rhs_lhs_register;\n", new="", expect="V-codegen::Compiler::compile_comparison_op::"),
    dict(name="codegen_try_f31_finally_output_returned", kind="break", prop="C01", units=["V-codegen"], file="crates/bytecode/src/compiler.rs",
         old="""            self.compile_node(*finally_block, ctx.with_register(finally_result_register))?;
        }

        Ok(result)""", new="""            self.compile_node(*finally_block, ctx.with_register(finally_result_register))
        } else {
            Ok(result)
        }""", expect="V-codegen::Compiler::compile_try_expression::"),
    dict(name="codegen_try_block_value_kept_despite_finally", kind="break", prop="C04", units=["V-codegen"], file="crates/bytecode/src/compiler.rs",
         old="""            Some(result_register) if finally_block.is_none() => {
                ResultRegister::Fixed(result_register)
            }""", new="""            Some(result_register) => ResultRegister::Fixed(result_register),""", expect="V-codegen::Compiler::compile_try_expression::try_block_layout_and_catch_point"),
    dict(name="codegen_try_catch_section_keeps_catch_point", kind="break", prop="C04", units=["V-codegen"], file="crates/bytecode/src/compiler.rs",
         old="""        self.push_op(TryEnd, &[dummy_byte]);

        for (i, catch_block)""", new="""        for (i, catch_block)""", expect="V-codegen::Compiler::compile_try_expression::"),
    dict(name="codegen_try_catch_offset_lands_after_try_end", kind="break", prop="C04", units=["V-codegen"], file="crates/bytecode/src/compiler.rs",
         old="""        self.update_offset_placeholder(catch_offset)?;

        // Clear the catch point at the start of the catch block
        // - if the catch block has been entered, then it needs to be de-registered in case there
        //   are errors thrown in the catch block.
        self.push_op(TryEnd, &[dummy_byte]);""", new="""        // Clear the catch point at the start of the catch block
        // - if the catch block has been entered, then it needs to be de-registered in case there
        //   are errors thrown in the catch block.
        self.push_op(TryEnd, &[dummy_byte]);

        self.update_offset_placeholder(catch_offset)?;""", expect="V-codegen::Compiler::compile_try_expression::"),
    dict(name="codegen_try_no_jump_over_catch_blocks", kind="break", prop="C04", units=["V-codegen"], file="crates/bytecode/src/compiler.rs",
         old="""        self.push_op_without_span(Jump, &[]);
        finally_jump_placeholders.push(self.push_offset_placeholder());

        // Compile the catch block""", new="""        finally_jump_placeholders.push(self.push_offset_placeholder());

        // Compile the catch block""", expect="V-codegen::Compiler::compile_try_expression::"),
    dict(name="codegen_try_catch_register_not_released", kind="break", prop="C01", units=["V-codegen"], file="crates/bytecode/src/compiler.rs",
         old="        self.pop_register()?; // catch_register\n", new="", expect="V-codegen::Compiler::compile_try_expression::"),
    dict(name="codegen_try_finally_any_register", kind="break", prop="C04", units=["V-codegen"], file="crates/bytecode/src/compiler.rs",
         old="""            let finally_result_register = match result.register {
                Some(result_register) => ResultRegister::Fixed(result_register),
                _ => ResultRegister::None,
            };""", new="""            let finally_result_register = match result.register {
                Some(_result_register) => ResultRegister::Any,
                _ => ResultRegister::None,
            };""", expect="V-codegen::Compiler::compile_try_expression::finally_block_last_reached_from_the_try_block_gives_the_value"),
    dict(name="codegen_arith_rhs_before_lhs", kind="break", prop="C01", units=["V-codegen"], file="crates/bytecode/src/compiler.rs",
         old="""            let lhs = self.compile_node(lhs, ctx.with_any_register())?;
            let lhs_register = lhs.unwrap(self)?;
            let rhs = self.compile_node(rhs, ctx.with_any_register())?;
            let rhs_register = rhs.unwrap(self)?;

            self.push_op(op, &[result_register, lhs_register, rhs_register]);""", new="""            let rhs = self.compile_node(rhs, ctx.with_any_register())?;
            let rhs_register = rhs.unwrap(self)?;
            let lhs = self.compile_node(lhs, ctx.with_any_register())?;
            let lhs_register = lhs.unwrap(self)?;

            self.push_op(op, &[result_register, lhs_register, rhs_register]);""", expect="V-codegen::Compiler::compile_arithmetic_op::lhs_then_rhs_then_the_operator"),
    dict(name="codegen_arith_operands_swapped", kind="break", prop="C01", units=["V-codegen"], file="crates/bytecode/src/compiler.rs",
         old="self.push_op(op, &[result_register, lhs_register, rhs_register]);\n\n            if lhs.is_temporary {", new="self.push_op(op, &[result_register, rhs_register, lhs_register]);\n\n            if lhs.is_temporary {", expect="V-codegen::Compiler::compile_arithmetic_op::lhs_then_rhs_then_the_operator"),
    dict(name="codegen_arith_no_side_effects_without_result", kind="break", prop="C01", units=["V-codegen"], file="crates/bytecode/src/compiler.rs",
         old="""            self.compile_node(lhs, ctx.compile_for_side_effects())?;
            self.compile_node(rhs, ctx.compile_for_side_effects())?;""", new="""            self.compile_node(lhs, ctx.compile_for_side_effects())?;""", expect="V-codegen::Compiler::compile_arithmetic_op::lhs_then_rhs_then_the_operator"),
    dict(name="codegen_arith_remainder_is_divide", kind="break", prop="C01", units=["V-codegen"], file="crates/bytecode/src/compiler.rs",
         old="            Remainder => Op::Remainder,\n            Power => Op::Power,", new="            Remainder => Op::Divide,\n            Power => Op::Power,", expect="V-codegen::Compiler::compile_arithmetic_op::lhs_then_rhs_then_the_operator"),
    dict(name="codegen_unary_not_is_negate", kind="break", prop="C01", units=["V-codegen"], file="crates/bytecode/src/compiler.rs",
         old="                AstUnaryOp::Not => Op::Not,", new="                AstUnaryOp::Not => Op::Negate,", expect="V-codegen::Compiler::compile_unary_op::operand_then_the_operator"),
    dict(name="codegen_unary_temp_not_released", kind="break", prop="C01", units=["V-codegen"], file="crates/bytecode/src/compiler.rs",
         old="""        if value_result.is_temporary {
            self.pop_register()?;
        }""", new="", expect="V-codegen::Compiler::compile_unary_op::temporaries_released"),
    dict(name="codegen_binary_pipe_sent_to_logic_op", kind="break", prop="C06", units=["V-codegen"], file="crates/bytecode/src/compiler.rs",
         old="            And | Or => self.compile_logic_op(op, lhs, rhs, ctx),\n            Pipe => self.compile_piped_call(lhs, rhs, ctx),", new="            And | Or | Pipe => self.compile_logic_op(op, lhs, rhs, ctx),", expect="V-codegen::Compiler::compile_binary_op::only_and_or_get_here"),
    dict(name="codegen_debug_f33_temporary_reported_to_a_caller_that_wants_nothing", kind="break", prop="C01", units=["V-codegen"], file="crates/bytecode/src/compiler.rs",
         old="""                match ctx.result_register {
                    ResultRegister::None => {
                        // The register was only needed for the debug op
                        if expression_result.is_temporary {
                            self.pop_register()?;
                        }
                        CompileNodeOutput::none()
                    }
                    _ => expression_result,
                }""", new="                expression_result", expect="V-codegen::Compiler::compile_node__debug_arm::"),
    dict(name="codegen_debug_without_span", kind="break", prop="C12", units=["V-codegen"], file="crates/bytecode/src/compiler.rs",
         old="                self.push_op(Debug, &[expression_register]);", new="                self.push_op_without_span(Debug, &[expression_register]);", expect="V-codegen::Compiler::compile_node__debug_arm::expression_then_the_debug_instruction"),
    dict(name="codegen_pipe_f34_call_compiled_with_the_callers_request", kind="break", prop="C01", units=["V-codegen"], file="crates/bytecode/src/compiler.rs",
         old="                    self.compile_call(function_register, &[], pipe_register, None, call_context)?;\n                } else {", new="                    self.compile_call(function_register, &[], pipe_register, None, ctx)?;\n                } else {", expect="V-codegen::Compiler::compile_piped_call::"),
    dict(name="codegen_pipe_f34_chain_output_returned", kind="break", prop="C01", units=["V-codegen"], file="crates/bytecode/src/compiler.rs",
         old="                self.compile_chain(chain_node, pipe_register, None, None, call_context)?;\n            }", new="                return self.compile_chain(chain_node, pipe_register, None, None, call_context);\n            }", expect="V-codegen::Compiler::compile_piped_call::"),
    dict(name="codegen_pipe_value_not_piped", kind="break", prop="C01", units=["V-codegen"], file="crates/bytecode/src/compiler.rs",
         old="                self.compile_call(function_register, &[], pipe_register, None, call_context)?;\n                if function.is_temporary {", new="                self.compile_call(function_register, &[], None, None, call_context)?;\n                if function.is_temporary {", expect="V-codegen::Compiler::compile_piped_call::piped_value_first_then_the_call_into_the_result_register"),
    dict(name="codegen_yield_not_type_checked", kind="break", prop="C16", units=["V-codegen"], file="crates/bytecode/src/compiler.rs",
         old="        self.compile_check_output_type(expression_register, Some(yield_node), ctx)?;\n        self.push_op(Op::Yield, &[expression_register]);", new="        self.push_op(Op::Yield, &[expression_register]);", expect="V-codegen::Compiler::compile_yield::value_checked_then_yielded"),
    dict(name="codegen_yield_checked_after_yielding", kind="break", prop="C16", units=["V-codegen"], file="crates/bytecode/src/compiler.rs",
         old="        self.compile_check_output_type(expression_register, Some(yield_node), ctx)?;\n        self.push_op(Op::Yield, &[expression_register]);", new="        self.push_op(Op::Yield, &[expression_register]);\n        self.compile_check_output_type(expression_register, Some(yield_node), ctx)?;", expect="V-codegen::Compiler::compile_yield::value_checked_then_yielded"),
    dict(name="codegen_return_checked_in_generators_only", kind="break", prop="C16", units=["V-codegen"], file="crates/bytecode/src/compiler.rs",
         old="        let check_return_type = !self.frame().is_generator;", new="        let check_return_type = self.frame().is_generator;", expect="V-codegen::Compiler::compile_return::"),
    dict(name="codegen_return_fixed_returns_the_unchecked_copy_source", kind="break", prop="C01", units=["V-codegen"], file="crates/bytecode/src/compiler.rs",
         old="                    self.push_op(Copy, &[result, expression_register]);\n                    self.push_op(Return, &[result]);", new="                    self.push_op(Return, &[result]);\n                    self.push_op(Copy, &[result, expression_register]);", expect="V-codegen::Compiler::compile_return::value_checked_then_returned"),
    dict(name="codegen_bare_return_unchecked", kind="break", prop="C16", units=["V-codegen"], file="crates/bytecode/src/compiler.rs",
         old="""                    self.push_op(SetNull, &[result_register]);
                    if check_return_type {
                        self.compile_check_output_type(result_register, None, ctx)?;
                    }""", new="""                    self.push_op(SetNull, &[result_register]);""", expect="V-codegen::Compiler::compile_return::bare_return_returns_null"),
    dict(name="codegen_output_type_check_ignores_declared_type", kind="break", prop="C16", units=["V-codegen"], file="crates/bytecode/src/compiler.rs",
         old="        if let Some(output_type) = self.frame().output_type {\n            self.compile_assert_type(register, output_type, span, ctx)?;\n        }", new="        if let Some(output_type) = self.frame().output_type {\n            let _ = (register, output_type, span, ctx);\n        }", expect="V-codegen::Compiler::compile_check_output_type::declared_output_type_asserted"),
    dict(name="codegen_small_int_negative_not_negated", kind="break", prop="C01", units=["V-codegen"], file="crates/bytecode/src/compiler.rs",
         old="n => self.push_op(SetNumberNegU8, &[result, n.unsigned_abs() as u8]),", new="n => self.push_op(SetNumberNegU8, &[result, n as u8]),", expect="V-codegen::Compiler::compile_node__small_int_arm::literal_value_in_one_instruction"),
    dict(name="codegen_small_int_one_is_zero", kind="break", prop="C01", units=["V-codegen"], file="crates/bytecode/src/compiler.rs",
         old="                        1 => self.push_op(Set1, &[result]),", new="                        1 => self.push_op(Set0, &[result]),", expect="V-codegen::Compiler::compile_node__small_int_arm::literal_value_in_one_instruction"),
    dict(name="codegen_throw_temp_not_released", kind="break", prop="C01", units=["V-codegen"], file="crates/bytecode/src/compiler.rs",
         old="""                self.push_op(Throw, &[expression_register]);

                if expression_result.is_temporary {
                    self.pop_register()?;
                }""", new="""                self.push_op(Throw, &[expression_register]);""", expect="V-codegen::Compiler::compile_node__throw_arm::temporaries_released"),
    dict(name="codegen_throw_without_span", kind="break", prop="C12", units=["V-codegen"], file="crates/bytecode/src/compiler.rs",
         old="                self.push_op(Throw, &[expression_register]);", new="                self.push_op_without_span(Throw, &[expression_register]);", expect="V-codegen::Compiler::compile_node__throw_arm::value_then_throw"),
    dict(name="codegen_compound_operands_swapped", kind="break", prop="C01", units=["V-codegen"], file="crates/bytecode/src/compiler.rs",
         old="            self.push_op(op, &[lhs_register, rhs_register]);\n\n            // If the LHS is a top-level ID", new="            self.push_op(op, &[rhs_register, lhs_register]);\n\n            // If the LHS is a top-level ID", expect="V-codegen::Compiler::compile_compound_assignment_op::target_updated_in_place_then_copied_to_the_result"),
    dict(name="codegen_compound_result_not_copied", kind="break", prop="C01", units=["V-codegen"], file="crates/bytecode/src/compiler.rs",
         old="""            if let Some(result_register) = result.register {
                self.push_op(Op::Copy, &[result_register, lhs_register]);
            }

            if lhs.is_temporary {""", new="""            if lhs.is_temporary {""", expect="V-codegen::Compiler::compile_compound_assignment_op::target_updated_in_place_then_copied_to_the_result"),
    dict(name="codegen_compound_chain_without_operator", kind="break", prop="C01", units=["V-codegen"], file="crates/bytecode/src/compiler.rs",
         old="                Some(rhs_register),\n                Some(op),\n                ctx.with_fixed_register_or_none(result.register),", new="                Some(rhs_register),\n                None,\n                ctx.with_fixed_register_or_none(result.register),", expect="V-codegen::Compiler::compile_compound_assignment_op::chain_target_gets_value_and_operator"),
    dict(name="codegen_compound_multiply_is_add", kind="break", prop="C01", units=["V-codegen"], file="crates/bytecode/src/compiler.rs",
         old="            MultiplyAssign => Op::MultiplyAssign,", new="            MultiplyAssign => Op::AddAssign,", expect="V-codegen::Compiler::compile_compound_assignment_op::"),
    dict(name="codegen_compound_rhs_temp_not_released", kind="break", prop="C01", units=["V-codegen"], file="crates/bytecode/src/compiler.rs",
         old="""        if rhs.is_temporary {
            self.pop_register()?;
        }

        Ok(result)
    }

    fn compile_comparison_op(""", new="""        Ok(result)
    }

    fn compile_comparison_op(""", expect="V-codegen::Compiler::compile_compound_assignment_op::temporaries_released"),
    # ---- F37: the register window check of next_register
    dict(name="vm_f37_next_register_unchecked_headroom", kind="break", prop="C06", units=["V-vmproto"], file="crates/runtime/src/vm.rs",
         old="            Ok(register) if register <= u8::MAX - additional => Ok(register),", new="            Ok(register) => Ok(register),", expect="V-vmproto::KotoVm::next_register::overflow_of_the_window_is_an_error"),
    dict(name="vm_f37_binary_op_asks_for_one_register_only", kind="break", prop="C06", units=["V-vmproto"], file="crates/runtime/src/vm.rs",
         old="        let result_register = self.next_register(2)?;\n        let lhs_register = result_register + 1;", new="        let result_register = self.next_register(1)?;\n        let lhs_register = result_register + 1;", expect="V-vmproto::KotoVm::run_binary_op_inner::"),
    dict(name="vm_f37_write_op_asks_for_two_registers_only", kind="break", prop="C06", units=["V-vmproto"], file="crates/runtime/src/vm.rs",
         old="        let result_register = self.next_register(3)?;", new="        let result_register = self.next_register(2)?;", expect="V-vmproto::KotoVm::run_write_op_inner::"),
    # ---- V-codegen2
    dict(name="codegen2_f39_load_id_reports_a_temporary_nobody_wants", kind="break", prop="C01", units=["V-codegen2"], file="crates/bytecode/src/compiler.rs",
         old="                self.compile_load_non_local(register, id);\n                self.pop_register()?;\n                result", new="                self.compile_load_non_local(register, id);\n                CompileNodeOutput::with_temporary(register)", expect="V-codegen2::Compiler::compile_load_id::"),
    dict(name="codegen2_load_id_local_not_copied_to_fixed_register", kind="break", prop="C01", units=["V-codegen2"], file="crates/bytecode/src/compiler.rs",
         old="                    self.push_op(Op::Copy, &[register, local_register]);\n                    CompileNodeOutput::with_assigned(register)", new="                    CompileNodeOutput::with_assigned(local_register)", expect="V-codegen2::Compiler::compile_load_id::"),
    dict(name="codegen2_load_id_unknown_name_not_loaded_when_unused", kind="break", prop="C01", units=["V-codegen2"], file="crates/bytecode/src/compiler.rs",
         old="                let register = self.push_register()?;\n                self.compile_load_non_local(register, id);\n                self.pop_register()?;\n                result", new="                result", expect="V-codegen2::Compiler::compile_load_id::local_in_place_other_names_loaded_by_name"),
    dict(name="codegen2_f40_export_reports_a_temporary_nobody_wants", kind="break", prop="C01", units=["V-codegen2"], file="crates/bytecode/src/compiler.rs",
         old="""                match ctx.result_register {
                    ResultRegister::None => {
                        // The register was only needed for exporting the expression's entries
                        if result.is_temporary {
                            self.pop_register()?;
                        }
                        Ok(CompileNodeOutput::none())
                    }
                    _ => Ok(result),
                }""", new="                Ok(result)", expect="V-codegen2::Compiler::compile_export::"),
    dict(name="codegen2_export_loop_exit_lands_on_the_back_jump", kind="break", prop="C18", units=["V-codegen2"], file="crates/bytecode/src/compiler.rs",
         old="""        self.push_jump_back_op(Op::JumpBack, &[], iter_start_ip)?;

        // Finished, update the IterNextTemp offset and clean up the temporary registers
        self.update_offset_placeholder(iter_finished_offset)?;""", new="""        // Finished, update the IterNextTemp offset and clean up the temporary registers
        self.update_offset_placeholder(iter_finished_offset)?;
        self.push_jump_back_op(Op::JumpBack, &[], iter_start_ip)?;""", expect="V-codegen2::Compiler::compile_export_iterable::every_entry_exported_loop_left_when_exhausted"),
    dict(name="codegen2_export_iterable_registers_not_released", kind="break", prop="C01", units=["V-codegen2"], file="crates/bytecode/src/compiler.rs",
         old="        self.update_offset_placeholder(iter_finished_offset)?;\n        self.truncate_register_stack(stack_count)?;", new="        self.update_offset_placeholder(iter_finished_offset)?;", expect="V-codegen2::Compiler::compile_export_iterable::temporaries_released"),
    dict(name="vm_overridden_op_result_leaves_registers", kind="break", prop="C07", units=["V-vmproto"], file="crates/runtime/src/vm.rs",
         old="        self.truncate_registers(result_register);\n        result\n    }\n\n    /// Makes a KIterator that iterates over the provided value's contents", new="        result\n    }\n\n    /// Makes a KIterator that iterates over the provided value's contents", expect="V-vmproto::KotoVm::"),
    # ---- F41
    dict(name="arith_f41_registers_of_the_call_left_on_the_value_stack", kind="break", prop="C17", units=["V-arith"], file="crates/runtime/src/vm.rs",
         old="""                    $self.registers.truncate(old_register_count);
                    result
                }""", new="""                    result
                }""", expect="V-arith::KotoVm::run_add::no_register_left_behind_once_the_call_has_run"),
    dict(name="codegen2_break_value_into_any_register", kind="break", prop="C01", units=["V-codegen2"], file="crates/bytecode/src/compiler.rs",
         old="                                ctx.with_fixed_register(loop_result_register),\n                            )?;\n                        }\n                        (Some(loop_result_register), None) => {", new="                                ctx.with_any_register(),\n                            )?;\n                        }\n                        (Some(loop_result_register), None) => {", expect="V-codegen2::Compiler::compile_node__break_arm::"),
    dict(name="codegen2_plain_break_keeps_last_value", kind="break", prop="C01", units=["V-codegen2"], file="crates/bytecode/src/compiler.rs",
         old="                        (Some(loop_result_register), None) => {\n                            self.push_op(SetNull, &[loop_result_register]);\n                        }", new="                        (Some(_loop_result_register), None) => {}", expect="V-codegen2::Compiler::compile_node__break_arm::value_into_the_loops_register_then_leave_the_loop"),
    dict(name="codegen2_break_jump_not_registered_with_the_loop", kind="break", prop="C01", units=["V-codegen2"], file="crates/bytecode/src/compiler.rs",
         old="                    self.push_op(Jump, &[]);\n                    self.push_loop_jump_placeholder()?;\n\n                    CompileNodeOutput::none()", new="                    self.push_op(Jump, &[]);\n                    self.push_offset_placeholder();\n\n                    CompileNodeOutput::none()", expect="V-codegen2::Compiler::compile_node__break_arm::value_into_the_loops_register_then_leave_the_loop"),
    dict(name="codegen2_continue_keeps_last_value", kind="break", prop="C01", units=["V-codegen2"], file="crates/bytecode/src/compiler.rs",
         old="                    if let Some(result_register) = loop_result_register {\n                        self.push_op(SetNull, &[result_register]);\n                    }\n                    self.push_jump_back_op(JumpBack, &[], loop_start_ip)?;", new="                    self.push_jump_back_op(JumpBack, &[], loop_start_ip)?;", expect="V-codegen2::Compiler::compile_node__continue_arm::null_then_back_to_the_start_of_the_loop"),
    dict(name="codegen2_continue_jumps_past_the_loop_start", kind="break", prop="C01", units=["V-codegen2"], file="crates/bytecode/src/compiler.rs",
         old="                    self.push_jump_back_op(JumpBack, &[], loop_start_ip)?;\n\n                    CompileNodeOutput::none()", new="                    self.push_jump_back_op(JumpBack, &[], loop_start_ip + 1)?;\n\n                    CompileNodeOutput::none()", expect="V-codegen2::Compiler::compile_node__continue_arm::null_then_back_to_the_start_of_the_loop"),
    dict(name="codegen2_range_inclusive_flag_inverted", kind="break", prop="C01", units=["V-codegen2"], file="crates/bytecode/src/compiler.rs",
         old="                    let op = if *inclusive { RangeInclusive } else { Range };", new="                    let op = if *inclusive { Range } else { RangeInclusive };", expect="V-codegen2::Compiler::compile_node__range_arm::start_then_end_then_the_range"),
    dict(name="codegen2_range_bounds_swapped", kind="break", prop="C01", units=["V-codegen2"], file="crates/bytecode/src/compiler.rs",
         old="                            result_register,\n                            start_result.unwrap(self)?,\n                            end_result.unwrap(self)?,", new="                            result_register,\n                            end_result.unwrap(self)?,\n                            start_result.unwrap(self)?,", expect="V-codegen2::Compiler::compile_node__range_arm::start_then_end_then_the_range"),
    dict(name="codegen2_range_one_temporary_not_released", kind="break", prop="C01", units=["V-codegen2"], file="crates/bytecode/src/compiler.rs",
         old="                    if start_result.is_temporary {\n                        self.pop_register()?;\n                    }\n                    if end_result.is_temporary {", new="                    if end_result.is_temporary {", expect="V-codegen2::Compiler::compile_node__range_arm::temporaries_released"),
    dict(name="codegen2_f42_assignment_keeps_the_values_temporary", kind="break", prop="C01", units=["V-codegen2"], file="crates/bytecode/src/compiler.rs",
         old="""            ResultRegister::None => {
                if value_result.is_temporary {
                    self.pop_register()?;
                }
                CompileNodeOutput::none()
            }
        };

        self.pop_span();""", new="""            ResultRegister::None => CompileNodeOutput::none(),
        };

        self.pop_span();""", expect="V-codegen2::Compiler::compile_assign::temporaries_released"),
    dict(name="codegen2_assign_chain_compiled_before_the_value", kind="break", prop="C01", units=["V-codegen2"], file="crates/bytecode/src/compiler.rs",
         old="                    Some(value_register),\n                    None,\n                    ctx.compile_for_side_effects(),", new="                    None,\n                    None,\n                    ctx.compile_for_side_effects(),", expect="V-codegen2::Compiler::compile_assign::chain_target_gets_the_value"),
    dict(name="codegen2_assign_result_not_copied", kind="break", prop="C01", units=["V-codegen2"], file="crates/bytecode/src/compiler.rs",
         old="                if register != value_register {\n                    self.push_op(Copy, &[register, value_register]);\n                }\n                if value_result.is_temporary {", new="                if value_result.is_temporary {", expect="V-codegen2::Compiler::compile_assign::assigned_value_copied_to_the_result"),
    dict(name="codegen2_assign_span_left_on_the_stack", kind="break", prop="C12", units=["V-codegen2"], file="crates/bytecode/src/compiler.rs",
         old="        self.pop_span();\n\n        Ok(result)\n    }\n\n    fn compile_assign_to_map(", new="        Ok(result)\n    }\n\n    fn compile_assign_to_map(", expect="V-codegen2::Compiler::compile_assign::"),
    # ---- V-callseq
    dict(name="callseq_piped_value_last", kind="break", prop="C02", units=["V-callseq"], file="crates/bytecode/src/compiler.rs",
         old="""        let arg_offset = if let Some(piped_arg) = piped_arg {
            arg_count += 1;
            let arg_register = self.push_register()?;
            self.push_op(Copy, &[arg_register, piped_arg]);
            1
        } else {
            0
        };
""", new="""        let arg_offset = 0;
""", expect="V-callseq::Compiler::compile_call::"),
    dict(name="callseq_piped_arg_not_counted", kind="break", prop="C02", units=["V-callseq"], file="crates/bytecode/src/compiler.rs",
         old="            arg_count += 1;\n            let arg_register = self.push_register()?;", new="            let arg_register = self.push_register()?;", expect="V-callseq::Compiler::compile_call::"),
    dict(name="callseq_args_into_any_register", kind="break", prop="C02", units=["V-callseq"], file="crates/bytecode/src/compiler.rs",
         old="            self.compile_node(*arg, ctx.with_fixed_register(arg_register))?;\n        }\n\n        // Indices of args that need to be unpacked", new="            self.compile_node(*arg, ctx.with_any_register())?;\n        }\n\n        // Indices of args that need to be unpacked", expect="V-callseq::Compiler::compile_call::"),
    dict(name="callseq_packed_index_ignores_piped_offset", kind="break", prop="C02", units=["V-callseq"], file="crates/bytecode/src/compiler.rs",
         old="                packed_arg_indices.push(arg_offset + i as u8);", new="                packed_arg_indices.push(i as u8);", expect="V-callseq::Compiler::compile_call::"),
    dict(name="callseq_instance_never_reused_as_frame_base", kind="break", prop="C02", units=["V-callseq"], file="crates/bytecode/src/compiler.rs",
         old="            if instance == self.frame().next_temporary_register() - 1 {", new="            if instance == self.frame().next_temporary_register() {", expect="V-callseq::Compiler::compile_call::"),
    dict(name="callseq_result_into_function_register", kind="break", prop="C02", units=["V-callseq"], file="crates/bytecode/src/compiler.rs",
         old="""                Call,
                &[
                    call_result_register,
                    function_register,
                    frame_base,""", new="""                Call,
                &[
                    function_register,
                    function_register,
                    frame_base,""", expect="V-callseq::Compiler::compile_call::"),
    dict(name="callseq_registers_not_released", kind="break", prop="C02", units=["V-callseq"], file="crates/bytecode/src/compiler.rs",
         old="        self.truncate_register_stack(stack_count)?;\n\n        Ok(result)\n    }\n\n    fn compile_if(", new="        Ok(result)\n    }\n\n    fn compile_if(", expect="V-callseq::Compiler::compile_call::temporaries_released"),
    # ---- V-adaptors2
    dict(name="chunks_f35_capacity_is_the_chunk_size", kind="break", prop="C06", units=["V-adaptors2"], file="crates/runtime/src/core_lib/iterator/adaptors.rs",
         old=".get_or_insert_with(|| Vec::with_capacity(capacity))", new=".get_or_insert_with(|| Vec::with_capacity(self.chunk_size))", expect="V-adaptors2::Chunks::next::chunk_buffer_allocatable"),
    dict(name="windows_f35_capacity_is_the_window_size", kind="break", prop="C06", units=["V-adaptors2"], file="crates/runtime/src/core_lib/iterator/adaptors.rs",
         old="cache: VecDeque::with_capacity(capacity),", new="cache: VecDeque::with_capacity(window_size),", expect="V-adaptors2::Windows::new::window_buffer_allocatable"),
    dict(name="chunks_takes_one_too_many", kind="break", prop="C13", units=["V-adaptors2"], file="crates/runtime/src/core_lib/iterator/adaptors.rs",
         old="for output in self.iter.clone().take(self.chunk_size) {", new="for output in self.iter.clone().take(self.chunk_size + 1) {", expect="V-adaptors2::Chunks::next::"),
    dict(name="chunks_zero_size_accepted", kind="break", prop="C13", units=["V-adaptors2"], file="crates/runtime/src/core_lib/iterator/adaptors.rs",
         old="        if chunk_size < 1 {\n            Err(ChunksError::ChunkSizeMustBeAtLeastOne)", new="        if chunk_size > usize::MAX - 1 {\n            Err(ChunksError::ChunkSizeMustBeAtLeastOne)", expect="V-adaptors2::Chunks::new::chunk_size_zero_is_an_error"),
    dict(name="windows_does_not_slide", kind="break", prop="C13", units=["V-adaptors2"], file="crates/runtime/src/core_lib/iterator/adaptors.rs",
         old="        self.cache.pop_front();\n\n        while self.cache.len() < self.window_size {", new="        while self.cache.len() < self.window_size {", expect="V-adaptors2::Windows::next::"),
    dict(name="windows_yields_partial_window", kind="break", prop="C13", units=["V-adaptors2"], file="crates/runtime/src/core_lib/iterator/adaptors.rs",
         old="        if self.cache.len() == self.window_size {\n            let result: Vec<_>", new="        if self.cache.len() > 0 {\n            let result: Vec<_>", expect="V-adaptors2::Windows::next::"),
    dict(name="windows_quiet_len_compare", kind="quiet", prop="C13", units=["V-adaptors2"], file="crates/runtime/src/core_lib/iterator/adaptors.rs",
         old="        if self.cache.len() == self.window_size {\n            let result: Vec<_>", new="        if self.cache.len() >= self.window_size {\n            let result: Vec<_>"),
    dict(name="bytecursor_next_back_front_byte", kind="break", prop="C13", units=["V-bytecursor"], file="crates/runtime/src/types/iterator.rs",
         old="let result = (self.bytes)[self.end];", new="let result = (self.bytes)[self.index];", expect="V-bytecursor::ByteIterator::next_back::yields_back_position"),
    dict(name="bytecursor_next_reads_after_advance", kind="break", prop="C13", units=["V-bytecursor"], file="crates/runtime/src/types/iterator.rs",
         old="""            let result = (self.bytes)[self.index];
            self.index += 1;""", new="""            self.index += 1;
            let result = (self.bytes)[self.index];""", expect="V-bytecursor::ByteIterator::next::"),
    dict(name="bytecursor_new_end_off_by_one", kind="break", prop="C13", units=["V-bytecursor"], file="crates/runtime/src/types/iterator.rs",
         old="""        let end = bytes.len();
        Self {
            bytes,
            index: 0,""", new="""        let end = bytes.len().saturating_sub(1);
        Self {
            bytes,
            index: 0,""", expect="V-bytecursor::ByteIterator::new::"),
    dict(name="bytecursor_quiet_local_rename", kind="quiet", prop="C13", units=["V-bytecursor"], file="crates/runtime/src/types/iterator.rs",
         old="""            self.end -= 1;
            let result = (self.bytes)[self.end];
            Some(result.into())""", new="""            self.end -= 1;
            let result = (self.bytes)[self.end];
            let out = Some(result.into());
            out"""),
    dict(name="cursor_list_next_back_crosses", kind="break", prop="C13", units=["V-cursors"], file="crates/runtime/src/types/iterator.rs", count=8,
         old="if self.end > self.index {", new="if self.end > 0 {", expect="V-cursors::"),
    dict(name="adaptor_take_off_by_one", kind="break", prop="C13", units=["V-adaptors"], file="crates/runtime/src/core_lib/iterator/adaptors.rs",
         old="        if self.remaining > 0 {\n            self.remaining -= 1;\n            self.iter.next()", new="        if self.remaining > 1 {\n            self.remaining -= 1;\n            self.iter.next()", expect="V-adaptors::Take::next"),
    dict(name="adaptor_skip_back_yields_skipped", kind="break", prop="C13", units=["V-adaptors"], file="crates/runtime/src/core_lib/iterator/adaptors.rs",
         old="            self.iter.nth(self.remaining - 1);\n            self.remaining = 0;", new="            self.remaining = 0;", expect="V-adaptors::Skip::next_back"),
    dict(name="adaptor_chain_pulls_b_early", kind="break", prop="C13", units=["V-adaptors"], file="crates/runtime/src/core_lib/iterator/adaptors.rs",
         old="            Some(ref mut iter) => match iter.next() {\n                output @ Some(_) => output,", new="            Some(ref mut iter) => match (iter.next(), self.iter_b.next()).0 {\n                output @ Some(_) => output,", expect="V-adaptors::Chain::next"),
    dict(name="lexer_comment_forgets_line", kind="break", prop="C09", units=["V-lexer"], file="crates/lexer/src/lexer.rs",
         old="                    '\\n' => {\n                        position.line += 1;\n                        position.column = 0;\n                    }\n                    _ => {}", new="                    '\\n' => {\n                        position.column = 0;\n                    }\n                    _ => {}", expect="V-lexer::TokenLexer::consume_comment"),
    dict(name="lexer_newline_crlf_one_byte", kind="break", prop="C09", units=["V-lexer"], file="crates/lexer/src/lexer.rs",
         old="            consumed_bytes += 1;\n            chars.next();", new="            chars.next();", expect="V-lexer::TokenLexer::consume_newline"),
    dict(name="lexer_advance_breaks_contiguity", kind="break", prop="C09", units=["V-lexer"], file="crates/lexer/src/lexer.rs",
         old="        self.span = Span {\n            start: self.span.end,\n            end: position,\n        };", new="        self.span = Span {\n            start: self.span.start,\n            end: position,\n        };", expect="V-lexer::TokenLexer::advance_to_position"),
    # ---- round 2
    dict(name="adaptor_keep_stops_at_first_reject", kind="break", prop="C13", units=["V-adaptors"], file="crates/runtime/src/core_lib/iterator/adaptors.rs",
         old="                Ok(KValue::Bool(false)) => continue,", new="                Ok(KValue::Bool(false)) => return None,", expect="V-adaptors::Keep::next"),
    dict(name="adaptor_zip_pulls_b_first", kind="break", prop="C13", units=["V-adaptors"], file="crates/runtime/src/core_lib/iterator/adaptors.rs",
         old="        match self.iter_a.next().map(collect_pair) {\n            Some(Output::Value(value_a)) => match self.iter_b.next().map(collect_pair) {", new="        let b_out = self.iter_b.next().map(collect_pair);\n        match self.iter_a.next().map(collect_pair) {\n            Some(Output::Value(value_a)) => match b_out {", expect="V-adaptors::Zip::next"),
    dict(name="adaptor_cycle_restarts_at_one", kind="break", prop="C13", units=["V-adaptors"], file="crates/runtime/src/core_lib/iterator/adaptors.rs",
         old="            if self.cycle_index == self.cache.len() {\n                self.cycle_index = 0;", new="            if self.cycle_index == self.cache.len() {\n                self.cycle_index = 1;", expect="V-adaptors::Cycle::next"),
    dict(name="obj_greater_ignores_equal", kind="break", prop="C17", units=["V-objdefaults"], file="crates/runtime/src/types/object.rs",
         old="                Ok(result) => Ok(!result),\n                Err(error) if error.is_unimplemented_error() => {\n                    unimplemented_error(\"@>\", self.type_string())", new="                Ok(_result) => Ok(true),\n                Err(error) if error.is_unimplemented_error() => {\n                    unimplemented_error(\"@>\", self.type_string())", expect="V-objdefaults::Obj::greater"),
    dict(name="obj_ge_wrong_operator_name", kind="break", prop="C17", units=["V-objdefaults"], file="crates/runtime/src/types/object.rs",
         old='unimplemented_error("@>=", self.type_string())', new='unimplemented_error("@>", self.type_string())', expect="V-objdefaults::Obj::greater_or_equal"),
    dict(name="bind_defaults_from_front", kind="break", prop="C02", units=["V-bind"], file=VM,
         old="        let default_values_to_skip = optional_arg_count - default_values_to_apply;", new="        let default_values_to_skip = 0;", expect="V-bind::apply_optional_arguments"),
    dict(name="bind_too_many_not_reported", kind="break", prop="C02", units=["V-bind"], file=VM,
         old="    } else if call_info.arg_count > expected_arg_count {", new="    } else if call_info.arg_count > expected_arg_count + 1 {", expect="V-bind::apply_variadic_arguments"),
    dict(name="bind_captures_include_defaults", kind="break", prop="C02", units=["V-bind"], file=VM,
         old="                .skip(f.optional_arg_count as usize)\n                .cloned(),\n        );\n    }\n}", new="                .skip(0)\n                .cloned(),\n        );\n    }\n}", expect="V-bind::apply_captures"),
    dict(name="vm_call_enters_frame_before_binding", kind="break", prop="C07", units=["V-vmproto"], file=VM,
         old="        // Captures and temp tuple values are placed in the registers following the arguments\n        apply_captures(&mut self.registers, f);\n\n        // Set up a new frame for the called function\n        self.push_frame(\n            f.chunk.clone(),\n            f.ip,\n            call_info.frame_base,\n            call_info.result_register,\n            f.non_locals(),\n        );\n", new="", expect="V-vmproto::KotoVm::call_koto_function"),
    # ---- K-varint (rule R9 macros)
    dict(name="varint_decoder_shift_by_8", kind="break", prop="C05", units=["K-varint"], file="crates/bytecode/src/instruction_reader.rs",
         old="                    if byte & 0x80 == 0 {\n                        break;\n                    } else {\n                        shift_amount += 7;", new="                    if byte & 0x80 == 0 {\n                        break;\n                    } else {\n                        shift_amount += 8;", expect="K-varint::varint_roundtrip"),
    dict(name="varint_first_byte_variant_drops_group", kind="break", prop="C05", units=["K-varint"], file="crates/bytecode/src/instruction_reader.rs",
         old="                    byte = next_byte;\n                    self.ip += 1;\n                    shift_amount += 7;\n", new="                    byte = next_byte;\n                    self.ip += 1;\n                    shift_amount += if shift_amount == 21 { 4 } else { 7 };\n", expect="K-varint::varint_roundtrip"),
    # ---- F10 / F15 regressions
    dict(name="vm_catch_keeps_abandoned_builders", kind="break", prop="C04", units=["V-vmproto"], file=VM,
         old="                        self.sequence_builders.truncate(sequence_builder_count);\n", new="", expect="V-vmproto::KotoVm::execute_instructions::abandoned_builders_discarded_at_catch"),
    dict(name="vm_run_leaves_builders_on_error", kind="break", prop="C07", units=["V-vmproto"], file=VM,
         old="            self.pop_frame(KValue::Null)?;\n            self.truncate_builders(builder_counts);\n        }\n\n        // Reset the register stack", new="            self.pop_frame(KValue::Null)?;\n        }\n\n        // Reset the register stack", expect="V-vmproto::KotoVm::run::no_builder_left_behind_on_error"),
    dict(name="vm_catch_resumes_with_truncated_registers", kind="break", prop="C04", units=["V-vmproto"], file=VM,
         old="                        if self.registers.len() < self.min_frame_registers {\n                            self.registers\n                                .resize(self.min_frame_registers, KValue::Null);\n                        }\n", new="", expect="V-vmproto::KotoVm::execute_instructions::pre"),
    dict(name="truthy_all_bools_falsy", kind="break", prop="C01", units=["V-truthy"], file=VM,
         old="            KValue::Null => {}\n            KValue::Bool(b) if !b => {}\n            _ => self.jump_ip(offset),", new="            KValue::Null => {}\n            KValue::Bool(_) => {}\n            _ => self.jump_ip(offset),", expect="V-truthy::KotoVm::run_jump_if_true"),
    dict(name="truthy_jump_if_false_only_null", kind="break", prop="C01", units=["V-truthy"], file=VM,
         old="            KValue::Null => self.jump_ip(offset),\n            KValue::Bool(b) if !b => self.jump_ip(offset),\n            _ => {}", new="            KValue::Null => self.jump_ip(offset),\n            KValue::Bool(b) if *b => self.jump_ip(offset),\n            _ => {}", expect="V-truthy::KotoVm::run_jump_if_false"),
    dict(name="emit_loop_break_skips_last_placeholder", kind="break", prop="C05", units=["V-emit"], file=COMPILER, count=2,
         old="            self.update_offset_placeholder(*placeholder)?;", new="            if *placeholder > 100 {\n                self.update_offset_placeholder(*placeholder)?;\n            }", expect="V-emit::"),
    # ---- V-tuple / KString
    dict(name="tuple_pop_front_skips_one", kind="break", prop="C14", units=["V-tuple"], file="crates/runtime/src/types/tuple.rs",
         old="                    slice.bounds.start += 1;", new="                    slice.bounds.start += 2;", expect="V-tuple::KTuple::pop_front"),
    dict(name="tuple_pop_back_full_keeps_last", kind="break", prop="C14", units=["V-tuple"], file="crates/runtime/src/types/tuple.rs",
         old="                        bounds: 0..data.len() - 1,", new="                        bounds: 0..data.len(),", expect="V-tuple::KTuple::pop_back"),
    dict(name="tuple_sub_tuple_large_ignores_offset", kind="break", prop="C14", units=["V-tuple"], file="crates/runtime/src/types/tuple.rs",
         old="            Inner::SliceLarge(slice) => slice.deref().clone(),", new="            Inner::SliceLarge(slice) => TupleSlice::from(slice.data.clone()),", expect="V-tuple::KTuple::make_sub_tuple"),
    dict(name="kstring_with_bounds_full_unchecked", kind="break", prop="C15", units=["V-strslice"], file="crates/parser/src/string.rs",
         old="                StringSlice::<usize>::new(string.clone(), new_bounds).map(Self::from)", new="                StringSlice::<usize>::new(string.clone(), new_bounds.start..new_bounds.end.saturating_sub(0).max(new_bounds.start)).map(Self::from)", expect="V-strslice::KString::with_bounds"),
    # ---- V-stringiter
    dict(name="striter_lines_crlf_keeps_cr", kind="break", prop="C15", units=["V-stringiter"], file=STRITER,
         old="                        start + end - 1\n", new="                        start + end\n", expect="V-stringiter::Lines::next"),
    dict(name="striter_split_skips_one_byte", kind="break", prop="C15", units=["V-stringiter"], file=STRITER,
         old="            self.start = end + self.pattern.len();", new="            self.start = end + 1;", expect="V-stringiter::Split::next"),
    dict(name="striter_split_drops_trailing_empty", kind="break", prop="C15", units=["V-stringiter"], file=STRITER,
         old="        if start <= self.input.len() {", new="        if start < self.input.len() {", expect="V-stringiter::Split::next"),
    dict(name="striter_size_hint_underflow_returns", kind="break", prop="C06", units=["V-stringiter"], file=STRITER, count=3,
         old="self.input.len().saturating_sub(self.start)", new="self.input.len() - self.start", expect="V-stringiter::Split::size_hint"),
    dict(name="striter_bytes_skips", kind="break", prop="C13", units=["V-stringiter"], file=STRITER,
         old="                self.index += 1;\n                Some(Output::Value(byte.into()))", new="                self.index += 2;\n                Some(Output::Value(byte.into()))", expect="V-stringiter::Bytes::next"),
    dict(name="striter_quiet_flip_comparison", kind="quiet", prop="C15", units=["V-stringiter"], file=STRITER,
         old="        if start <= self.input.len() {", new="        if self.input.len() >= start {"),
    # ---- V-import
    dict(name="import_stale_entry_keeps_placeholder", kind="break", prop="C07", units=["V-import"], file=VM,
         old="        } else {\n            // If there was an error while importing", new="        } else if maybe_in_cache.is_none() {\n            // If there was an error while importing", expect="V-import::KotoVm::run_import"),
    dict(name="import_exports_not_restored_on_error", kind="break", prop="C07", units=["V-import"], file=VM,
         old="        self.exports = importer_exports;\n        import_result", new="        if !import_result.is_err() {\n            self.exports = importer_exports;\n        }\n        import_result", expect="V-import::KotoVm::run_import"),
    dict(name="import_main_error_skips_cleanup", kind="break", prop="C07", units=["V-import"], file=VM,
         old="        if import_result.is_ok() {\n            if let Some(callback)", new="        if import_result.is_err() {\n            return import_result;\n        }\n        if import_result.is_ok() {\n            if let Some(callback)", expect="V-import::KotoVm::run_import"),
    dict(name="import_quiet_comment_and_local", kind="quiet", prop="C07", units=["V-import"], file=VM,
         old="            // Cache the module's resulting exports\n            let module_exports = self.exports.clone();", new="            // Cache the exports that the module produced\n            let module_exports = self.exports.clone();\n            let _path_len = 0;"),
    dict(name="import_cycle_not_detected", kind="break", prop="C18", units=["V-import"], file=VM,
         old="""                return runtime_error!("recursive import of module '{import_name}'");""", new="", expect="V-import::KotoVm::run_import"),
    dict(name="import_cached_module_runs_again", kind="break", prop="C18", units=["V-import"], file=VM,
         old="            Some(Some(cached_exports)) if compile_result.loaded_from_cache => {", new="            Some(Some(cached_exports)) if !compile_result.loaded_from_cache => {", expect="V-import::KotoVm::run_import"),
    dict(name="import_result_not_cached", kind="break", prop="C18", units=["V-import"], file=VM,
         old="                .insert(compile_result.path, Some(module_exports.clone()));", new="                .remove(&compile_result.path);", expect="V-import::KotoVm::run_import"),
    # ---- V-modloader
    dict(name="modloader_wrong_main_file", kind="break", prop="C18", units=["V-modloader"], file=MODLOADER,
         old='            .join("main")', new='            .join("mod")', expect="V-modloader::find_module"),
    dict(name="modloader_directory_before_file", kind="break", prop="C18", units=["V-modloader"], file=MODLOADER,
         old="    let result = search_folder.join(module_name).with_extension(extension);\n    if result.exists() {", new="    let result = search_folder.join(module_name).with_extension(extension);\n    if result.exists() && !search_folder.join(module_name).exists() {", expect="V-modloader::find_module"),
    dict(name="modloader_flag_always_fresh", kind="break", prop="C18", units=["V-modloader"], file=MODLOADER,
         old="                loaded_from_cache: true,", new="                loaded_from_cache: false,", expect="V-modloader::ModuleLoader::compile_module"),
    dict(name="modloader_chunk_not_cached", kind="break", prop="C18", units=["V-modloader"], file=MODLOADER,
         old="                self.chunks.insert(module_path.clone(), chunk.clone());\n", new="", expect="V-modloader::ModuleLoader::compile_module"),
    dict(name="modloader_quiet_rename", kind="quiet", prop="C18", units=["V-modloader"], file=MODLOADER,
         old="        let result = search_folder\n            .join(module_name)\n            .join(\"main\")\n            .with_extension(extension);\n        if result.exists() {\n            canonicalize(&result)", new="        let result = search_folder\n            .join(module_name)\n            .join(\"main\")\n            .with_extension(\"koto\");\n        if result.exists() {\n            canonicalize(&result)"),
    dict(name="export_value_uses_key_as_value", kind="break", prop="C18", units=["V-import"], file=VM,
         old="        let value = self.clone_register(value_register);\n        self.exports.data_mut().insert(key, value);", new="        let value = self.clone_register(key_register);\n        self.exports.data_mut().insert(key, value);", expect="V-import::KotoVm::run_export_value"),
    dict(name="load_non_local_unknown_is_null", kind="break", prop="C18", units=["V-import"], file=VM,
         old="""            runtime_error!("'{name}' not found")""", new="""            self.set_register(register, KValue::Null);\n            Ok(())""", expect="V-import::KotoVm::run_load_non_local"),
    # ---- V-compare
    dict(name="compare_greater_loses_negation", kind="break", prop="C17", units=["V-compare"], file=VM,
         old="                    !(less || self.run_overridden_comparison_op(lhs_value, rhs_value, equal_op)?);", new="                    (less || self.run_overridden_comparison_op(lhs_value, rhs_value, equal_op)?);", expect="V-compare::KotoVm::run_greater"),
    dict(name="compare_ge_unwraps_missing_key", kind="break", prop="C17", units=["V-compare"], file=VM,
         old="            (Map(m), _) if m.contains_meta_key(&Less.into()) => {\n                let lhs_value = lhs_value.clone();\n                let rhs_value = rhs_value.clone();\n                let less_op = m.get_meta_value(&Less.into()).unwrap();", new="            (Map(m), _) if m.contains_meta_key(&Less.into()) => {\n                let lhs_value = lhs_value.clone();\n                let rhs_value = rhs_value.clone();\n                let less_op = m.get_meta_value(&GreaterOrEqual.into()).unwrap();", expect="V-compare::KotoVm::run_greater_or_equal"),
    dict(name="compare_macro_swaps_operands", kind="break", prop="C17", units=["V-compare"], file=VM,
         old="            return $self.call_overridden_op_2(Some($result_register), lhs_value, rhs_value, op);\n        }};\n\n        // Used when the call result can be discarded", new="            return $self.call_overridden_op_2(Some($result_register), rhs_value, lhs_value, op);\n        }};\n\n        // Used when the call result can be discarded", expect="V-compare::KotoVm::run_less"),
    dict(name="compare_le_short_circuit_flipped", kind="break", prop="C17", units=["V-compare"], file=VM,
         old="                    less || self.run_overridden_comparison_op(lhs_value, rhs_value, equal_op)?;", new="                    less && self.run_overridden_comparison_op(lhs_value, rhs_value, equal_op)?;", expect="V-compare::KotoVm::run_less_or_equal"),
    dict(name="compare_quiet_reorder_lets", kind="quiet", prop="C17", units=["V-compare"], file=VM, count=2,
         old="                let less_op = m.get_meta_value(&Less.into()).unwrap();\n                let equal_op = m.get_meta_value(&Equal.into()).unwrap();", new="                let equal_op = m.get_meta_value(&Equal.into()).unwrap();\n                let less_op = m.get_meta_value(&Less.into()).unwrap();"),
    # ---- V-valuekey
    dict(name="valuekey_tuple_prefix_equal", kind="break", prop="C14", units=["V-valuekey"], file="crates/runtime/src/types/value_key.rs",
         old="                a.len() == b.len()\n                    && a.iter()", new="                a.len() <= b.len()\n                    && a.iter()", expect="V-valuekey::ValueKey::eq_keys"),
    dict(name="valuekey_bool_any_equal", kind="break", prop="C14", units=["V-valuekey"], file="crates/runtime/src/types/value_key.rs",
         old="            (Bool(a), Bool(b)) => a == b,", new="            (Bool(_), Bool(_)) => true,", expect="V-valuekey::ValueKey::eq_keys"),
    dict(name="valuekey_unhashable_accepted", kind="break", prop="C14", units=["V-valuekey"], file="crates/runtime/src/types/value_key.rs",
         old="        if value.is_hashable() {\n            Ok(Self(value))", new="        if value.is_hashable() || matches!(value, KValue::List(_)) {\n            Ok(Self(value))", expect="V-valuekey::ValueKey::try_from_value"),
    dict(name="valuekey_quiet_arm_order", kind="quiet", prop="C14", units=["V-valuekey"], file="crates/runtime/src/types/value_key.rs",
         old="            (Range(a), Range(b)) => a == b,\n            (Null, Null) => true,", new="            (Null, Null) => true,\n            (Range(a), Range(b)) => a == b,"),
    # ---- V-indexassign
    dict(name="indexassign_shift_remove", kind="break", prop="C14", units=["V-indexassign"], file=VM,
         old="                                map_data.swap_remove_index(u_index);", new="                                map_data.shift_remove_index(u_index);", expect="V-indexassign::KotoVm::run_index_assign"),
    dict(name="indexassign_duplicate_key_check_dropped", kind="break", prop="C06", units=["V-indexassign"], file=VM,
         old="                                    && existing_index != u_index\n", new="                                    && existing_index != u_index\n                                    && existing_index > map_len\n", expect="V-indexassign::KotoVm::run_index_assign"),
    dict(name="indexassign_list_off_by_one", kind="break", prop="C06", units=["V-indexassign"], file=VM,
         old="                        if *index >= 0.0 && u_index < list_len {", new="                        if *index >= 0.0 && u_index <= list_len {", expect="V-indexassign::KotoVm::run_index_assign"),
    dict(name="indexassign_metakey_swaps_operands", kind="break", prop="C17", units=["V-indexassign"], file=VM,
         old="                self.call_overridden_op_3(None, map.into(), index_value, value, op)", new="                self.call_overridden_op_3(None, map.into(), value, index_value, op)", expect="V-indexassign::KotoVm::run_index_assign"),
    dict(name="indexassign_quiet_len_via_data", kind="quiet", prop="C14", units=["V-indexassign"], file=VM,
         old="                                map_data.swap_indices(u_index, map_len - 1);", new="                                map_data.swap_indices(u_index, map_data.len() - 1);"),
    # ---- V-strformat
    dict(name="strformat_width_counts_chars", kind="break", prop="C15", units=["V-strformat"], file=VM,
         old="                let len = rendered.graphemes(true).count();", new="                let len = rendered.chars().count();", expect="V-strformat::KotoVm::run_string_push__apply_width"),
    dict(name="strformat_center_f32_returns", kind="break", prop="C15", units=["V-strformat"], file=VM,
         old="                            let fill_before = fill_chars / 2;", new="                            let fill_before = (fill_chars as f32 / 2.0).floor() as usize;", expect="V-strformat::KotoVm::run_string_push__apply_width"),
    dict(name="strformat_default_number_left", kind="break", prop="C15", units=["V-strformat"], file=VM,
         old="                            if value_is_number {\n                                // Right-alignment by default for numbers", new="                            if !value_is_number {\n                                // Right-alignment by default for numbers", expect="V-strformat::KotoVm::run_string_push__apply_width"),
    dict(name="strformat_off_by_one_fill", kind="break", prop="C15", units=["V-strformat"], file=VM,
         old="                    let fill_chars = min_width - len;", new="                    let fill_chars = min_width - len - 1;", expect="V-strformat::KotoVm::run_string_push__apply_width"),
    dict(name="strformat_quiet_le", kind="quiet", prop="C15", units=["V-strformat"], file=VM,
         old="                if len < min_width {\n                    let fill = match options.fill_character {", new="                if min_width > len {\n                    let fill = match options.fill_character {"),
    # ---- V-typecheck (R14)
    dict(name="typecheck_callable_checks_indexable", kind="break", prop="C16", units=["V-typecheck"], file=VM,
         old='            "Callable" => value.is_callable(),', new='            "Callable" => value.is_indexable(),', expect="V-typecheck::KotoVm::compare_value_type"),
    dict(name="typecheck_optional_admits_everything", kind="break", prop="C16", units=["V-typecheck"], file=VM,
         old="        if allow_null && matches!(value, KValue::Null) {\n            return true;", new="        if allow_null || matches!(value, KValue::Null) {\n            return true;", expect="V-typecheck::KotoVm::compare_value_type"),
    dict(name="typecheck_base_match_rejected", kind="break", prop="C16", units=["V-typecheck"], file=VM,
         old="                                if base.type_as_string() == expected_type {\n                                    return true;", new="                                if base.type_as_string() == expected_type {\n                                    return false;", expect="V-typecheck::KotoVm::compare_value_type"),
    dict(name="typecheck_unknown_hint_passes", kind="break", prop="C16", units=["V-typecheck"], file=VM,
         old="                        }\n                    }\n\n                    false\n                }\n            }\n        }\n    }\n\n    fn get_value_size", new="                        }\n                    }\n\n                    true\n                }\n            }\n        }\n    }\n\n    fn get_value_size", expect="V-typecheck::KotoVm::compare_value_type"),
    dict(name="typecheck_quiet_arm_order", kind="quiet", prop="C16", units=["V-typecheck"], file=VM,
         old='            "Indexable" => value.is_indexable(),\n            "Iterable" => value.is_iterable(),', new='            "Iterable" => value.is_iterable(),\n            "Indexable" => value.is_indexable(),'),
    # ---- V-arith (R12 with paste + hygiene)
    dict(name="arith_rhs_macro_keeps_operand_order", kind="break", prop="C17", units=["V-arith"], file=VM,
         old="            return $self.call_overridden_op_2(Some($result_register), rhs_value, lhs_value, op);", new="            return $self.call_overridden_op_2(Some($result_register), lhs_value, rhs_value, op);", expect="V-arith::KotoVm::run_subtract"),
    dict(name="arith_any_error_falls_back", kind="break", prop="C17", units=["V-arith"], file=VM,
         old="                    if !matches!(thrown_value, KValue::Object(o) if o.is_a::<Unimplemented>()) {\n                        // A non-unimplemented error was thrown, so propagate it\n                        return Err(error);\n                    }\n", new="", expect="V-arith::KotoVm::run_subtract"),
    dict(name="arith_rhs_checked_before_lhs", kind="break", prop="C17", units=["V-arith"], file=VM,
         old="                    (Map(m), _) if m.contains_meta_key(&$op.into()) => {\n                        let lhs_value = lhs_value.clone();\n                        let rhs_value = rhs_value.clone();\n                        call_metamap_arithmetic_op!($self, $op, $trait_fn, m, lhs_value, rhs_value, $result)\n                    }", new="                    (_, Map(m)) if m.contains_meta_key(&[<$op Rhs>].into()) => {\n                        call_metamap_binary_op_rhs!($self, [<$op Rhs>], m, lhs_value, rhs_value, $result);\n                    }\n                    (Map(m), _) if m.contains_meta_key(&$op.into()) => {\n                        let lhs_value = lhs_value.clone();\n                        let rhs_value = rhs_value.clone();\n                        call_metamap_arithmetic_op!($self, $op, $trait_fn, m, lhs_value, rhs_value, $result)\n                    }", expect="V-arith::KotoVm::run_subtract"),
    dict(name="arith_wrong_rhs_key", kind="break", prop="C17", units=["V-arith"], file=VM,
         old="                    (_, Map(m)) if m.contains_meta_key(&[<$op Rhs>].into()) => {\n                        call_metamap_binary_op_rhs!($self, [<$op Rhs>], m, lhs_value, rhs_value, $result);", new="                    (_, Map(m)) if m.contains_meta_key(&$op.into()) => {\n                        call_metamap_binary_op_rhs!($self, $op, m, lhs_value, rhs_value, $result);", expect="V-arith::KotoVm::run_subtract"),
    dict(name="arith_barrier_forgotten", kind="break", prop="C17", units=["V-arith"], file=VM,
         old="            $self.frame_mut().execution_barrier = true;\n            match $self.execute_instructions() {\n                Ok(result) => {", new="            match $self.execute_instructions() {\n                Ok(result) => {", expect="V-arith::"),
    dict(name="arith_quiet_clone_order", kind="quiet", prop="C17", units=["V-arith"], file=VM,
         old="            let lhs_value = $lhs_value.clone();\n            let rhs_value = $rhs_value.clone();\n            // Call the op, swapping the LHS and RHS", new="            let rhs_value = $rhs_value.clone();\n            let lhs_value = $lhs_value.clone();\n            // Call the op, swapping the LHS and RHS"),
    dict(name="arith_assign_macro_swaps_operands", kind="break", prop="C17", units=["V-arith"], file=VM,
         old="            return $self.call_overridden_op_2(None, lhs_value, rhs_value, op);", new="            return $self.call_overridden_op_2(None, rhs_value, lhs_value, op);", expect="V-arith::KotoVm::run_add_assign"),
    dict(name="arith_assign_falls_through_to_ok", kind="break", prop="C17", units=["V-arith"], file=VM,
         old="                    (Object(o), _) => o.try_borrow_mut()?.$trait_fn(rhs_value),\n                    _ => binary_op_error(lhs_value, rhs_value, $op),", new="                    (Object(o), _) => o.try_borrow_mut()?.$trait_fn(rhs_value),\n                    _ => Ok(()),", expect="V-arith::KotoVm::run_add_assign"),
    # ---- V-access (R13 to_block_end + local macro)
    dict(name="access_meta_lookup_on_original_map", kind="break", prop="C17", units=["V-access"], file=VM,
         old="                        _ => match access_map.get_meta_value(&MetaKey::Named(key_string.clone())) {", new="                        _ => match map.get_meta_value(&MetaKey::Named(key_string.clone())) {", expect="V-access::KotoVm::run_access_inner__map_arm"),
    dict(name="access_base_lookup_on_original_map", kind="break", prop="C17", units=["V-access"], file=VM,
         old="                            None => match access_map.get_meta_value(&MetaKey::Base) {", new="                            None => match map.get_meta_value(&MetaKey::Base) {", expect="V-access::KotoVm::run_access_inner__map_arm"),
    dict(name="access_meta_before_data", kind="break", prop="C17", units=["V-access"], file=VM,
         old="                    let maybe_value = access_map.get(&key);", new="                    let maybe_value = match access_map.get_meta_value(&MetaKey::Named(key_string.clone())) {\n                        Some(meta_value) => Some(meta_value),\n                        None => access_map.get(&key),\n                    };", expect="V-access::"),
    dict(name="core_op_iterator_first", kind="break", prop="C17", units=["V-access"], file=VM,
         old="        let maybe_op = match module.get(key) {\n            None if iterator_fallback => self.context.core_lib.iterator.get(key),", new="        let maybe_op = match module.get(key) {\n            _ if iterator_fallback && self.context.core_lib.iterator.get(key).is_some() => self.context.core_lib.iterator.get(key),", expect="V-access::KotoVm::get_core_op"),
    dict(name="access_quiet_clone_key", kind="quiet", prop="C17", units=["V-access"], file=VM,
         old="                                    // Attempt the access again with the base map\n                                    access_map = base;", new="                                    // Try again, this time with the base map\n                                    access_map = base;"),
    # ---- F19
    dict(name="arith_native_check_dropped", kind="break", prop="C17", units=["V-arith"], file=VM,
         old="            if $self.call_stack.len() == old_frame_count {\n", new="            if $self.call_stack.len() == old_frame_count && false {\n", expect="V-arith::KotoVm::run_subtract"),
    dict(name="comparison_op_runs_without_frame_check", kind="break", prop="C07", units=["V-vmproto"], file=VM,
         old="        match self.get_overridden_op_result(old_frame_count, result_register)? {\n            KValue::Bool(result) => Ok(result),", new="        self.frame_mut().execution_barrier = true;\n        match self.execute_instructions()? {\n            KValue::Bool(result) => Ok(result),", expect="V-vmproto::KotoVm::run_overridden_comparison_op"),
    # ---- V-equal
    dict(name="equal_ne_str_not_negated", kind="break", prop="C14", units=["V-equal"], file=VM,
         old="            (Str(a), Str(b)) => a != b,", new="            (Str(a), Str(b)) => a == b,", expect="V-equal::KotoVm::run_not_equal"),
    dict(name="equal_null_equals_anything", kind="break", prop="C14", units=["V-equal"], file=VM,
         old="            (Null, _) | (_, Null) => false,", new="            (Null, _) | (_, Null) => true,", expect="V-equal::KotoVm::run_equal"),
    dict(name="equal_ne_derived_not_negated", kind="break", prop="C17", units=["V-equal"], file=VM,
         old="                    self.run_overridden_comparison_op(lhs_value.clone(), rhs_value.clone(), op)?;\n                !equal", new="                    self.run_overridden_comparison_op(lhs_value.clone(), rhs_value.clone(), op)?;\n                equal", expect="V-equal::KotoVm::run_not_equal"),
    dict(name="equal_different_kinds_equal", kind="break", prop="C14", units=["V-equal"], file=VM,
         old="                self.compare_functions(a, b)?\n            }\n            _ => false,", new="                self.compare_functions(a, b)?\n            }\n            _ => true,", expect="V-equal::KotoVm::run_equal"),
    dict(name="equal_ne_map_vs_other_false", kind="break", prop="C14", units=["V-equal"], file=VM,
         old="                    !self.compare_value_maps(a, b)?\n                } else {\n                    true", new="                    !self.compare_value_maps(a, b)?\n                } else {\n                    false", expect="V-equal::KotoVm::run_not_equal"),
    dict(name="equal_list_compared_with_itself", kind="break", prop="C14", units=["V-equal"], file=VM,
         old="                self.compare_value_ranges(&data_a, &data_b)?", new="                self.compare_value_ranges(&data_a, &data_a)?", expect="V-equal::KotoVm::run_equal"),
    dict(name="equal_quiet_arm_order", kind="quiet", prop="C14", units=["V-equal"], file=VM,
         old="            (Number(a), Number(b)) => a == b,\n            (Bool(a), Bool(b)) => a == b,", new="            (Bool(a), Bool(b)) => a == b,\n            (Number(a), Number(b)) => a == b,"),
    # ---- V-unaryops
    dict(name="unary_negate_identity", kind="break", prop="C01", units=["V-unaryops"], file=VM,
         old="            Number(n) => Number(-n),", new="            Number(n) => Number(n),", expect="V-unaryops::KotoVm::run_negate"),
    dict(name="unary_size_map_none", kind="break", prop="C01", units=["V-unaryops"], file=VM,
         old="            Map(m) => Some(m.len()),", new="            Map(m) => Some(m.len() + 1),", expect="V-unaryops::KotoVm::run_size"),
    dict(name="unary_size_metakey_wrong_register", kind="break", prop="C17", units=["V-unaryops"], file=VM,
         old="                return self.call_overridden_op_1(Some(result_register), value_register, op);", new="                return self.call_overridden_op_1(Some(result_register), result_register, op);", expect="V-unaryops::KotoVm::run_size"),
    dict(name="unary_access_assign_swaps_key_value", kind="break", prop="C17", units=["V-unaryops"], file=VM,
         old="                self.call_overridden_op_3(None, map.clone().into(), key.clone(), value.clone(), op)", new="                self.call_overridden_op_3(None, map.clone().into(), value.clone(), key.clone(), op)", expect="V-unaryops::KotoVm::run_access_assign"),
    dict(name="unary_size_null_instead_of_error", kind="break", prop="C01", units=["V-unaryops"], file=VM,
         old="        } else if throw_if_value_has_no_size {", new="        } else if throw_if_value_has_no_size && false {", expect="V-unaryops::KotoVm::run_size"),
    dict(name="unary_quiet_size_key_local", kind="quiet", prop="C17", units=["V-unaryops"], file=VM,
         old="            Tuple(t) => Some(t.len()),\n            Str(l) => Some(l.len()),", new="            Str(l) => Some(l.len()),\n            Tuple(t) => Some(t.len()),"),
    # ---- V-runindex
    dict(name="runindex_range_unchecked_add", kind="break", prop="C06", units=["V-runindex"], file=VM,
         old="                    Ok(index) => start.checked_add(index),", new="                    Ok(index) => Some(start + index),", expect="V-runindex::KotoVm::run_index"),
    dict(name="runindex_validate_allows_size", kind="break", prop="C06", units=["V-runindex"], file=VM,
         old="            && index >= size\n", new="            && index > size\n", expect="V-runindex::KotoVm::"),
    dict(name="runindex_string_two_bytes", kind="break", prop="C15", units=["V-runindex"], file=VM,
         old="                let Some(result) = s.with_bounds(index..index + 1) else {", new="                let Some(result) = s.with_bounds(index..index + 2) else {", expect="V-runindex::KotoVm::run_index"),
    dict(name="runindex_tuple_slice_uses_list_len", kind="break", prop="C01", units=["V-runindex"], file=VM,
         old="                let indices = range.indices(t.len());\n                let Some(result) = t.make_sub_tuple(indices) else {", new="                let indices = range.indices(t.len() + 1);\n                let Some(result) = t.make_sub_tuple(indices) else {", expect="V-runindex::KotoVm::run_index"),
    dict(name="runindex_metakey_swaps_operands", kind="break", prop="C17", units=["V-runindex"], file=VM,
         old="                return self.call_overridden_op_2(Some(result_register), value, index, op);", new="                return self.call_overridden_op_2(Some(result_register), index, value, op);", expect="V-runindex::KotoVm::run_index"),
    dict(name="runindex_quiet_arm_swap", kind="quiet", prop="C01", units=["V-runindex"], file=VM,
         old="        let value = self.clone_register(value_register);\n        let index = self.clone_register(index_register);\n\n        let result = match (&value, index) {", new="        let index = self.clone_register(index_register);\n        let value = self.clone_register(value_register);\n\n        let result = match (&value, index) {"),
    # ---- V-runindex::run_temp_index (C03)
    dict(name="tempindex_temp_tuple_abs_test_returns", kind="break", prop="C03", units=["V-runindex"], file=VM,
         old="                let index = signed_index_to_unsigned(index, count);\n                if index < count {", new="                if (index.unsigned_abs() as usize) >= count {\n                    return Ok(());\n                }\n                let index = signed_index_to_unsigned(index, count);\n                if index < count {", expect="V-runindex::KotoVm::run_temp_index"),
    dict(name="tempindex_list_uses_wrong_len", kind="break", prop="C03", units=["V-runindex"], file=VM,
         old="                let index = signed_index_to_unsigned(index, list.data().len());\n                list.data().get(index).cloned().unwrap_or(Null)", new="                let index = signed_index_to_unsigned(index, list.data().len() + 1);\n                list.data().get(index).cloned().unwrap_or(Null)", expect="V-runindex::KotoVm::run_temp_index"),
    dict(name="tempindex_temp_tuple_off_by_one", kind="break", prop="C03", units=["V-runindex"], file=VM,
         old="                    self.registers[start + index].clone()", new="                    self.registers[start + index + 1].clone()", expect="V-runindex::KotoVm::run_temp_index"),
    dict(name="tempindex_range_i64_arithmetic", kind="break", prop="C06", units=["V-runindex"], file=VM,
         old="                    start as i128 + index as i128\n                };", new="                    (start + index as i64) as i128\n                };", expect="V-runindex::KotoVm::run_temp_index"),
    dict(name="iterator_next_runs_without_frame_check", kind="break", prop="C07", units=["V-vmproto"], file=VM,
         old="                    match self.get_overridden_op_result(old_frame_count, temp_register)? {\n                        Null => None,", new="                    self.frame_mut().execution_barrier = true;\n                    match self.execute_instructions()? {\n                        Null => None,", expect="V-vmproto::KotoVm::run_iterator_next__meta_next_arm"),
    dict(name="try_start_swaps_builder_depths", kind="break", prop="C04", units=["V-vmproto"], file=VM,
         old="                    self.sequence_builders.len(),\n                    self.string_builders.len(),\n                );", new="                    self.string_builders.len(),\n                    self.sequence_builders.len(),\n                );", expect="V-vmproto::KotoVm::execute_instruction__try_start_arm"),
    dict(name="try_start_wrong_catch_ip", kind="break", prop="C04", units=["V-vmproto"], file=VM,
         old="                let catch_ip = self.ip() + catch_offset as u32;", new="                let catch_ip = self.ip() + catch_offset as u32 + 1;", expect="V-vmproto::KotoVm::execute_instruction__try_start_arm"),
    # ---- V-dispatch
    dict(name="dispatch_return_ignores_barrier", kind="break", prop="C04", units=["V-dispatch"], file=VM,
         old="                    control_flow = ControlFlow::Return(return_value);", new="                    let _ = return_value;", expect="V-dispatch::KotoVm::execute_instruction"),
    dict(name="dispatch_new_frame_clears_barrier", kind="break", prop="C07", units=["V-dispatch"], file=VM,
         old="                self.frame_mut().required_registers = register_count;", new="                self.frame_mut().required_registers = register_count;\n                self.frame_mut().execution_barrier = false;", expect="V-dispatch::KotoVm::execute_instruction"),
    dict(name="dispatch_try_end_pops_frame", kind="break", prop="C04", units=["V-dispatch"], file=VM,
         old="            TryEnd => {\n                self.frame_mut().catch_stack.pop();", new="            TryEnd => {\n                self.call_stack.pop();", expect="V-dispatch::KotoVm::execute_instruction"),
    dict(name="dispatch_yield_changes_state", kind="break", prop="C07", units=["V-dispatch"], file=VM,
         old="            Yield { register } => control_flow = ControlFlow::Yield(self.clone_register(register)),", new="            Yield { register } => {\n                self.execution_state = ExecutionState::Suspended;\n                control_flow = ControlFlow::Yield(self.clone_register(register))\n            }", expect="V-dispatch::KotoVm::execute_instruction"),
    dict(name="dispatch_quiet_arm_order", kind="quiet", prop="C04", units=["V-dispatch"], file=VM,
         old="            Jump { offset } => self.jump_ip(offset as u32),\n            JumpBack { offset } => self.jump_ip_back(offset as u32),", new="            JumpBack { offset } => self.jump_ip_back(offset as u32),\n            Jump { offset } => self.jump_ip(offset as u32),"),
    # ---- V-iternext
    dict(name="iternext_error_rewrapped", kind="break", prop="C04", units=["V-iternext"], file=VM,
         old="                            return Err(error);\n                        }\n                        None => None,", new="                            return runtime_error!(error.to_string());\n                        }\n                        None => None,", expect="V-iternext::KotoVm::run_iterator_next__iterator_arm"),
    dict(name="iternext_pair_swapped", kind="break", prop="C13", units=["V-iternext"], file=VM,
         old="                                    self.registers[first_index] = first;\n                                    self.registers[second_index] = second;", new="                                    self.registers[first_index] = second;\n                                    self.registers[second_index] = first;", expect="V-iternext::KotoVm::run_iterator_next__iterator_arm"),
    dict(name="iternext_temp_tuple_starts_at_result", kind="break", prop="C13", units=["V-iternext"], file=VM,
         old="                                    let start = result + 1;", new="                                    let start = result;", expect="V-iternext::KotoVm::run_iterator_next__iterator_arm"),
    dict(name="typecheck_assert_ok_on_failure", kind="break", prop="C16", units=["V-typecheck"], file=VM,
         old="            if allow_null {\n                unexpected_type(&format!(\"{expected_type}?\"), value)\n            } else {", new="            if allow_null {\n                Ok(())\n            } else {", expect="V-typecheck::KotoVm::run_assert_type"),
    dict(name="typecheck_match_hint_jumps_on_success", kind="break", prop="C16", units=["V-typecheck"], file=VM,
         old="        if !self.compare_value_type(value_register, type_index, allow_null) {\n            self.jump_ip(jump_offset);", new="        if self.compare_value_type(value_register, type_index, allow_null) {\n            self.jump_ip(jump_offset);", expect="V-typecheck::KotoVm::run_check_type"),
    # ---- V-runindex: run_slice, size checks (C03)
    dict(name="slice_tuple_to_from_swapped", kind="break", prop="C03", units=["V-runindex"], file=VM,
         old="                let index = signed_index_to_unsigned(index, tuple.len());\n                if is_slice_to {\n                    tuple.make_sub_tuple(0..index).into()", new="                let index = signed_index_to_unsigned(index, tuple.len());\n                if !is_slice_to {\n                    tuple.make_sub_tuple(0..index).into()", expect="V-runindex::KotoVm::run_slice"),
    dict(name="slice_list_from_off_by_one", kind="break", prop="C03", units=["V-runindex"], file=VM,
         old="                        .get(index..)\n                        .map_or(Null, |entries| List(KList::from_slice(entries)))", new="                        .get(index + 1..)\n                        .map_or(Null, |entries| List(KList::from_slice(entries)))", expect="V-runindex::KotoVm::run_slice"),
    dict(name="slice_metakey_range_uses_index_as_end", kind="break", prop="C17", units=["V-runindex"], file=VM,
         old="                let range = if is_slice_to {\n                    0..index\n                } else {\n                    index..size as i64\n                };\n                self.run_read_op", new="                let range = if is_slice_to {\n                    0..index\n                } else {\n                    index..index\n                };\n                self.run_read_op", expect="V-runindex::KotoVm::run_slice"),
    dict(name="check_size_min_strict", kind="break", prop="C03", units=["V-runindex"], file=VM,
         old="        if size >= expected_size {", new="        if size > expected_size {", expect="V-runindex::KotoVm::run_check_size_min"),
    dict(name="check_size_equal_lenient", kind="break", prop="C03", units=["V-runindex"], file=VM,
         old="        if size == expected_size {", new="        if size >= expected_size {", expect="V-runindex::KotoVm::run_check_size_equal"),
    # ---- V-callable
    dict(name="callable_ignores_unpack_error", kind="break", prop="C02", units=["V-callable"], file=VM,
         old="        self.unpack_packed_arguments(&mut info)?;\n\n        match callable {", new="        let _ = self.unpack_packed_arguments(&mut info);\n\n        match callable {", expect="V-callable::KotoVm::call_callable"),
    dict(name="callable_quiet_arm_order", kind="quiet", prop="C02", units=["V-callable"], file=VM,
         old="            NativeFunction(f) => self.call_native_function(&info, ExternalCallable::Function(f)),\n            Object(o) => self.call_native_function(&info, ExternalCallable::Object(o)),", new="            Object(o) => self.call_native_function(&info, ExternalCallable::Object(o)),\n            NativeFunction(f) => self.call_native_function(&info, ExternalCallable::Function(f)),"),
    # ---- V-kstringpop
    dict(name="kstring_pop_back_splits_at_front_offset", kind="break", prop="C15", units=["V-kstringpop"], file="crates/parser/src/string.rs",
         old="                    let (rest, popped) = slice.split(string.len() - grapheme.len()).unwrap();", new="                    let (rest, popped) = slice.split(grapheme.len()).unwrap();", expect="V-kstringpop::KString::pop_back"),
    dict(name="kstring_pop_front_keeps_popped", kind="break", prop="C13", units=["V-kstringpop"], file="crates/parser/src/string.rs",
         old="                    let (popped, rest) = slice.split(grapheme.len()).unwrap();\n                    *slice = rest;\n                    Some(popped.into())\n                }\n                Inner::SliceLarge(slice) => {\n                    let (popped, rest)", new="                    let (popped, rest) = slice.split(grapheme.len()).unwrap();\n                    *slice = popped.clone();\n                    Some(popped.into())\n                }\n                Inner::SliceLarge(slice) => {\n                    let (popped, rest)", expect="V-kstringpop::KString::pop_front"),
    dict(name="kstring_pop_quiet_comment", kind="quiet", prop="C15", units=["V-kstringpop"], file="crates/parser/src/string.rs",
         old="            None => None,\n        }\n    }\n\n    /// Removes and returns the last grapheme from the string", new="            // nothing left\n            None => None,\n        }\n    }\n\n    /// Removes and returns the last grapheme from the string"),
    # ---- V-closure
    dict(name="closure_capture_slots_only_for_captures", kind="break", prop="C02", units=["V-closure"], file=VM,
         old="                let total_captures_count = optional_arg_count + capture_count;", new="                let total_captures_count = capture_count;", expect="V-closure::KotoVm::run_make_function"),
    dict(name="closure_non_locals_ignores_flag", kind="break", prop="C02", units=["V-closure"], file=VM,
         old="                let non_locals = if flags.non_local_access() {", new="                let non_locals = if flags.non_local_access() || capture_count > 0 {", expect="V-closure::KotoVm::run_make_function"),
    dict(name="closure_body_position_after_skip", kind="break", prop="C02", units=["V-closure"], file=VM,
         old="                let function = KFunction::new(\n                    self.chunk(),\n                    self.ip(),", new="                let function = KFunction::new(\n                    self.chunk(),\n                    self.ip() + 1,", expect="V-closure::KotoVm::run_make_function"),
    dict(name="closure_capture_wrong_slot", kind="break", prop="C02", units=["V-closure"], file=VM,
         old="                    captures.data_mut()[capture_index as usize] = self.clone_register(value);", new="                    captures.data_mut()[capture_index as usize + 1] = self.clone_register(value);", expect="V-closure::KotoVm::run_capture_value"),
    dict(name="closure_quiet_let_order", kind="quiet", prop="C02", units=["V-closure"], file=VM,
         old="                self.jump_ip(size as u32);\n                self.set_register(register, KValue::Function(function));", new="                self.set_register(register, KValue::Function(function));\n                self.jump_ip(size as u32);"),
]
