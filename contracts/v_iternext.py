"""V-iternext: the `Iterator(mut iterator) => { .. }` arm of KotoVm::run_iterator_next
(crates/runtime/src/vm.rs; rule R13 keeps that arm's body, the rest of the function is dropped): what one
step of a `for` loop (or of unpacking) over an iterator hands to the loop body.

C04 "errors unwind to the right handler": an error the iterator reports (a generator that throws) IS
the error of the step - the same thrown value, the same trace -, not a new error made from its text.
C13: a value is passed on as it is, a (key, value) pair as a temporary tuple in the two registers after
the result register (or as a tuple), the end of the iterator ends the loop.

Contracts only. The arm's text comes from /repo at run time.
"""
from engine.unit import Fn, Raw, Type, Unit

F = "crates/runtime/src/vm.rs"
P = ("C04", "C13", "C12", "C06")

PRELUDE = r"""
global size_of usize == 8;   // assumption: 64-bit target
#[verifier::external_body] pub struct Error { _p: u8 }
pub type Result<T> = core::result::Result<T, Error>;
#[verifier::external_body] pub struct KTuple { _p: u8 }
pub struct RegisterSlice { pub start: usize, pub count: usize }
pub enum KValue { Null, Tuple(KTuple), TemporaryTuple(RegisterSlice), Other(u8) }
impl Clone for KValue { #[verifier::external_body] fn clone(&self) -> (r: Self) ensures r == *self { unimplemented!() } }
pub enum KIteratorOutput { Value(KValue), ValuePair(KValue, KValue), Error(Error) }
#[verifier::external_body] pub struct KIterator { _p: u8 }
impl KIterator {
    pub uninterp spec fn upcoming(&self) -> Option<KIteratorOutput>;
    #[verifier::external_body] pub fn next(&mut self) -> (r: Option<KIteratorOutput>) ensures r == old(self).upcoming() { unimplemented!() }
}
pub uninterp spec fn pair_of(a: KValue, b: KValue) -> KTuple;
// `Tuple(vec![first, second].into())`, rule R5
#[verifier::external_body] fn pair_tuple(a: KValue, b: KValue) -> (r: KTuple) ensures r == pair_of(a, b) { unimplemented!() }
// `runtime_error!(error.to_string())`: a NEW error whose message is the text of `error` (rule R5)
#[verifier::external_body] fn runtime_error_from_text_of<T>(e: &Error) -> (r: Result<T>) ensures r is Err { unimplemented!() }
pub struct KotoVm { pub registers: Vec<KValue>, pub register_base: usize }
"""

VM_SPECS = r"""
    // vm.rs register_index: PROVED in V-vmproto
    fn register_index(&self, register: u8) -> (r: usize)
        requires self.register_base + 255 <= usize::MAX
        ensures r == self.register_base + register
    { self.register_base + register as usize }
"""

UNIT = Unit(
    name="V-iternext",
    prelude=PRELUDE,
    items=[
        Raw(VM_SPECS, impl_of="impl KotoVm"),
        Fn(F, "impl KotoVm :: fn run_iterator_next", props=P, rename="run_iterator_next__iterator_arm",
           fragment=dict(start="match iterator.next() {", to_block_end=True, wrap=("Ok({", "})"), prologue="use KValue::*;",
                         sig="fn run_iterator_next(&mut self, mut iterator: KIterator, result_register: Option<u8>, output_is_temporary: bool) -> Result<Option<KValue>>"),
           subst=[(r"self\.registers\[([a-z_]+)\] = ([a-z_]+);", r"self.registers.set(\1, \2);", None, "re"),
                  ("Some(Tuple(vec![first, second].into()))", "Some(Tuple(pair_tuple(first, second)))", None),
                  ("runtime_error!(error.to_string())", "runtime_error_from_text_of(&error)", None)],   # (not in the repaired tree; kept so that a return of the old code is judged)
           spec=r"""
    requires
        old(self).register_base + 258 <= usize::MAX, old(self).registers@.len() < usize::MAX - 2,
        result_register matches Some(rr) ==> rr < 255,                        // a register after the result register exists (C05)
    ensures
        // C04: an error reported by the iterator is the error of this step - the thrown value and its
        // trace reach the handler unchanged
        iterator.upcoming() matches Some(KIteratorOutput::Error(e)) ==> r == Err::<Option<KValue>, Error>(e),                               // @iterator_error_is_passed_on_unchanged
        // C13: a value is passed on as it is; the end of the iterator is the end of the loop
        iterator.upcoming() matches Some(KIteratorOutput::Value(v)) ==> r == Ok::<Option<KValue>, Error>(Some(v)) && final(self).registers@ == old(self).registers@,   // @value_passed_on
        iterator.upcoming() is None ==> r == Ok::<Option<KValue>, Error>(None) && final(self).registers@ == old(self).registers@,          // @end_of_iterator
        // a pair: a temporary tuple in the two registers after the result register, or a tuple, or
        // (no result register) just "go on"
        iterator.upcoming() matches Some(KIteratorOutput::ValuePair(a, b)) ==> (result_register matches Some(rr) ==> (output_is_temporary ==>
            r == Ok::<Option<KValue>, Error>(Some(KValue::TemporaryTuple(RegisterSlice { start: (old(self).register_base + rr + 1) as usize, count: 2 })))
            && final(self).registers@.len() >= old(self).register_base + rr + 3
            && final(self).registers@[old(self).register_base + rr + 1] == a && final(self).registers@[old(self).register_base + rr + 2] == b
            && (forall|i: int| 0 <= i < old(self).registers@.len() && i != old(self).register_base + rr + 1 && i != old(self).register_base + rr + 2 ==> final(self).registers@[i] == old(self).registers@[i]))),   // @pair_as_temporary_tuple_after_the_result_register
        iterator.upcoming() matches Some(KIteratorOutput::ValuePair(a, b)) ==> (result_register matches Some(rr) ==> (!output_is_temporary ==>
            r == Ok::<Option<KValue>, Error>(Some(KValue::Tuple(pair_of(a, b)))) && final(self).registers@ == old(self).registers@)),      // @pair_as_tuple
        iterator.upcoming() matches Some(KIteratorOutput::ValuePair(a, b)) ==> (result_register is None ==> r == Ok::<Option<KValue>, Error>(Some(KValue::Null))),   // @ignored_pair_continues
"""),
    ],
    epilogue=r"""
// ---- vacuity guard: MUST FAIL
proof fn canary_iternext(i: KIterator, e: Error) requires i.upcoming() == Some(KIteratorOutput::Error(e)) ensures false {}
""",
    canaries=("canary_iternext",),
)
