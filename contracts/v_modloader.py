"""V-modloader: module resolution and the compiled-module cache
(crates/bytecode/src/module_loader.rs find_module, ModuleLoader::compile_module), C18's first mechanism.

The file system (exists / is_file / canonicalize / read_to_string) is axiomatised as a fixed oracle for
the duration of one call; what is proved is the order in which candidates are tried
(`name.koto` before `name/main.koto`, relative to the importing file) and the bookkeeping of the
chunk cache (`loaded_from_cache` is exact, a module that failed to load or compile is not cached).

Contracts only. Function bodies come from /repo at run time.
"""
from engine.unit import Fn, Raw, Type, Unit

F = "crates/bytecode/src/module_loader.rs"
P = ("C18", "C06")

PRELUDE = r"""
global size_of usize == 8;   // assumption: 64-bit target

// ---- shims (assumptions)
pub struct Ptr<T> { pub v: T }
impl<T> Clone for Ptr<T> { #[verifier::external_body] fn clone(&self) -> (r: Self) ensures r == *self { unimplemented!() } }
#[verifier::external_body] pub struct Chunk { _p: u8 }
#[verifier::external_body] pub struct KString { _p: u8 }
#[verifier::external_body] pub struct ModuleLoaderError { _p: u8 }
#[verifier::external_body] pub struct CompilerSettings { _p: u8 }
impl Default for CompilerSettings { #[verifier::external_body] fn default() -> Self { unimplemented!() } }
#[verifier::external_body] pub struct Script { _p: u8 }

// std::path::{Path, PathBuf} and the file system behind them: uninterpreted functions of the path
#[verifier::external_body] pub struct PathBuf { _p: u8 }
pub type Path = PathBuf;
pub uninterp spec fn p_join(p: PathBuf, s: Seq<char>) -> PathBuf;
pub uninterp spec fn p_with_extension(p: PathBuf, s: Seq<char>) -> PathBuf;
pub uninterp spec fn p_parent(p: PathBuf) -> Option<PathBuf>;
pub uninterp spec fn fs_exists(p: PathBuf) -> bool;
pub uninterp spec fn fs_is_file(p: PathBuf) -> bool;
pub uninterp spec fn fs_canonical(p: PathBuf) -> Option<PathBuf>;
pub uninterp spec fn fs_current_dir() -> Option<PathBuf>;
impl Clone for PathBuf { #[verifier::external_body] fn clone(&self) -> (r: Self) ensures r == *self { unimplemented!() } }
impl From<PathBuf> for KString { #[verifier::external_body] fn from(p: PathBuf) -> KString { unimplemented!() } }
impl PathBuf {
    #[verifier::external_body] pub fn join(&self, s: &str) -> (r: PathBuf) ensures r == p_join(*self, s@) { unimplemented!() }
    #[verifier::external_body] pub fn with_extension(&self, s: &str) -> (r: PathBuf) ensures r == p_with_extension(*self, s@) { unimplemented!() }
    #[verifier::external_body] pub fn exists(&self) -> (r: bool) ensures r == fs_exists(*self) { unimplemented!() }
    #[verifier::external_body] pub fn is_file(&self) -> (r: bool) ensures r == fs_is_file(*self) { unimplemented!() }
    #[verifier::external_body] pub fn parent(&self) -> (r: Option<&PathBuf>) ensures r == (match p_parent(*self) { Some(p) => Some(&p), None => None }) { unimplemented!() }
    #[verifier::external_body] pub fn to_path_buf(&self) -> (r: PathBuf) ensures r == *self { unimplemented!() }
}
// `canonicalize(p).map_err(|error| FailedToCanonicalizePath { .. })` (+ `.into()`), rule R5
#[verifier::external_body]
pub fn canonicalize_or_err(p: &PathBuf) -> (r: Result<PathBuf, ModuleLoaderError>)
    ensures r matches Ok(c) ==> fs_canonical(*p) == Some(c), r is Err ==> fs_canonical(*p) is None { unimplemented!() }
// `std::env::current_dir().map_err(FailedToGetCurrentDir)`, rule R5
#[verifier::external_body]
pub fn current_dir_or_err() -> (r: Result<PathBuf, ModuleLoaderError>)
    ensures r matches Ok(c) ==> fs_current_dir() == Some(c), r is Err ==> fs_current_dir() is None { unimplemented!() }
#[verifier::external_body]
pub fn err_no_parent<T>(p: &PathBuf) -> (r: Result<T, ModuleLoaderError>) ensures r is Err { unimplemented!() }
#[verifier::external_body]
pub fn err_unable_to_find<T>(name: &str) -> (r: Result<T, ModuleLoaderError>) ensures r is Err { unimplemented!() }
// `std::fs::read_to_string(&p).map_err(|error| FailedToReadScript { .. })`, rule R5
#[verifier::external_body]
pub fn read_script_or_err(p: &PathBuf) -> (r: Result<Script, ModuleLoaderError>) { unimplemented!() }

// ---- what find_module has to compute
// the folder the search starts in: the folder of the importing script, or the current directory
pub open spec fn search_folder(current: Option<&PathBuf>) -> Option<PathBuf> {
    match current {
        Some(p) => match fs_canonical(*p) {
            Some(c) => if fs_is_file(c) { p_parent(c) } else { Some(c) },
            None => None,
        },
        None => fs_current_dir(),
    }
}
pub open spec fn candidate_file(folder: PathBuf, name: Seq<char>) -> PathBuf { p_with_extension(p_join(folder, name), "koto"@) }
pub open spec fn candidate_dir_main(folder: PathBuf, name: Seq<char>) -> PathBuf { p_with_extension(p_join(p_join(folder, name), "main"@), "koto"@) }
pub open spec fn resolves_to(name: Seq<char>, current: Option<&PathBuf>) -> Option<PathBuf> {
    match search_folder(current) {
        Some(folder) =>
            if fs_exists(candidate_file(folder, name)) { Some(candidate_file(folder, name)) }
            else if fs_exists(candidate_dir_main(folder, name)) { fs_canonical(candidate_dir_main(folder, name)) }
            else { None },
        None => None,
    }
}

// the loader's cache of compiled modules (HashMap<PathBuf, Ptr<Chunk>, FxHasher>)
#[verifier::external_body] pub struct ChunkMap { _p: u8 }
impl ChunkMap {
    pub uninterp spec fn view(&self) -> Map<PathBuf, Ptr<Chunk>>;
    #[verifier::external_body]
    pub fn get(&self, p: &PathBuf) -> (r: Option<&Ptr<Chunk>>)
        ensures r == (if self@.contains_key(*p) { Some(&self@[*p]) } else { None }) { unimplemented!() }
    #[verifier::external_body]
    pub fn insert(&mut self, p: PathBuf, c: Ptr<Chunk>) ensures final(self)@ == old(self)@.insert(p, c) { unimplemented!() }
}
pub struct ModuleLoader { pub chunks: ChunkMap }
"""

LOADER_SPECS = r"""
    // assumed contract of compile_script (defers to Compiler::compile): does not touch the cache
    #[verifier::external_body]
    fn compile_script(&mut self, script: &Script, script_path: Option<KString>, settings: CompilerSettings) -> (r: Result<Ptr<Chunk>, ModuleLoaderError>)
        ensures final(self).chunks@ == old(self).chunks@ { unimplemented!() }
"""

MAP_ERR = r"\.map_err\(\|error\| \{\s*ModuleLoaderErrorKind::FailedToCanonicalizePath \{\s*path: [a-z_.()]+,\s*error,\s*\}\s*(?:\.into\(\)\s*)?\}\)"

UNIT = Unit(
    name="V-modloader",
    prelude=PRELUDE,
    items=[
        Fn(F, "fn find_module", props=P,
           subst=[
               (r"canonicalize\(([&A-Za-z_0-9]+)\)" + MAP_ERR, r"canonicalize_or_err(\1)", None, "re"),
               ("std::env::current_dir().map_err(ModuleLoaderErrorKind::FailedToGetCurrentDir)?", "current_dir_or_err()?", 1),
               (r"let path = PathBuf::from\(path\);\s*return Err\(ModuleLoaderErrorKind::FailedToGetPathParent\(path\)\.into\(\)\);", "return err_no_parent(path);", 1, "re"),
               ("Err(ModuleLoaderErrorKind::UnableToFindModule(module_name.into()).into())", "err_unable_to_find(module_name)", 1),
           ],
           spec=r"""
    ensures
        // C18: `name.koto` next to the importing file wins over `name/main.koto`; nothing else is tried
        r matches Ok(p) ==> resolves_to(module_name@, current_script_path) == Some(p),                      // @resolution_order
        r is Err ==> resolves_to(module_name@, current_script_path) is None,                                // @error_only_when_nothing_resolves
"""),
        Type(F, "struct CompileModuleResult"),
        Raw(LOADER_SPECS, impl_of="impl ModuleLoader"),
        Fn(F, "impl ModuleLoader :: fn compile_module", props=P,
           subst=[
               (r"std::fs::read_to_string\(&module_path\)\.map_err\(\|error\| \{\s*ModuleLoaderErrorKind::FailedToReadScript \{\s*path: module_path\.clone\(\),\s*error,\s*\}\s*\}\)\?", "read_script_or_err(&module_path)?", 1, "re"),
           ],
           spec=r"""
    ensures
        // the module is the one find_module resolves the name to
        r matches Ok(c) ==> resolves_to(module_name@, current_script_path) == Some(c.path),                // @compiles_the_resolved_module
        // C18 run-once depends on this flag being exact: a module is compiled once per loader
        r matches Ok(c) ==> c.loaded_from_cache == old(self).chunks@.contains_key(c.path),                   // @loaded_from_cache_is_exact
        r matches Ok(c) ==> (c.loaded_from_cache ==> c.chunk == old(self).chunks@[c.path] && final(self).chunks@ == old(self).chunks@),   // @cached_chunk_reused
        r matches Ok(c) ==> (!c.loaded_from_cache ==> final(self).chunks@ == old(self).chunks@.insert(c.path, c.chunk)),   // @new_chunk_cached_under_its_path
        // a module that cannot be found, read or compiled is not cached
        r is Err ==> final(self).chunks@ == old(self).chunks@,                                              // @failure_caches_nothing
"""),
    ],
    epilogue=r"""
// ---- vacuity guard: MUST FAIL
proof fn canary_modloader(name: Seq<char>, cur: Option<&PathBuf>, p: PathBuf) requires resolves_to(name, cur) == Some(p) ensures false {}
""",
    canaries=("canary_modloader",),
)
