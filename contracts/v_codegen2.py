"""V-codegen2: further functions of the code generator in the world of V-codegen (crates/bytecode/src/compiler.rs):
loading an identifier.

Contracts only. Function bodies come from /repo at run time.
"""
from engine.unit import Fn, Raw, Type, Unit
from contracts import v_codegen as cg

F = cg.F
P01 = ("C01", "C06")

STUBS2 = r"""
    // ASSUMED contracts (as for compile_node): compile_assign / compile_multi_assign / compile_make_map in export mode
    // ASSUMED: assigning to a map pattern (`{a, b} = m`), as any compile_* function
    #[verifier::external_body]
    fn compile_assign_to_map(&mut self, target: AstIndex, expression: AstIndex, export_assignment: bool, ctx: CompileNodeContext) -> (r: Result<CompileNodeOutput>)
        requires old(self).g@.spans.len() > 0,
        ensures r matches Ok(out) ==> Self::sub_post(old(self), final(self), ctx.result_register, out) && (ctx.result_register is None ==> out.register is None)
            && (ctx.result_register matches ResultRegister::Fixed(x) ==> out.register == Some(x)) && (ctx.result_register is Any ==> out.register is Some),
    { unimplemented!() }
    // ASSUMED: the registers of the locals an assignment target names (reserved, not yet visible); emits nothing
    #[verifier::external_body]
    fn local_registers_for_assign_target(&mut self, target: AstIndex, ctx: CompileNodeContext) -> (r: Result<Vec<u8>>)
        ensures final(self).bytes == old(self).bytes, final(self).g == old(self).g, final(self).settings == old(self).settings,
            r matches Ok(v) ==> (ctx.ast.at(target).node is Id ==> v@.len() == 1) && (ctx.ast.at(target).node is Chain || ctx.ast.at(target).node is Meta || ctx.ast.at(target).node is Ignored ==> v@.len() == 0),
    { unimplemented!() }
    // ASSUMED: a reserved local becomes visible; instructions that were waiting for it (a function capturing itself) are emitted
    #[verifier::external_body]
    fn commit_local_register(&mut self, register: u8) -> (r: Result<u8>)
        ensures r is Ok ==> prefix(old(self).g@.trace, final(self).g@.trace) && final(self).len() >= old(self).len() && final(self).same_frame_state(old(self)) && final(self).g@.patched == old(self).g@.patched,
    { unimplemented!() }
    // `*meta_id` (MetaKeyId is a Copy enum; opaque here), rule R5
    #[verifier::external_body]
    fn meta_key_id_copy(m: &MetaKeyId) -> (r: MetaKeyId) ensures r == *m { unimplemented!() }
    // ASSUMED: `@meta = value` in an export: appends code, nothing else
    #[verifier::external_body]
    fn compile_meta_export(&mut self, meta_id: MetaKeyId, name: Option<ConstantIndex>, value_register: u8) -> (r: Result<()>)
        requires old(self).g@.spans.len() > 0,
        ensures r is Ok ==> prefix(old(self).g@.trace, final(self).g@.trace) && final(self).len() >= old(self).len() && final(self).same_frame_state(old(self)) && final(self).g@.patched == old(self).g@.patched,
    { unimplemented!() }
    #[verifier::external_body]
    fn compile_multi_assign(&mut self, targets: &AstVec<AstIndex>, expression: AstIndex, export_assignment: bool, ctx: CompileNodeContext) -> (r: Result<CompileNodeOutput>)
        requires old(self).g@.spans.len() > 0,
        ensures r matches Ok(out) ==> Self::sub_post(old(self), final(self), ctx.result_register, out) && (ctx.result_register is None ==> out.register is None),
    { unimplemented!() }
    #[verifier::external_body]
    fn compile_make_map(&mut self, entries: &AstVec<AstIndex>, export_entries: bool, ctx: CompileNodeContext) -> (r: Result<CompileNodeOutput>)
        requires old(self).g@.spans.len() > 0,
        ensures r matches Ok(out) ==> Self::sub_post(old(self), final(self), ctx.result_register, out) && (ctx.result_register is None ==> out.register is None),
    { unimplemented!() }
"""

KEEP_FNS = {"none", "with_assigned", "with_temporary", "with_register", "with_any_register", "with_fixed_register", "node_with_span", "node",
            "assign_result_register", "compile_load_non_local", "compile_constant_op", "compile_for_side_effects", "compile_assert_type"}

def _base_items():
    out = []
    for it in cg.UNIT.items:
        if isinstance(it, Type):
            out.append(it)
        elif isinstance(it, Raw) and it.text is cg.HELPERS:
            out.append(it)
        elif isinstance(it, Fn) and it.path[-1].replace("fn ", "").strip() in KEEP_FNS and not getattr(it, "rename", None):
            out.append(it)
    return out

UNIT = Unit(
    name="V-codegen2",
    prelude=cg.PRELUDE,
    items=_base_items() + [
        Fn(F, "impl Compiler :: fn compile_load_id", props=P01,
           subst=[(r"self\.frame\(\)\.get_local_assigned_register\(", "self.frame_local_assigned_register(", None, "re")],
           spec=r"""
    requires old(self).g@.spans.len() > 0,
    ensures
        // C01: a local that has been assigned is used where it is (copied when a particular register is asked for);
        // any other name is loaded by name at run time - also when the value is not wanted, so that an unknown name
        // is still reported
        r matches Ok(out) ==> (match old(self).local_register_of(id) {
            Some(l) => (match ctx.result_register {
                ResultRegister::None => final(self).g@.trace == old(self).g@.trace && out.register is None,
                ResultRegister::Any => final(self).g@.trace == old(self).g@.trace && out.register == Some(l),
                ResultRegister::Fixed(x) => final(self).g@.trace.len() == old(self).g@.trace.len() + 1 && prefix(old(self).g@.trace, final(self).g@.trace)
                    && final(self).g@.trace.last().is_op(Op::Copy, seq![x, l]) && out.register == Some(x),
            }) && !out.is_temporary,
            None => ({
                let t = final(self).g@.trace; let n = old(self).g@.trace.len() as int;
                t.len() == n + 2 && prefix(old(self).g@.trace, t) && (t[n] matches Ev::Op { op, args, .. } && op == Op::LoadNonLocal && args.len() == 1
                    && (out.register matches Some(x) ==> args[0] == x)) && t[n + 1].is_var(id.0) }),
        }),                                                                                                                               // @local_in_place_other_names_loaded_by_name
        // the result-register protocol: the caller is told about a temporary exactly when it asked for Any (and the
        // name is not a local), and nothing else stays on the register stack
        r matches Ok(out) ==> final(self).g@.regs == old(self).g@.regs + (if out.is_temporary { 1int } else { 0 }),                       // @temporaries_released
        r matches Ok(out) ==> (out.is_temporary ==> ctx.result_register is Any),
        r matches Ok(out) ==> (ctx.result_register is None ==> out.register is None),
        r matches Ok(out) ==> (ctx.result_register matches ResultRegister::Fixed(x) ==> out.register == Some(x) && !out.is_temporary),    // @result_request_is_honoured
        r is Ok ==> final(self).same_frame_state(old(self)) || final(self).g@.regs == old(self).g@.regs + 1,
        r is Ok ==> final(self).g@.patched == old(self).g@.patched && final(self).g@.spans == old(self).g@.spans && final(self).g@.loops == old(self).g@.loops,   // @frame_state_kept
"""),
        # ---- C01: assignment
        Fn(F, "impl Compiler :: fn force_export_assignment", props=P01, subst=[("self.frame_stack.len() == 1", "self.at_top_level()", 1)],
           spec="    ensures r == (self.settings.export_top_level_ids && self.top_level()),\n"),
        Fn(F, "impl Compiler :: fn compile_assign", props=("C01", "C12", "C06"),
           subst=[cg.ERR, ("self.compile_meta_export(*meta_id, *name, value_register)?;", "self.compile_meta_export(Self::meta_key_id_copy(meta_id), *name, value_register)?;", 1),
                  (r"let value_result_register = match local_assign_register\.first\(\) \{\s*Some\(local\) => ResultRegister::Fixed\(\*local\),\s*None => ResultRegister::Any,\s*\};",
                           "let value_result_register = if local_assign_register.len() > 0 { ResultRegister::Fixed(local_assign_register[0]) } else { ResultRegister::Any };", 1, "re")],
           before=[(("self.pop_span();", "Ok(result)"), "assert(self.g@.spans.drop_last() =~= old(self).g@.spans);", -1)],
           spec=r"""
    requires old(self).g@.spans.len() > 0,
    ensures
        // C01: the value is evaluated FIRST - straight into the target's register when the target is a local, else into a
        // register of its own - and only then is the target dealt with
        r matches Ok(out) ==> (!(ctx.ast.at(target).node is Map || ctx.ast.at(target).node is MapPattern) ==> ({
            let t = final(self).g@.trace; let n = old(self).g@.trace.len() as int;
            t.len() >= n + 1 && prefix(old(self).g@.trace, t) && (t[n] matches Ev::Node { node, want, .. } && node == expression
                && (ctx.ast.at(target).node is Id ==> want is Fixed) && (!(ctx.ast.at(target).node is Id) ==> want is Any)) })),                // @value_first_into_the_targets_register
        // `x.y = v`, `x[i] = v`: the chain gets the value (no operator) and is compiled for its effect only
        r matches Ok(out) ==> (ctx.ast.at(target).node matches Node::Chain(c) ==> ({
            let t = final(self).g@.trace; let n = old(self).g@.trace.len() as int;
            t.len() >= n + 2 && (t[n + 1] matches Ev::ChainAssign { chain, rhs, rhs_op, want, .. } && chain == c && rhs == Some(t[n].reg()) && rhs_op is None && want is None) })),   // @chain_target_gets_the_value
        // the value of the assignment expression is the assigned value, where the caller wants it
        r matches Ok(out) ==> (!(ctx.ast.at(target).node is Map || ctx.ast.at(target).node is MapPattern) ==> (ctx.result_register matches ResultRegister::Fixed(x) ==> ({
            let t = final(self).g@.trace; let n = old(self).g@.trace.len() as int;
            out.register == Some(x) && (x != t[n].reg() ==> t.last().is_op(Op::Copy, seq![x, t[n].reg()])) }))),                             // @assigned_value_copied_to_the_result
        // the result-register protocol (finding F42: the temporary of the value stayed)
        r matches Ok(out) ==> final(self).g@.regs == old(self).g@.regs + (if out.is_temporary { 1int } else { 0 }),                       // @temporaries_released
        r matches Ok(out) ==> (out.is_temporary ==> ctx.result_register is Any),
        r matches Ok(out) ==> (ctx.result_register is None ==> out.register is None),
        r matches Ok(out) ==> (ctx.result_register matches ResultRegister::Fixed(x) ==> out.register == Some(x) && !out.is_temporary),    // @result_request_is_honoured
        // C12: the target's span is pushed for the instructions that deal with it and popped again
        r is Ok ==> final(self).g@.spans == old(self).g@.spans,                                                                           // @span_stack_balanced
"""),
        # ---- export
        Raw(STUBS2, impl_of="impl Compiler"),
        Fn(F, "impl<'a> CompileNodeContext<'a> :: fn with_fixed_register_or_any", props=P01,
           spec="    ensures r.ast == self.ast && r.result_register == (if self.result_register is Fixed { self.result_register } else { ResultRegister::Any }),\n"),
        Fn(F, "impl Compiler :: fn compile_export_iterable", props=("C18", "C01", "C06"),
           spec=r"""
    requires old(self).g@.spans.len() > 0,
    ensures
        // `export <expression>`: the value is iterated, every entry it yields is exported, and the loop is left when the
        // iterator is exhausted (the IterNextTemp jump lands right after the backward jump)
        r is Ok ==> ({
            let t = final(self).g@.trace; let n = old(self).g@.trace.len() as int;
            &&& t.len() == n + 5 && prefix(old(self).g@.trace, t)
            &&& (t[n] matches Ev::Op { op, args, .. } && op == Op::MakeIterator && args.len() == 2 && args[1] == iterable_register
                && (t[n + 1] matches Ev::Op { op: o2, args: a2, .. } && o2 == Op::IterNextTemp && a2.len() == 2 && a2[1] == args[0]
                    && t[n + 2] is Hole && t[n + 3].is_op(Op::ExportEntry, seq![a2[0]])
                    && (t[n + 4] matches Ev::Back { op: o4, target, .. } && o4 == Op::JumpBack && target == t[n + 1].pos())))
            &&& final(self).g@.patched.contains_key(t[n + 2].pos()) && final(self).g@.patched[t[n + 2].pos()] == final(self).len() }),       // @every_entry_exported_loop_left_when_exhausted
        r is Ok ==> final(self).g@.regs == old(self).g@.regs && final(self).len() >= old(self).len(),                                     // @temporaries_released
        r is Ok ==> Self::frame_post(old(self), final(self), old(self).len()),
"""),
        Fn(F, "impl Compiler :: fn compile_export", props=("C18", "C01", "C06"),
           spec=r"""
    requires old(self).g@.spans.len() > 0,
    ensures
        // the result-register protocol, whatever is exported
        r matches Ok(out) ==> final(self).g@.regs == old(self).g@.regs + (if out.is_temporary { 1int } else { 0 }),                       // @temporaries_released
        r matches Ok(out) ==> (out.is_temporary ==> ctx.result_register is Any),
        r matches Ok(out) ==> (ctx.result_register is None ==> out.register is None),                                                     // @result_request_is_honoured
        // anything but an assignment or a map literal is evaluated (into the register asked for, else one of its own) and
        // its entries exported
        r matches Ok(out) ==> (!(ctx.ast.at(expression).node is Assign || ctx.ast.at(expression).node is MultiAssign || ctx.ast.at(expression).node is Map) ==> ({
            let t = final(self).g@.trace; let n = old(self).g@.trace.len() as int;
            t.len() == n + 6 && prefix(old(self).g@.trace, t)
                && t[n].is_node(expression, if ctx.result_register is Fixed { ctx.result_register } else { ResultRegister::Any })
                && (t[n + 1] matches Ev::Op { op, args, .. } && op == Op::MakeIterator && args.len() == 2 && args[1] == t[n].reg()) })),          // @expression_evaluated_then_its_entries_exported
"""),
        # ---- C01: break / continue (arms of compile_node, rule R13)
        Type("crates/bytecode/src/frame.rs", "struct Loop"),
        Fn(F, "impl Compiler :: fn compile_node", props=P01, rename="compile_node__break_arm",
           fragment=dict(start="let loop_result_register = loop_info.result_register;\n\n                    match (loop_result_register, expression) {", to_block_end=True, prologue="use Op::*;", wrap=("Ok({", "})"),
                         sig="fn compile_node(&mut self, loop_info: &Loop, expression: &Option<AstIndex>, ctx: CompileNodeContext) -> Result<CompileNodeOutput>"),
           subst=[(r"self\.error\(ErrorKind::\w+\)", "self.error_any()", None, "re")],
           spec=r"""
    requires old(self).g@.spans.len() > 0,
        // the innermost loop of the frame (`self.frame().current_loop()` gave Some(loop_info))
        old(self).g@.loops.len() > 0, loop_info.result_register == old(self).g@.loops.last().result,
    ensures
        // C01: `break value` puts the value into the LOOP's result register (a plain `break` makes the loop's value
        // null), then leaves the loop: a jump that is registered with the innermost loop, to be patched to its end
        r is Ok ==> ({
            let t = final(self).g@.trace; let n = old(self).g@.trace.len() as int;
            let k = if loop_info.result_register is Some { n + 1 } else { n };
            &&& t.len() == k + 2 && prefix(old(self).g@.trace, t)
            &&& (match (loop_info.result_register, *expression) {
                    (Some(lr), Some(e)) => t[n].is_node(e, ResultRegister::Fixed(lr)),
                    (Some(lr), None) => t[n].is_op(Op::SetNull, seq![lr]),
                    (None, Some(_)) => false,
                    (None, None) => true,
                })
            &&& t[k].is_op(Op::Jump, Seq::empty()) && t[k + 1] is Hole
            &&& final(self).g@.loops.len() == old(self).g@.loops.len() && final(self).g@.loops.last().holes.contains(t[k + 1].pos())
            &&& final(self).g@.loops.last().start == old(self).g@.loops.last().start && final(self).g@.loops.last().result == old(self).g@.loops.last().result
            &&& final(self).g@.loops.drop_last() == old(self).g@.loops.drop_last() }),                                                      // @value_into_the_loops_register_then_leave_the_loop
        // a value for a loop whose value is not used is an error
        (loop_info.result_register is None && *expression is Some) ==> r is Err,                                                          // @unassigned_break_value_is_an_error
        // the break expression itself has no value
        r matches Ok(out) ==> out.register is None && !out.is_temporary && final(self).g@.regs == old(self).g@.regs && final(self).g@.spans == old(self).g@.spans,   // @no_value_no_registers
"""),
        Fn(F, "impl Compiler :: fn compile_node", props=P01, rename="compile_node__continue_arm",
           fragment=dict(start="let loop_result_register = loop_info.result_register;\n                    let loop_start_ip = loop_info.start_ip;", to_block_end=True, prologue="use Op::*;", wrap=("Ok({", "})"),
                         sig="fn compile_node(&mut self, loop_info: &Loop, ctx: CompileNodeContext) -> Result<CompileNodeOutput>"),
           spec=r"""
    requires old(self).g@.spans.len() > 0,
    ensures
        // C01: `continue` makes the loop's value null (when it has one) and jumps back to the start of the loop
        r is Ok ==> ({
            let t = final(self).g@.trace; let n = old(self).g@.trace.len() as int;
            let k = if loop_info.result_register is Some { n + 1 } else { n };
            &&& t.len() == k + 1 && prefix(old(self).g@.trace, t)
            &&& (loop_info.result_register matches Some(lr) ==> t[n].is_op(Op::SetNull, seq![lr]))
            &&& (t[k] matches Ev::Back { op, target, .. } && op == Op::JumpBack && target == loop_info.start_ip as int) }),                   // @null_then_back_to_the_start_of_the_loop
        r matches Ok(out) ==> out.register is None && !out.is_temporary && final(self).same_frame_state(old(self)) && final(self).g@.patched == old(self).g@.patched,   // @no_value_no_registers
"""),
        # ---- C01: range literals (arms of compile_node, rule R13)
        Fn(F, "impl Compiler :: fn compile_node", props=P01, rename="compile_node__range_arm",
           fragment=dict(start="let result = self.assign_result_register(ctx)?;\n\n                if let Some(result_register) = result.register {\n                    let start_result = self.compile_node(*start, ctx.with_any_register())?;", to_block_end=True, prologue="use Op::*;", wrap=("Ok({", "})"),
                         sig="fn compile_node(&mut self, start: &AstIndex, end: &AstIndex, inclusive: &bool, ctx: CompileNodeContext) -> Result<CompileNodeOutput>"),
           before=[("result\n                } else {", "proof { assert(Self::frame_post(old(self), self, old(self).len())); }")],
           spec=r"""
    requires old(self).g@.spans.len() > 0,
    ensures
        // C01: `a..b` / `a..=b`: the start, then the end, each into a register of its own, then ONE instruction that
        // builds the range (inclusive or not) into the result register; without a result request both bounds are still
        // evaluated, in order
        r matches Ok(out) ==> ({
            let t = final(self).g@.trace; let n = old(self).g@.trace.len() as int;
            prefix(old(self).g@.trace, t) && (if ctx.result_register is None {
                t.len() == n + 2 && t[n].is_node(*start, ResultRegister::None) && t[n + 1].is_node(*end, ResultRegister::None)
            } else {
                t.len() == n + 3 && t[n].is_node(*start, ResultRegister::Any) && t[n + 1].is_node(*end, ResultRegister::Any)
                    && (out.register matches Some(x) && t[n + 2].is_op(if *inclusive { Op::RangeInclusive } else { Op::Range }, seq![x, t[n].reg(), t[n + 1].reg()]))
            }) }),                                                                                                                        // @start_then_end_then_the_range
        r matches Ok(out) ==> final(self).g@.regs == old(self).g@.regs + (if out.is_temporary { 1int } else { 0 }),                       // @temporaries_released
        r matches Ok(out) ==> (out.is_temporary ==> ctx.result_register is Any),
        r matches Ok(out) ==> (ctx.result_register matches ResultRegister::Fixed(x) ==> out.register == Some(x) && !out.is_temporary),    // @result_request_is_honoured
        r is Ok ==> Self::frame_post(old(self), final(self), old(self).len()),
"""),
    ],
    epilogue=r"""
// ---- vacuity guard: MUST FAIL
proof fn canary_codegen2(c: Compiler, id: ConstantIndex) requires c.local_register_of(id) is Some ensures false {}
""",
    canaries=("canary_codegen2",),
)
