"""V-codegen2: further functions of the code generator in the world of V-codegen (crates/bytecode/src/compiler.rs):
loading an identifier.

Contracts only. Function bodies come from /repo at run time.
"""
from engine.unit import Fn, Raw, Type, Unit
from contracts import v_codegen as cg

F = cg.F
P01 = ("C01", "C06")

KEEP_FNS = {"none", "with_assigned", "with_temporary", "with_register", "with_any_register", "with_fixed_register", "node_with_span", "node",
            "assign_result_register", "compile_load_non_local", "compile_constant_op"}

def _base_items():
    out = []
    for it in cg.UNIT.items:
        if isinstance(it, Type):
            out.append(it)
        elif isinstance(it, Raw) and it.text is cg.HELPERS:
            out.append(it)
        elif isinstance(it, Fn) and it.path[-1].replace("fn ", "").strip() in KEEP_FNS and not getattr(it, "rename", None):
            out.append(it)
    return out

UNIT = Unit(
    name="V-codegen2",
    prelude=cg.PRELUDE,
    items=_base_items() + [
        Fn(F, "impl Compiler :: fn compile_load_id", props=P01,
           subst=[(r"self\.frame\(\)\.get_local_assigned_register\(", "self.frame_local_assigned_register(", None, "re")],
           spec=r"""
    requires old(self).g@.spans.len() > 0,
    ensures
        // C01: a local that has been assigned is used where it is (copied when a particular register is asked for);
        // any other name is loaded by name at run time - also when the value is not wanted, so that an unknown name
        // is still reported
        r matches Ok(out) ==> (match old(self).local_register_of(id) {
            Some(l) => (match ctx.result_register {
                ResultRegister::None => final(self).g@.trace == old(self).g@.trace && out.register is None,
                ResultRegister::Any => final(self).g@.trace == old(self).g@.trace && out.register == Some(l),
                ResultRegister::Fixed(x) => final(self).g@.trace.len() == old(self).g@.trace.len() + 1 && prefix(old(self).g@.trace, final(self).g@.trace)
                    && final(self).g@.trace.last().is_op(Op::Copy, seq![x, l]) && out.register == Some(x),
            }) && !out.is_temporary,
            None => ({
                let t = final(self).g@.trace; let n = old(self).g@.trace.len() as int;
                t.len() == n + 2 && prefix(old(self).g@.trace, t) && (t[n] matches Ev::Op { op, args, .. } && op == Op::LoadNonLocal && args.len() == 1
                    && (out.register matches Some(x) ==> args[0] == x)) && t[n + 1].is_var(id.0) }),
        }),                                                                                                                               // @local_in_place_other_names_loaded_by_name
        // the result-register protocol: the caller is told about a temporary exactly when it asked for Any (and the
        // name is not a local), and nothing else stays on the register stack
        r matches Ok(out) ==> final(self).g@.regs == old(self).g@.regs + (if out.is_temporary { 1int } else { 0 }),                       // @temporaries_released
        r matches Ok(out) ==> (out.is_temporary ==> ctx.result_register is Any),
        r matches Ok(out) ==> (ctx.result_register is None ==> out.register is None),
        r matches Ok(out) ==> (ctx.result_register matches ResultRegister::Fixed(x) ==> out.register == Some(x) && !out.is_temporary),    // @result_request_is_honoured
        r is Ok ==> final(self).same_frame_state(old(self)) || final(self).g@.regs == old(self).g@.regs + 1,
        r is Ok ==> final(self).g@.patched == old(self).g@.patched && final(self).g@.spans == old(self).g@.spans && final(self).g@.loops == old(self).g@.loops,   // @frame_state_kept
"""),
    ],
    epilogue=r"""
// ---- vacuity guard: MUST FAIL
proof fn canary_codegen2(c: Compiler, id: ConstantIndex) requires c.local_register_of(id) is Some ensures false {}
""",
    canaries=("canary_codegen2",),
)
