"""V-indexassign: `container[index] = value` (crates/runtime/src/vm.rs run_index_assign) over the REAL
KValue enum declaration: C14's "maps keep insertion order through ... index assignment", C06's "no
panic", C17's "@index_assign is called with the documented operands".

IndexMap (third party) is an assumed contract taken from its documentation: an ordered sequence of
entries with unique keys; swap_remove_index / shift_remove_index / insert / swap_indices as documented,
including that swap_indices PANICS on an index out of bounds (a precondition here). What is proved is
what run_index_assign does with them: replacing entry i by (key, value) leaves every other entry where
it was.

Contracts only. Function bodies come from /repo at run time.
"""
from engine.unit import Fn, Raw, Type, Unit

VM = "crates/runtime/src/vm.rs"
VAL = "crates/runtime/src/types/value.rs"
P = ("C14", "C06", "C17")

PRELUDE = r"""
global size_of usize == 8;   // assumption: 64-bit target
use core::ops::Range;
// ---- shims (assumptions): the payload types of KValue
#[verifier::external_body] pub struct KNumber { _p: u8 }
#[verifier::external_body] pub struct KRange { _p: u8 }
#[verifier::external_body] pub struct KList { _p: u8 }
#[verifier::external_body] pub struct KTuple { _p: u8 }
#[verifier::external_body] pub struct KMap { _p: u8 }
#[verifier::external_body] pub struct KString { _p: u8 }
#[verifier::external_body] pub struct KFunction { _p: u8 }
#[verifier::external_body] pub struct KNativeFunction { _p: u8 }
#[verifier::external_body] pub struct KIterator { _p: u8 }
#[verifier::external_body] pub struct KObject { _p: u8 }
#[verifier::external_body] pub struct ObjectRefMut { _p: u8 }
#[verifier::external_body] pub struct RegisterSlice { _p: u8 }
#[verifier::external_body] pub struct Error { _p: u8 }
pub type Result<T> = core::result::Result<T, Error>;
#[verifier::external_body] pub struct ValueKey { _p: u8 }
#[verifier::external_body] pub struct MetaKey { _p: u8 }

// numbers as indices (K-number's territory): `usize::from(n)` saturates, `*n >= 0.0`
impl KNumber {
    pub uninterp spec fn as_usize(&self) -> usize;
    pub uninterp spec fn non_negative(&self) -> bool;
}
#[verifier::external_body] pub fn number_to_usize(n: &KNumber) -> (r: usize) ensures r == n.as_usize() { unimplemented!() }
#[verifier::external_body] pub fn number_non_negative(n: &KNumber) -> (r: bool) ensures r == n.non_negative() { unimplemented!() }
// KRange::indices: PROVED in V-range (indices_in_bounds)
impl KRange {
    #[verifier::external_body]
    pub fn indices(&self, max_index: usize) -> (r: Range<usize>) ensures r.start <= r.end <= max_index { unimplemented!() }
}
#[verifier::external_body] pub fn runtime_error_invalid_index<T>(n: &KNumber) -> (r: Result<T>) ensures r is Err { unimplemented!() }
#[verifier::external_body] pub fn runtime_error_key_exists<T>() -> (r: Result<T>) ensures r is Err { unimplemented!() }

// ---- list data behind its RefCell guard
#[verifier::external_body] pub struct ListData { _p: u8 }
impl ListData {
    pub uninterp spec fn view(&self) -> Seq<KValue>;
    #[verifier::external_body] pub fn len(&self) -> (r: usize) ensures r == self@.len() { unimplemented!() }
    // `list_data[i] = v` (IndexMut on Vec: panics out of bounds), rule R5
    #[verifier::external_body]
    pub fn set(&mut self, i: usize, v: KValue) requires i < old(self)@.len() ensures final(self)@ == old(self)@.update(i as int, v) { unimplemented!() }
}
impl KList {
    pub uninterp spec fn elems(&self) -> Seq<KValue>;
    #[verifier::external_body] pub fn data_mut(&self) -> (r: ListData) ensures r@ == self.elems() { unimplemented!() }
}
impl KTuple {
    pub uninterp spec fn elems(&self) -> Seq<KValue>;
    #[verifier::external_body] pub fn len(&self) -> (r: usize) ensures r == self.elems().len() { unimplemented!() }
    // `t[i].clone()` (Index on the tuple's slice: panics out of bounds), rule R5
    #[verifier::external_body]
    pub fn get_cloned(&self, i: usize) -> (r: KValue) requires i < self.elems().len() ensures r == self.elems()[i as int] { unimplemented!() }
}

// ---- map data (indexmap::IndexMap<ValueKey, KValue>) behind its RefCell guard: ASSUMED from the
// indexmap documentation. `same_key` is ValueKey's `==` (V-valuekey), an equivalence
pub uninterp spec fn same_key(a: ValueKey, b: ValueKey) -> bool;
pub uninterp spec fn key_of(v: KValue) -> Option<ValueKey>;
impl ValueKey {
    #[verifier::external_body]
    pub fn try_from_value(v: KValue) -> (r: Result<ValueKey>) ensures r matches Ok(k) ==> key_of(v) == Some(k), r is Err ==> key_of(v) is None { unimplemented!() }
}
// ValueKey's `==` is an equivalence relation (impl Eq for ValueKey): ASSUMED
#[verifier::external_body]
pub proof fn axiom_same_key_equivalence(a: ValueKey, b: ValueKey, c: ValueKey)
    ensures same_key(a, a), same_key(a, b) == same_key(b, a), same_key(a, b) && same_key(b, c) ==> same_key(a, c) {}
pub open spec fn position(s: Seq<(ValueKey, KValue)>, k: ValueKey, j: int) -> bool { 0 <= j < s.len() && same_key(s[j].0, k) }
pub open spec fn absent(s: Seq<(ValueKey, KValue)>, k: ValueKey) -> bool { forall|j: int| 0 <= j < s.len() ==> !same_key(#[trigger] s[j].0, k) }
#[verifier::external_body] pub struct MapData { _p: u8 }
impl MapData {
    pub uninterp spec fn view(&self) -> Seq<(ValueKey, KValue)>;
    #[verifier::external_body] pub fn len(&self) -> (r: usize) ensures r == self@.len() { unimplemented!() }
    // "Remove the key-value pair by index ... the last element of the map is swapped into its place"
    #[verifier::external_body]
    pub fn swap_remove_index(&mut self, i: usize) -> (r: Option<(ValueKey, KValue)>)
        ensures i < old(self)@.len() ==> final(self)@ == old(self)@.update(i as int, old(self)@.last()).drop_last() && r == Some(old(self)@[i as int]),
                i >= old(self)@.len() ==> final(self)@ == old(self)@ && r is None { unimplemented!() }
    // "... shifting all of the elements that follow it, preserving their relative order"
    #[verifier::external_body]
    pub fn shift_remove_index(&mut self, i: usize) -> (r: Option<(ValueKey, KValue)>)
        ensures i < old(self)@.len() ==> final(self)@ == old(self)@.remove(i as int) && r == Some(old(self)@[i as int]),
                i >= old(self)@.len() ==> final(self)@ == old(self)@ && r is None { unimplemented!() }
    // "If an equivalent key already exists in the map: the key remains and retains in its place in
    // the order, its corresponding value is updated ... If no equivalent key existed: the new
    // key-value pair is inserted, last in order"
    #[verifier::external_body]
    pub fn insert(&mut self, k: ValueKey, v: KValue) -> (r: Option<KValue>)
        ensures absent(old(self)@, k) ==> final(self)@ == old(self)@.push((k, v)) && r is None,
                forall|j: int| position(old(self)@, k, j) ==> final(self)@ == old(self)@.update(j, (old(self)@[j].0, v)) && r == Some(old(self)@[j].1) { unimplemented!() }
    // "Swaps the position of two key-value pairs in the map. ***Panics*** if a or b are out of bounds."
    #[verifier::external_body]
    pub fn swap_indices(&mut self, a: usize, b: usize)
        requires a < old(self)@.len(), b < old(self)@.len(),                                                 // @swap_indices_in_bounds
        ensures final(self)@ == old(self)@.update(a as int, old(self)@[b as int]).update(b as int, old(self)@[a as int]) { unimplemented!() }
    #[verifier::external_body]
    pub fn get_index_of(&self, k: &ValueKey) -> (r: Option<usize>)
        ensures r matches Some(j) ==> position(self@, *k, j as int), r is None ==> absent(self@, *k) { unimplemented!() }
}
impl KMap {
    pub uninterp spec fn entries(&self) -> Seq<(ValueKey, KValue)>;
    pub uninterp spec fn index_assign_op(&self) -> Option<KValue>;
    // KMap invariant (IndexMap): keys are unique
    pub open spec fn unique_keys(s: Seq<(ValueKey, KValue)>) -> bool {
        forall|i: int, j: int| 0 <= i < s.len() && 0 <= j < s.len() && i != j ==> !same_key(#[trigger] s[i].0, #[trigger] s[j].0)
    }
    #[verifier::external_body]
    pub fn data_mut(&self) -> (r: MapData) ensures r@ == self.entries(), Self::unique_keys(r@) { unimplemented!() }
    #[verifier::external_body]
    pub fn contains_meta_key(&self, k: &MetaKey) -> (r: bool) ensures r == self.index_assign_op() is Some { unimplemented!() }
    #[verifier::external_body]
    pub fn get_meta_value(&self, k: &MetaKey) -> (r: Option<KValue>) ensures r == self.index_assign_op() { unimplemented!() }
}
// `&WriteOp::IndexAssign.into()` (rule R5)
#[verifier::external_body] pub fn index_assign_key() -> MetaKey { unimplemented!() }
impl KObject { #[verifier::external_body] pub fn try_borrow_mut(&self) -> Result<ObjectRefMut> { unimplemented!() } }
impl ObjectRefMut { #[verifier::external_body] pub fn index_assign(&self, index: &KValue, value: &KValue) -> Result<()> { unimplemented!() } }
#[verifier::external_body]
pub fn unexpected_type<T>(expected: &str, unexpected: &KValue) -> (r: Result<T>) ensures r is Err { unimplemented!() }

pub struct KotoVm { pub pending: Ghost<Option<(KValue, KValue, KValue, KValue)>> }
"""

VM_SPECS = r"""
    pub uninterp spec fn reg(&self, r: u8) -> KValue;
    #[verifier::external_body] fn get_register(&self, r: u8) -> (v: &KValue) ensures *v == self.reg(r) { unimplemented!() }
    #[verifier::external_body] fn clone_register(&self, r: u8) -> (v: KValue) ensures v == self.reg(r) { unimplemented!() }
    // assumed: sets up the call `op(a, b, c)`
    #[verifier::external_body]
    fn call_overridden_op_3(&mut self, result: Option<u8>, a: KValue, b: KValue, c: KValue, op: KValue) -> (r: Result<()>)
        ensures r is Ok ==> final(self).pending@ == Some((a, b, c, op)) { unimplemented!() }
"""

UNIT = Unit(
    name="V-indexassign",
    prelude=PRELUDE,
    items=[
        Type(VAL, "enum KValue"),
        Raw(r"""
impl Clone for KValue { #[verifier::external_body] fn clone(&self) -> (r: Self) ensures r == *self { unimplemented!() } }
"""),
        Raw(VM_SPECS, impl_of="impl KotoVm"),
        Fn(VM, "impl KotoVm :: fn run_index_assign", props=P,
           subst=[
               ("usize::from(index)", "number_to_usize(index)", None),
               ("*index >= 0.0", "number_non_negative(index)", None),
               ("list_data[u_index] = value.clone();", "list_data.set(u_index, value.clone());", None),
               ("list_data[i] = value.clone();", "list_data.set(i, value.clone());", None),
               ("for i in range.indices(list_len) {", "for i in it: range.indices(list_len) {", None),
               ('runtime_error!("invalid index ({index})")', "runtime_error_invalid_index(index)", None),
               (r'runtime_error!\(\s*"the key \'\{key\}\' already exists at index \{existing_index\}"\s*\)', "runtime_error_key_exists()", None, "re"),
               (r"&WriteOp::IndexAssign\.into\(\)", "&index_assign_key()", None, "re"),
               ("map.into()", "KValue::Map(map)", None),
               (r"ValueKey::try_from\(new_entry\[0\]\.clone\(\)\)\?", "ValueKey::try_from_value(new_entry.get_cloned(0))?", None, "re"),
               (r"new_entry\[1\]\.clone\(\)", "new_entry.get_cloned(1)", None, "re"),
           ],
           let_chains=True,
           loops={1: "    invariant list_data@.len() == list_len, it.iter.end <= list_len,"},
           before=[
               ("let map_len = map_data.len();", "let ghost before_entries = map_data@;"),
               ("map_data.insert(key, new_entry", r"""proof {
    // after the uniqueness check the new key equals the key of no OTHER entry
    assert forall|j: int| 0 <= j < before_entries.len() && j != u_index implies !same_key(#[trigger] before_entries[j].0, key) by {
        if same_key(before_entries[j].0, key) {
            axiom_same_key_equivalence(before_entries[u_index as int].0, key, key);
            axiom_same_key_equivalence(before_entries[j].0, key, before_entries[u_index as int].0);
        }
    }
    // the old entry is gone, the last one took its place: the new key is not in the map now
    assert forall|j: int| 0 <= j < map_data@.len() implies !same_key(#[trigger] map_data@[j].0, key) by {   // @replaces_entry_in_place
        if j == u_index { assert(map_data@[j] == before_entries[before_entries.len() - 1]); } else { assert(map_data@[j] == before_entries[j]); }   // @replaces_entry_in_place
    }
    assert(absent(map_data@, key));
}
"""),
               ("Ok(())", r"""proof {
    // C14: entry `u_index` is replaced by (key, value); every other entry stays where it was
    assert(map_data@ =~= before_entries.update(u_index as int, (key, new_entry.elems()[1])));   // @replaces_entry_in_place
}
""", 2),
           ],
           spec=r"""
    ensures
        // C17: a map with @index_assign: that function is called with (map, index, value)
        old(self).reg(indexable_register) matches KValue::Map(m) ==> (m.index_assign_op() matches Some(op) ==> (r is Ok ==>
            final(self).pending@ == Some((old(self).reg(indexable_register), old(self).reg(index_register), old(self).reg(value_register), op)))),   // @metakey_function_called_with_documented_operands
        // an index outside the container is an error (never a panic)
        old(self).reg(indexable_register) matches KValue::List(l) ==> (old(self).reg(index_register) matches KValue::Number(n) ==>
            ((r is Ok) == (n.non_negative() && n.as_usize() < l.elems().len()))),                          // @list_index_in_bounds_or_error
        old(self).reg(indexable_register) matches KValue::Map(m) ==> (m.index_assign_op() is None ==> (old(self).reg(index_register) matches KValue::Number(n) ==>
            (!(n.non_negative() && n.as_usize() < m.entries().len()) ==> r is Err))),                      // @map_index_in_bounds_or_error
"""),
    ],
    epilogue=r"""
// ---- vacuity guard: MUST FAIL
proof fn canary_indexassign(vm: KotoVm, r: u8, m: KMap) requires vm.reg(r) == KValue::Map(m), m.entries().len() > 2, m.index_assign_op() is None ensures false {}
""",
    canaries=("canary_indexassign",),
)
