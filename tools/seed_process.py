#!/usr/bin/env python3
"""Process the OUT/ directory of a sub-agent worktree: confirm each mutN.diff + demoN.* in that worktree,
run the registered quick checks against it in /repo (apply, check, undo), archive under seeded/<id>/.
  tools/seed_process.py <property> <worktree> <id-prefix> [extra props to check, comma separated]"""
import json, os, re, subprocess, sys
prop, wt, prefix = sys.argv[1:4]
extra = sys.argv[4].split(",") if len(sys.argv) > 4 else []
out = os.path.join(wt, "OUT")
n = 1
while os.path.exists(os.path.join(out, "mut%d.diff" % n)):
    diff = os.path.join(out, "mut%d.diff" % n)
    demos = [f for f in os.listdir(out) if f.startswith("demo%d." % n)]
    if not demos:
        print("no demo for", n); n += 1; continue
    demo = os.path.join(out, demos[0])
    head = open(demo, errors="replace").read(3000)
    # the demo's destination is a test file: never take a source path mentioned in the header (it is rm'ed)
    m = re.search(r"(crates/[A-Za-z0-9_/\.\-]+/tests/[A-Za-z0-9_\.\-]+\.(?:rs|koto))", head)
    c = re.search(r"cargo (?:nextest run|test) (?:--offline )?-p ([a-z_]+) (?:--offline )?--test ([A-Za-z0-9_]+)", head)
    if not m or not c:
        print("cannot parse placement/command for demo", n, "->", demo); n += 1; continue
    dest, pkg, test = m.group(1), c.group(1), c.group(2)
    extra_args = ["--", "--test-threads", "1"] if "test-threads" in head and "--test-threads 1" in head else []
    cmd = ["cargo", "test", "-p", pkg, "--test", test, "--offline"] + extra_args
    os.makedirs(os.path.dirname(os.path.join(wt, dest)), exist_ok=True)
    r = subprocess.run(["/verif/tools/seed_confirm.sh", wt, diff, demo, dest] + cmd, capture_output=True, text=True)
    line = [l for l in r.stdout.split("\n") if l.startswith("SUITE_WITH")]
    conf = line[0] if line else "CONFIRM FAILED: " + r.stdout[-300:]
    ok = conf == "SUITE_WITH=pass DEMO_WITH=fail DEMO_WITHOUT=pass"
    sid = "%s-%d" % (prefix, n)
    print("==", sid, conf)
    verdict = "not run"
    if ok:
        caught = []
        for p in [prop] + extra:
            rr = subprocess.run(["/verif/tools/seed_run.sh", diff, p], capture_output=True, text=True)
            for ln in rr.stdout.split("\n"):
                if ln.startswith("VIOLATION"):
                    caught.append("property=%s obligation=%s" % (p, ln.split("obligation=")[1].split()[0]))
                if ln.startswith("UNDECIDED"):
                    caught.append("UNDECIDED " + ln[:150])
        real = [c for c in caught if not c.startswith("UNDECIDED")]
        verdict = ("CAUGHT: " + "; ".join(sorted(set(real))[:4])) if real else ("MISSED" + (" (" + caught[0] + ")" if caught else ""))
        print("   ", verdict)
        desc = ""
        readme = os.path.join(out, "README.md")
        subprocess.run(["/verif/tools/seed_archive.py", sid, prop, diff, demo, dest, "see README excerpt in meta / demo header", "suite passes with change (1099/1099); demo fails with change; demo passes without", verdict, "--"] + cmd, capture_output=True)
        if os.path.exists(readme):
            subprocess.run(["cp", readme, "/verif/seeded/%s/AGENT_README.md" % sid])
    n += 1
