#!/usr/bin/env python3
"""Re-run the registered quick checks against every archived seeded change (seeded/*/patch.diff),
applying each to /repo and undoing it straight afterwards, and write seeded/RESULTS.md.
  tools/seed_rerun_all.py [id ...]"""
import glob, json, os, subprocess, sys
ROOT = "/verif"
ids = sys.argv[1:]
rows = []
for meta_path in sorted(glob.glob(os.path.join(ROOT, "seeded", "*", "meta.json"))):
    meta = json.load(open(meta_path))
    sid = meta["id"]
    if ids and sid not in ids:
        continue
    d = os.path.dirname(meta_path)
    props = meta.get("also_check", []) or [meta["breaks_property"]]
    st = subprocess.run("git -C /repo status --porcelain | grep -v '^??'", shell=True, capture_output=True, text=True)
    if st.stdout.strip():
        print("/repo not clean, abort"); sys.exit(2)
    ap = subprocess.run(["git", "-C", "/repo", "apply", os.path.join(d, "patch.diff")], capture_output=True, text=True)
    if ap.returncode != 0:
        # /repo has moved on since the change was written (fix: commits): try with reduced context
        ap = subprocess.run(["git", "-C", "/repo", "apply", "-C1", os.path.join(d, "patch.diff")], capture_output=True, text=True)
    if ap.returncode != 0:
        rows.append((sid, meta["breaks_property"], "PATCH DOES NOT APPLY", ""))
        continue
    verdict, obl = "missed", []
    try:
        for p in props:
            r = subprocess.run([os.path.join(ROOT, "check"), p, "--tier", "quick"], cwd=ROOT, capture_output=True, text=True)
            for ln in r.stdout.split("\n"):
                if ln.startswith("VIOLATION"):
                    verdict = "CAUGHT"
                    obl.append(ln.split("obligation=")[1].split()[0])
                if ln.startswith("UNDECIDED") and verdict != "CAUGHT":
                    verdict = "undecided"
                    obl.append(ln[:160])
    finally:
        subprocess.run(["git", "-C", "/repo", "checkout", "--", "."])
    meta["current_verdict"] = {"verdict": verdict, "obligations": sorted(set(obl))[:6]}
    json.dump(meta, open(meta_path, "w"), indent=1)
    rows.append((sid, meta["breaks_property"], verdict, ", ".join(sorted(set(obl))[:3])))
    print(sid, verdict, sorted(set(obl))[:3]); sys.stdout.flush()
if not ids:
    with open(os.path.join(ROOT, "seeded", "RESULTS.md"), "w") as f:
        f.write("# Seeded changes vs. the registered quick checks (tools/seed_rerun_all.py)\n\n| id | property | verdict | obligations reported |\n|---|---|---|---|\n")
        for r in rows:
            f.write("| %s | %s | %s | %s |\n" % r)
        c = sum(1 for r in rows if r[2] == "CAUGHT")
        f.write("\n%d of %d caught.\n" % (c, len(rows)))
