#!/usr/bin/env python3
"""Write seeded/RESULTS.md from the verdict recorded in every seeded/*/meta.json (`current_verdict`, written
by tools/seed_rerun_all.py when it last ran that change against the registered quick checks)."""
import glob, json, os
ROOT = "/verif"
rows = []
for meta_path in sorted(glob.glob(os.path.join(ROOT, "seeded", "*", "meta.json"))):
    m = json.load(open(meta_path))
    cv = m.get("current_verdict") or {}
    rows.append((m["id"], m["breaks_property"], cv.get("verdict", "not run"), ", ".join((cv.get("obligations") or [])[:3])))
with open(os.path.join(ROOT, "seeded", "RESULTS.md"), "w") as f:
    f.write("# Seeded changes vs. the registered quick checks (tools/seed_rerun_all.py, tools/seed_results_md.py)\n\n| id | property | verdict | obligations reported |\n|---|---|---|---|\n")
    for r in rows:
        f.write("| %s | %s | %s | %s |\n" % r)
    c = sum(1 for r in rows if r[2] == "CAUGHT")
    u = sum(1 for r in rows if r[2] == "undecided")
    o = sum(1 for r in rows if r[2].startswith("obsolete"))
    f.write("\n%d of %d caught, %d undecided (exit 2: the change restructures code that proof text is anchored in), %d obsolete, %d missed.\n" % (c, len(rows), u, o, len(rows) - c - u - o))
print(len(rows), "rows")
