#!/bin/bash
# Run the registered quick checks of the given properties against a seeded change applied to /repo,
# then undo it straight away.   seed_run.sh <diff> <prop> [<prop>...]
diff=$1; shift
cd /repo && git status --porcelain | grep -v '^??' | grep -q . && { echo "/repo not clean"; exit 2; }
git -C /repo apply "$diff" 2>/dev/null || git -C /repo apply -C1 "$diff" || { echo APPLY FAILED; exit 2; }   # (reduced context: /repo may have moved on since the agent's worktree was made)
for p in "$@"; do
  (cd /verif && ./check $p --tier quick 2>&1 | grep -E "^(VIOLATION|KNOWN|UNDECIDED|property)" | cut -c1-260)
  echo "exit[$p]=$?"
done
git -C /repo checkout -- .
git -C /repo status --porcelain | grep -v '^??' | head -3
