#!/bin/bash
# Confirm a sub-agent's seeded breakage in ITS scratch worktree:
#   seed_confirm.sh <worktree> <diff> <demo-file> <demo-dest-relpath> <demo test command...>
# prints: SUITE_WITH=<pass|fail> DEMO_WITH=<pass|fail> DEMO_WITHOUT=<pass|fail>
wt=$1; diff=$2; demo=$3; dest=$4; shift 4
cd "$wt" || exit 2
git checkout -q -- . ; rm -f "$dest"
git apply "$diff" || { echo "APPLY FAILED"; exit 2; }
if cargo nextest run --workspace --no-fail-fast --offline --test-threads 8 >/tmp/seed_suite.log 2>&1; then sw=pass; else sw=fail; fi
grep -E "Summary|FAIL " /tmp/seed_suite.log | head -5
cp "$demo" "$dest"
if "$@" >/tmp/seed_demo_with.log 2>&1; then dw=pass; else dw=fail; fi
git checkout -q -- .
if "$@" >/tmp/seed_demo_without.log 2>&1; then dwo=pass; else dwo=fail; fi
rm -f "$dest"
echo "SUITE_WITH=$sw DEMO_WITH=$dw DEMO_WITHOUT=$dwo"
