#!/usr/bin/env python3
"""seed_archive.py <seed-id> <property> <diff> <demo> <demo-dest> <needs> <confirmed> <verdict> -- <demo cmd...>
Stores a confirmed sub-agent breakage under /verif/seeded/<seed-id>/."""
import json, os, shutil, sys
sid, prop, diff, demo, dest, needs, confirmed, verdict = sys.argv[1:9]
cmd = " ".join(sys.argv[10:])
d = os.path.join("/verif/seeded", sid)
os.makedirs(d, exist_ok=True)
shutil.copy(diff, os.path.join(d, "patch.diff"))
shutil.copy(demo, os.path.join(d, os.path.basename(dest)))
meta = {
    "id": sid,
    "breaks_property": prop,
    "needs_to_manifest": needs,
    "demo": {"file": os.path.basename(dest), "place_at": dest, "command": cmd},
    "confirmed_by_me": confirmed,
    "what_i_ran": [
        "tools/seed_confirm.sh <agent worktree> patch.diff demo %s %s  (suite with change; demo with change; demo without change)" % (dest, cmd),
        "tools/seed_run.sh patch.diff %s  (git -C /repo apply; ./check; git -C /repo checkout -- .)" % prop,
    ],
    "verdict_of_my_checks": verdict,
}
json.dump(meta, open(os.path.join(d, "meta.json"), "w"), indent=1)
print("archived", d)
