//! Replays a Kani counterexample against the real koto crates.
//!
//!   replay <harness> <hex bytes of 1st any()> <hex bytes of 2nd any()> ...
//!
//! Prints one line `REPLAY harness=<h> outcome=<panic|check-failed|passed|assumption-violated> detail=<..>`
//! and exits 1 when the failure reproduces (panic or failed check), 0 otherwise.
use koto_verif_kani::{AssumptionViolated, ReplaySrc, registry};
use std::panic::{AssertUnwindSafe, catch_unwind};

fn unhex(s: &str) -> Vec<u8> {
    if s == "-" {
        return Vec::new();
    }
    (0..s.len() / 2)
        .map(|i| u8::from_str_radix(&s[2 * i..2 * i + 2], 16).expect("hex"))
        .collect()
}

fn main() {
    let args: Vec<String> = std::env::args().collect();
    if args.len() < 2 {
        eprintln!("usage: replay <harness> <hex>...");
        std::process::exit(2);
    }
    let name = &args[1];
    let values: Vec<Vec<u8>> = args[2..].iter().map(|a| unhex(a)).collect();
    let Some((_, f)) = registry().into_iter().find(|(n, _)| n == name) else {
        eprintln!("unknown harness {name}");
        std::process::exit(2);
    };
    let mut src = ReplaySrc::new(values.clone());
    std::panic::set_hook(Box::new(|_| {}));
    let result = catch_unwind(AssertUnwindSafe(|| f(&mut src)));
    let inputs: Vec<String> = values
        .iter()
        .map(|v| v.iter().map(|b| format!("{b:02x}")).collect::<String>())
        .collect();
    match result {
        Err(payload) => {
            if payload.downcast_ref::<AssumptionViolated>().is_some() {
                println!("REPLAY harness={name} outcome=assumption-violated inputs={inputs:?}");
                std::process::exit(0);
            }
            let msg = if let Some(s) = payload.downcast_ref::<&str>() {
                s.to_string()
            } else if let Some(s) = payload.downcast_ref::<String>() {
                s.clone()
            } else {
                "non-string panic payload".to_string()
            };
            println!("REPLAY harness={name} outcome=panic detail={msg:?} inputs={inputs:?}");
            std::process::exit(1);
        }
        Ok(()) => {
            if !src.failed.is_empty() {
                println!(
                    "REPLAY harness={name} outcome=check-failed detail={:?} inputs={inputs:?}",
                    src.failed
                );
                std::process::exit(1);
            }
            println!(
                "REPLAY harness={name} outcome=passed checks={} exhausted={} inputs={inputs:?}",
                src.passed, src.exhausted
            );
        }
    }
}
