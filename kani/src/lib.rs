//! Kani harnesses over koto's real crates (path dependencies on /repo/crates/*).
//!
//! Every harness body is generic over [Src]: under `cargo kani` the inputs are symbolic
//! (`kani::any()`), under the replay binary they are the concrete bytes of a Kani
//! counterexample, run against the same real code with the repository's normal toolchain.
#![allow(clippy::all)]

pub mod src;
pub use src::*;

/// Declares harness bodies, their Kani proof wrappers and the replay registry.
#[macro_export]
macro_rules! harnesses {
    ($modname:ident; $( $(#[$attr:meta])* fn $name:ident($s:ident) $body:block )*) => {
        $( pub fn $name<S: $crate::Src>($s: &mut S) $body )*

        #[cfg(kani)]
        mod proofs {
            $(
                #[kani::proof]
                $(#[$attr])*
                fn $name() {
                    super::$name(&mut $crate::KaniSrc)
                }
            )*
        }

        pub fn registry() -> Vec<(&'static str, fn(&mut $crate::ReplaySrc))> {
            vec![ $( (stringify!($name), $name::<$crate::ReplaySrc> as fn(&mut $crate::ReplaySrc)) ),* ]
        }
    };
}

pub mod emit;
pub mod generated;
pub mod number;
pub mod strslice;
pub mod varint;

pub fn registry() -> Vec<(&'static str, fn(&mut ReplaySrc))> {
    let mut r = Vec::new();
    r.extend(number::registry());
    r.extend(emit::registry());
    r.extend(strslice::registry());
    r.extend(varint::registry());
    r
}
