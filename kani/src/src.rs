//! Source of harness inputs: symbolic under Kani, concrete under replay.

pub trait Src {
    fn u8(&mut self) -> u8;
    fn u16(&mut self) -> u16;
    fn u32(&mut self) -> u32;
    fn u64(&mut self) -> u64;
    fn i64(&mut self) -> i64;
    fn usize(&mut self) -> usize;
    fn f64(&mut self) -> f64;
    fn bool(&mut self) -> bool;
    /// Restrict the inputs (a precondition). Under replay a false precondition ends the run.
    fn assume(&mut self, cond: bool);
    /// An obligation of the harness.
    fn check(&mut self, label: &'static str, cond: bool);
    /// Reachability witness for vacuity guards.
    fn cover(&mut self, label: &'static str, cond: bool);
}

#[cfg(kani)]
pub struct KaniSrc;

#[cfg(kani)]
impl Src for KaniSrc {
    fn u8(&mut self) -> u8 {
        kani::any()
    }
    fn u16(&mut self) -> u16 {
        kani::any()
    }
    fn u32(&mut self) -> u32 {
        kani::any()
    }
    fn u64(&mut self) -> u64 {
        kani::any()
    }
    fn i64(&mut self) -> i64 {
        kani::any()
    }
    fn usize(&mut self) -> usize {
        kani::any()
    }
    fn f64(&mut self) -> f64 {
        kani::any()
    }
    fn bool(&mut self) -> bool {
        kani::any()
    }
    fn assume(&mut self, cond: bool) {
        kani::assume(cond)
    }
    fn check(&mut self, _label: &'static str, _cond: bool) {
        // under Kani obligations go through the check! macro (kani::assert needs a literal)
    }
    fn cover(&mut self, _label: &'static str, _cond: bool) {}
}

/// Replays the byte vectors printed by `cargo kani --concrete-playback=print`
pub struct ReplaySrc {
    pub values: Vec<Vec<u8>>,
    pub pos: usize,
    pub failed: Vec<&'static str>,
    pub passed: usize,
    pub assumption_violated: bool,
    pub exhausted: bool,
}

pub struct AssumptionViolated;

impl ReplaySrc {
    pub fn new(values: Vec<Vec<u8>>) -> Self {
        Self {
            values,
            pos: 0,
            failed: Vec::new(),
            passed: 0,
            assumption_violated: false,
            exhausted: false,
        }
    }

    fn next<const N: usize>(&mut self) -> [u8; N] {
        let mut out = [0u8; N];
        match self.values.get(self.pos) {
            Some(v) => {
                for (o, b) in out.iter_mut().zip(v.iter()) {
                    *o = *b;
                }
            }
            None => self.exhausted = true,
        }
        self.pos += 1;
        out
    }
}

impl Src for ReplaySrc {
    fn u8(&mut self) -> u8 {
        u8::from_le_bytes(self.next())
    }
    fn u16(&mut self) -> u16 {
        u16::from_le_bytes(self.next())
    }
    fn u32(&mut self) -> u32 {
        u32::from_le_bytes(self.next())
    }
    fn u64(&mut self) -> u64 {
        u64::from_le_bytes(self.next())
    }
    fn i64(&mut self) -> i64 {
        i64::from_le_bytes(self.next())
    }
    fn usize(&mut self) -> usize {
        usize::from_le_bytes(self.next())
    }
    fn f64(&mut self) -> f64 {
        f64::from_le_bytes(self.next())
    }
    fn bool(&mut self) -> bool {
        self.next::<1>()[0] != 0
    }
    fn assume(&mut self, cond: bool) {
        if !cond {
            self.assumption_violated = true;
            std::panic::panic_any(AssumptionViolated);
        }
    }
    fn check(&mut self, label: &'static str, cond: bool) {
        if cond {
            self.passed += 1;
        } else {
            self.failed.push(label);
        }
    }
    fn cover(&mut self, _label: &'static str, _cond: bool) {}
}

/// An obligation of a harness: `kani::assert` under Kani, recorded by [ReplaySrc] under replay.
#[macro_export]
macro_rules! check {
    ($s:expr, $label:literal, $cond:expr) => {{
        let c: bool = $cond;
        #[cfg(kani)]
        kani::assert(c, $label);
        #[cfg(not(kani))]
        $crate::Src::check($s, $label, c);
    }};
}

/// Reachability witness (vacuity guard): `kani::cover` under Kani.
#[macro_export]
macro_rules! reach {
    ($s:expr, $label:literal, $cond:expr) => {{
        let c: bool = $cond;
        #[cfg(kani)]
        kani::cover(c, $label);
        #[cfg(not(kani))]
        $crate::Src::cover($s, $label, c);
    }};
}
