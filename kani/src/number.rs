//! K-number: the number tower (`crates/runtime/src/types/number.rs`), full-domain, loop-free.
//!
//! Postconditions are taken from the property statements:
//!  C01 "integer arithmetic that wraps while `/` always yields a float"
//!  C06 no operation panics
//!  C14 "`==` ... is reflexive and symmetric on data without NaN, `!=` is its negation, and `<`
//!       orders numbers ... totally", "two keys address the same entry exactly when they are equal"
use crate::{check, harnesses, reach};
use koto_runtime::KNumber;
use koto_runtime::KNumber::{F64, I64};
use std::cmp::Ordering;

/// Same representation and same payload (all NaNs are identified).
fn same(a: KNumber, b: KNumber) -> bool {
    match (a, b) {
        (I64(x), I64(y)) => x == y,
        (F64(x), F64(y)) => x.to_bits() == y.to_bits() || (x.is_nan() && y.is_nan()),
        _ => false,
    }
}

const SPECIAL_FLOATS: [f64; 16] = [
    f64::NAN, f64::INFINITY, f64::NEG_INFINITY, 0.0, -0.0, f64::MAX, f64::MIN, f64::MIN_POSITIVE,
    f64::EPSILON, 9007199254740992.0, 9007199254740993.0, -9007199254740992.0, 9223372036854775807.0,
    -9223372036854775808.0, 1e308, 5e-324,
];
const SPECIAL_INTS: [i64; 8] = [i64::MIN, i64::MAX, i64::MIN + 1, 9007199254740993, -9007199254740993, 1 << 53, 1 << 32, -(1 << 32)];

fn small_float<S: crate::Src>(s: &mut S) -> f64 {
    let k = s.u8() & 63;
    if k < 48 { (k as i16 - 24) as f64 * 0.25 } else { SPECIAL_FLOATS[(k - 48) as usize] }
}

fn small_int<S: crate::Src>(s: &mut S) -> i64 {
    let k = s.u8() & 63;
    if k < 56 { k as i64 - 28 } else { SPECIAL_INTS[(k - 56) as usize] }
}

/// A hasher that records what `Hash for KNumber` writes
#[derive(Default)]
struct Recorder(u64, u32);

impl std::hash::Hasher for Recorder {
    fn finish(&self) -> u64 {
        self.0
    }
    fn write(&mut self, bytes: &[u8]) {
        for b in bytes {
            self.0 = self.0.rotate_left(8) ^ *b as u64;
            self.1 += 1;
        }
    }
    fn write_u64(&mut self, n: u64) {
        self.0 ^= n;
        self.1 += 8;
    }
}

fn hash_of(n: KNumber) -> (u64, u32) {
    use std::hash::Hash;
    let mut r = Recorder::default();
    n.hash(&mut r);
    (r.0, r.1)
}

fn any_number<S: crate::Src>(s: &mut S) -> KNumber {
    if s.bool() { I64(s.i64()) } else { F64(s.f64()) }
}

harnesses! { number;

fn number_add_int_wraps(s) {
    let (a, b) = (s.i64(), s.i64());
    check!(s, "I64+I64 == I64(wrapping_add)", same(I64(a) + I64(b), I64(a.wrapping_add(b))));
    check!(s, "&I64+&I64 == I64(wrapping_add)", same(&I64(a) + &I64(b), I64(a.wrapping_add(b))));
}

fn number_sub_int_wraps(s) {
    let (a, b) = (s.i64(), s.i64());
    check!(s, "I64-I64 == I64(wrapping_sub)", same(I64(a) - I64(b), I64(a.wrapping_sub(b))));
    check!(s, "&I64-&I64 == I64(wrapping_sub)", same(&I64(a) - &I64(b), I64(a.wrapping_sub(b))));
}

fn number_mul_int_wraps(s) {
    let (a, b) = (s.i64(), s.i64());
    check!(s, "I64*I64 == I64(wrapping_mul)", same(I64(a) * I64(b), I64(a.wrapping_mul(b))));
    check!(s, "&I64*&I64 == I64(wrapping_mul)", same(&I64(a) * &I64(b), I64(a.wrapping_mul(b))));
}

// ---- mixed and float arithmetic: one obligation per harness (one float circuit equivalence each)

fn number_add_if(s) { let (i, f) = (s.i64(), s.f64()); check!(s, "I64+F64 is the float sum", same(I64(i) + F64(f), F64(i as f64 + f))); }
fn number_add_fi(s) { let (i, f) = (s.i64(), s.f64()); check!(s, "F64+I64 is the float sum", same(F64(f) + I64(i), F64(f + i as f64))); }
fn number_add_ff(s) { let (f, g) = (s.f64(), s.f64()); check!(s, "F64+F64 is the float sum", same(F64(f) + F64(g), F64(f + g))); }
fn number_add_ref_if(s) { let (i, f) = (s.i64(), s.f64()); check!(s, "&I64+&F64 is the float sum", same(&I64(i) + &F64(f), F64(i as f64 + f))); }
fn number_add_ref_fi(s) { let (i, f) = (s.i64(), s.f64()); check!(s, "&F64+&I64 is the float sum", same(&F64(f) + &I64(i), F64(f + i as f64))); }
fn number_add_ref_ff(s) { let (f, g) = (s.f64(), s.f64()); check!(s, "&F64+&F64 is the float sum", same(&F64(f) + &F64(g), F64(f + g))); }

fn number_sub_if(s) { let (i, f) = (s.i64(), s.f64()); check!(s, "I64-F64 is the float difference", same(I64(i) - F64(f), F64(i as f64 - f))); }
fn number_sub_fi(s) { let (i, f) = (s.i64(), s.f64()); check!(s, "F64-I64 is the float difference", same(F64(f) - I64(i), F64(f - i as f64))); }
fn number_sub_ff(s) { let (f, g) = (s.f64(), s.f64()); check!(s, "F64-F64 is the float difference", same(F64(f) - F64(g), F64(f - g))); }
fn number_sub_ref_if(s) { let (i, f) = (s.i64(), s.f64()); check!(s, "&I64-&F64 is the float difference", same(&I64(i) - &F64(f), F64(i as f64 - f))); }
fn number_sub_ref_fi(s) { let (i, f) = (s.i64(), s.f64()); check!(s, "&F64-&I64 is the float difference", same(&F64(f) - &I64(i), F64(f - i as f64))); }
fn number_sub_ref_ff(s) { let (f, g) = (s.f64(), s.f64()); check!(s, "&F64-&F64 is the float difference", same(&F64(f) - &F64(g), F64(f - g))); }

fn number_arith_representation(s) {
    // full domain, every operator, by value and by reference: an int and an int give an int
    // (except `/`), anything involving a float gives a float; nothing panics
    let (a, b) = (any_number(s), any_number(s));
    let both_int = a.is_i64() && b.is_i64();
    check!(s, "+ yields an integer iff both operands are integers", (a + b).is_i64() == both_int && (&a + &b).is_i64() == both_int);
    check!(s, "- yields an integer iff both operands are integers", (a - b).is_i64() == both_int && (&a - &b).is_i64() == both_int);
    check!(s, "* yields an integer iff both operands are integers", (a * b).is_i64() == both_int && (&a * &b).is_i64() == both_int);
    check!(s, "/ always yields a float", (a / b).is_f64() && (&a / &b).is_f64());
}

// BOUNDED in operand values (a grid of floats incl. NaN, infinities, signed zero and extremes x
// a grid of integers): 64-bit float multiplier/divider equivalence does not finish in CBMC
fn number_mul_small_if(s) { let (i, f) = (small_int(s), small_float(s)); check!(s, "I64*F64 is the float product", same(I64(i) * F64(f), F64(i as f64 * f)) && same(&I64(i) * &F64(f), F64(i as f64 * f))); }
fn number_mul_small_fi(s) { let (i, f) = (small_int(s), small_float(s)); check!(s, "F64*I64 is the float product", same(F64(f) * I64(i), F64(f * i as f64)) && same(&F64(f) * &I64(i), F64(f * i as f64))); }
fn number_mul_small_ff(s) { let (f, g) = (small_float(s), small_float(s)); check!(s, "F64*F64 is the float product", same(F64(f) * F64(g), F64(f * g)) && same(&F64(f) * &F64(g), F64(f * g))); }
fn number_div_small_if(s) { let (i, f) = (small_int(s), small_float(s)); check!(s, "I64/F64 is the float quotient", same(I64(i) / F64(f), F64(i as f64 / f)) && same(&I64(i) / &F64(f), F64(i as f64 / f))); }
fn number_div_small_fi(s) { let (i, f) = (small_int(s), small_float(s)); check!(s, "F64/I64 is the float quotient", same(F64(f) / I64(i), F64(f / i as f64)) && same(&F64(f) / &I64(i), F64(f / i as f64))); }
fn number_div_small_ff(s) { let (f, g) = (small_float(s), small_float(s)); check!(s, "F64/F64 is the float quotient", same(F64(f) / F64(g), F64(f / g)) && same(&F64(f) / &F64(g), F64(f / g))); }
fn number_div_small_ii(s) { let (i, j) = (small_int(s), small_int(s)); check!(s, "I64/I64 is the float quotient of the converted operands", same(I64(i) / I64(j), F64(i as f64 / j as f64)) && same(&I64(i) / &I64(j), F64(i as f64 / j as f64))); }

fn number_rem_int_total(s) {
    // full domain, never panics: includes b == 0 and i64::MIN % -1
    let (a, b) = (s.i64(), s.i64());
    let r = I64(a) % I64(b);
    let rr = &I64(a) % &I64(b);
    if b != 0 {
        check!(s, "I64 % I64 is an integer for a non-zero divisor", r.is_i64() && rr.is_i64());
    } else {
        check!(s, "integer remainder by zero is NaN (as in run_remainder)", r.is_nan() && rr.is_nan());
    }
    if b == -1 {
        check!(s, "x % -1 == 0, including i64::MIN", same(r, I64(0)) && same(rr, I64(0)));
    }
}

fn number_rem_int_value(s) {
    // BOUNDED in operand magnitude (16-bit operands): the value is the truncated remainder
    let (a, b) = (small_int(s), small_int(s));
    if b != 0 {
        check!(s, "I64 % I64 == I64(wrapping_rem) for a non-zero divisor", same(I64(a) % I64(b), I64(a.wrapping_rem(b))));
        check!(s, "&I64 % &I64 == I64(wrapping_rem) for a non-zero divisor", same(&I64(a) % &I64(b), I64(a.wrapping_rem(b))));
        let r = i64::from(I64(a) % I64(b));
        check!(s, "remainder has the sign of the dividend and is smaller than the divisor", (r == 0 || (r < 0) == (a < 0)) && r.unsigned_abs() < b.unsigned_abs());
    }
}

fn number_rem_mixed_is_float(s) {
    let (i, f) = (s.i64(), s.f64());
    check!(s, "I64 % F64 is a float", (I64(i) % F64(f)).is_f64() && (&I64(i) % &F64(f)).is_f64());
    check!(s, "F64 % I64 is a float", (F64(f) % I64(i)).is_f64() && (&F64(f) % &I64(i)).is_f64());
}

#[kani::unwind(66)]
fn number_pow_int_representation(s) {
    // full domain: an integer raised to a non-negative integer stays an integer (C01 "integer
    // arithmetic that wraps"), raised to a negative one it is a float; never a panic (C06)
    let (a, b) = (s.i64(), s.i64());
    let r = I64(a).pow(I64(b));
    check!(s, "I64 ^ I64 is an integer exactly when the exponent is not negative", r.is_i64() == (b >= 0));
}

#[kani::unwind(66)]
fn number_pow_int_small(s) {
    // BOUNDED: base from the small grid, exponent 0..=3: the wrapping product
    let a = small_int(s);
    let e = s.u8() & 3;
    let expect = match e { 0 => 1, 1 => a, 2 => a.wrapping_mul(a), _ => a.wrapping_mul(a).wrapping_mul(a) };
    check!(s, "I64 ^ e == the wrapping product of e factors (e <= 3)", same(I64(a).pow(I64(e as i64)), I64(expect)));
}

#[kani::unwind(66)]
fn number_pow_two_wraps_to_zero(s) {
    // full domain in the exponent: 2 ^ b wraps to 0 for EVERY b >= 64 (C01 "integer arithmetic that
    // wraps"), also for exponents that do not fit 32 bits
    let b = s.i64();
    if b >= 64 {
        check!(s, "2 ^ b == 0 for every b >= 64", same(I64(2).pow(I64(b)), I64(0)));
    } else if b >= 0 {
        check!(s, "2 ^ b == 1 << b for 0 <= b < 64", same(I64(2).pow(I64(b)), I64(1i64.wrapping_shl(b as u32))));
    }
}

fn number_neg(s) {
    let (i, f) = (s.i64(), s.f64());
    check!(s, "-I64 wraps", same(-I64(i), I64(i.wrapping_neg())) && same(-&I64(i), I64(i.wrapping_neg())));
    check!(s, "-F64 negates", same(-F64(f), F64(-f)) && same(-&F64(f), F64(-f)));
}

fn number_abs_total(s) {
    // C06: must not panic, including i64::MIN
    let a = any_number(s);
    let r = a.abs();
    check!(s, "abs keeps the representation", r.is_i64() == a.is_i64());
}

fn number_eq_laws(s) {
    let (a, b) = (any_number(s), any_number(s));
    check!(s, "== is symmetric", (a == b) == (b == a));
    check!(s, "!= is the negation of ==", (a != b) == !(a == b));
    if !a.is_nan() {
        check!(s, "== is reflexive off NaN", a == a);
    }
}

fn number_eq_structural(s) {
    let (i, j, f, g) = (s.i64(), s.i64(), s.f64(), s.f64());
    check!(s, "I64 == I64 iff same integer", (I64(i) == I64(j)) == (i == j));
    check!(s, "F64 == F64 iff IEEE equal", (F64(f) == F64(g)) == (f == g));
    // the integer must compare equal to the float as a number: never by truncating the float
    check!(s, "I64 == F64 iff the integer converted to float equals it", (I64(i) == F64(f)) == (i as f64 == f));
    check!(s, "F64 == I64 iff the integer converted to float equals it", (F64(f) == I64(i)) == (f == i as f64));
    if I64(i) == F64(f) {
        check!(s, "an integer never equals a float with a fractional part", f == f.trunc());
    }
}

fn number_cmp_laws(s) {
    let (a, b) = (any_number(s), any_number(s));
    let ab = a.cmp(&b);
    check!(s, "cmp is antisymmetric: cmp(a,b) == cmp(b,a).reverse()", ab == b.cmp(&a).reverse());
    check!(s, "partial_cmp agrees with cmp", a.partial_cmp(&b) == Some(ab));
    check!(s, "a < b iff cmp is Less", (a < b) == (ab == Ordering::Less));
    check!(s, "a > b iff cmp is Greater", (a > b) == (ab == Ordering::Greater));
    check!(s, "a <= b iff cmp is not Greater", (a <= b) == (ab != Ordering::Greater));
    check!(s, "a >= b iff cmp is not Less", (a >= b) == (ab != Ordering::Less));
    if !a.is_nan() && !b.is_nan() {
        check!(s, "off NaN: cmp is Equal iff ==", (ab == Ordering::Equal) == (a == b));
    }
}

fn number_cmp_values(s) {
    let (i, j, f, g) = (s.i64(), s.i64(), s.f64(), s.f64());
    check!(s, "I64 cmp I64 is integer order", I64(i).cmp(&I64(j)) == i.cmp(&j));
    if !f.is_nan() && !g.is_nan() {
        check!(s, "F64 cmp F64 is float order", Some(F64(f).cmp(&F64(g))) == f.partial_cmp(&g));
        check!(s, "I64 cmp F64 is numeric order", Some(I64(i).cmp(&F64(f))) == (i as f64).partial_cmp(&f));
        check!(s, "F64 cmp I64 is numeric order", Some(F64(f).cmp(&I64(i))) == f.partial_cmp(&(i as f64)));
    }
}

fn number_eq_implies_same_hash(s) {
    // C14: "two keys address the same entry exactly when they are equal as values":
    // equal numbers must feed the same data to the hasher (the real `impl Hash for KNumber`)
    let (a, b) = (any_number(s), any_number(s));
    if a == b {
        check!(s, "a == b implies hash(a) == hash(b)", hash_of(a) == hash_of(b));
    }
    reach!(s, "an integer equals a float", a.is_i64() && b.is_f64() && a == b);
}

fn number_from(s) {
    let (i, u, f) = (s.i64(), s.usize(), s.f64());
    check!(s, "From<i64> keeps the integer", same(KNumber::from(i), I64(i)));
    check!(s, "From<f64> keeps the float", same(KNumber::from(f), F64(f)));
    let expected = if u as u64 > i64::MAX as u64 { i64::MAX } else { u as i64 };
    check!(s, "From<usize> saturates", same(KNumber::from(u), I64(expected)));
    check!(s, "i64::from(I64) is the integer", i64::from(I64(i)) == i);
    let back = usize::from(I64(i));
    check!(s, "usize::from(I64) saturates at zero", if i < 0 { back == 0 } else { back == i as usize });
}

fn number_rounding_total(s) {
    // C06: floor/ceil/round never panic for any float (saturating casts)
    let a = any_number(s);
    check!(s, "floor is an integer", a.floor().is_i64());
    check!(s, "ceil is an integer", a.ceil().is_i64());
    check!(s, "round is an integer", a.round().is_i64());
}

}

