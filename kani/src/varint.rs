//! K-varint: the var-int decoders of `InstructionReader::next` (function-local macros, extracted
//! mechanically into `generated.rs` by rule R9) against the REAL encoder `Compiler::push_var_u32`.
//!
//! C05: "every instruction decodes ... every register and constant reference is in range":
//! decode(encode(n)) == n for ALL u32 n, and the decoder stops exactly at the end of the operand
//! (the next instruction boundary). Loops are bounded by the operand width (<= 5 bytes), unwinding
//! assertions on: complete, not bounded.
use crate::generated::{get_var_u32, get_var_u32_with_first_byte};
use crate::{check, harnesses};
use koto_bytecode::verif_hooks::EmitProbe;

fn groups(n: u32) -> usize {
    if n < 1 << 7 { 1 } else if n < 1 << 14 { 2 } else if n < 1 << 21 { 3 } else if n < 1 << 28 { 4 } else { 5 }
}

harnesses! { varint;

#[kani::unwind(8)]
fn varint_roundtrip(s) {
    let n = s.u32();
    let mut probe = EmitProbe::with_bytes(vec![s.u8()]);
    probe.push_var_u32(n);
    // whatever follows the operand must not be touched
    probe.push_var_u32(s.u8() as u32 & 0x7f);
    let bytes = probe.bytes();

    let mut ip = 1;
    let decoded = get_var_u32(bytes, &mut ip);
    check!(s, "get_var_u32 decodes what push_var_u32 encoded", decoded == Some(n));
    check!(s, "the decoder stops exactly at the end of the operand", ip == 1 + groups(n));

    // the variant whose first byte was already read as part of the 2-byte instruction header
    let mut ip2 = 2;
    let decoded2 = get_var_u32_with_first_byte(bytes, &mut ip2, bytes[1]);
    check!(s, "get_var_u32_with_first_byte decodes what push_var_u32 encoded", decoded2 == Some(n));
    check!(s, "the first-byte variant stops exactly at the end of the operand", ip2 == 1 + groups(n));
}

#[kani::unwind(8)]
fn varint_truncated_is_an_error(s) {
    // an operand cut off by the end of the chunk is reported (None -> out_of_bounds_access_error),
    // never read past the end
    let n = s.u32();
    let mut probe = EmitProbe::with_bytes(Vec::new());
    probe.push_var_u32(n);
    let bytes = probe.bytes();
    let cut = bytes.len() - 1;
    let mut ip = 0;
    let decoded = get_var_u32(&bytes[..cut], &mut ip);
    check!(s, "a truncated operand is an error", decoded.is_none());
    check!(s, "the decoder never moves past the end of the chunk", ip <= cut);
    if cut >= 1 {
        let mut ip2 = 1;
        let decoded2 = get_var_u32_with_first_byte(&bytes[..cut], &mut ip2, bytes[0]);
        check!(s, "a truncated operand is an error (first-byte variant)", decoded2.is_none());
        check!(s, "the first-byte variant never moves past the end of the chunk", ip2 <= cut);
    }
}

}
