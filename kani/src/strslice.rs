//! K-strslice: checked re-slicing of shared strings (`crates/parser/src/string_slice.rs`).
//!
//! C15: "an error when a slice would cut through a character; it never yields malformed text",
//! C14: a slice never reaches outside its parent.
//! BOUNDED in the length of the string data (<= MAX_BYTES bytes of valid UTF-8, so 1-, 2- and 3-byte
//! characters occur); every bound / offset argument is full-domain `usize`.
use crate::{check, harnesses, reach};
use koto_parser::StringSlice;
use std::rc::Rc;

/// Any valid UTF-8 string of at most N bytes
fn any_string_n<const N: usize, S: crate::Src>(s: &mut S) -> Option<String> {
    let mut bytes = [0u8; N];
    let mut i = 0;
    while i < N {
        bytes[i] = s.u8();
        i += 1;
    }
    let len = (s.u8() % (N as u8 + 1)) as usize;
    match std::str::from_utf8(&bytes[..len]) {
        Ok(text) => Some(text.to_string()),
        Err(_) => None,
    }
}

fn any_string<S: crate::Src>(s: &mut S) -> Option<String> {
    any_string_n::<3, S>(s)
}

harnesses! { strslice;

#[kani::unwind(6)]
fn strslice_new_validates(s) {
    let Some(text) = any_string(s) else { return; };
    let (a, b) = (s.usize(), s.usize());
    let expected = text.get(a..b).map(|t| t.to_string());
    let slice = StringSlice::<usize>::new(Rc::new(text).into(), a..b);
    check!(s, "new returns Some exactly when the bounds select valid UTF-8 inside the string", slice.is_some() == expected.is_some());
    if let (Some(slice), Some(expected)) = (slice, expected) {
        check!(s, "the slice reads exactly the selected text", slice.as_str() == expected.as_str());
    }
    reach!(s, "a bound inside a multi-byte character is reachable", a == 1 && b == 2);
}

#[kani::unwind(6)]
fn strslice_with_bounds_stays_inside(s) {
    let Some(text) = any_string(s) else { return; };
    let (a, b) = (s.usize(), s.usize());
    let Some(parent) = StringSlice::<usize>::new(Rc::new(text).into(), a..b) else { return; };
    let parent_text = parent.as_str().to_string();
    let (c, d) = (s.usize(), s.usize());
    let expected = parent_text.get(c..d).map(|t| t.to_string());
    let child = parent.with_bounds(c..d);
    check!(s, "with_bounds returns Some exactly when the bounds select valid UTF-8 inside the PARENT SLICE", child.is_some() == expected.is_some());
    if let (Some(child), Some(expected)) = (child, expected) {
        check!(s, "the child reads exactly the selected part of the parent", child.as_str() == expected.as_str());
    }
}

#[kani::unwind(6)]
fn strslice_split_stays_inside(s) {
    let Some(text) = any_string(s) else { return; };
    let (a, b) = (s.usize(), s.usize());
    let Some(parent) = StringSlice::<usize>::new(Rc::new(text).into(), a..b) else { return; };
    let parent_text = parent.as_str().to_string();
    let offset = s.usize();
    let valid = offset <= parent_text.len() && parent_text.is_char_boundary(offset);
    let parts = parent.split(offset);
    check!(s, "split returns Some exactly when the offset is a character boundary inside the PARENT SLICE", parts.is_some() == valid);
    if let Some((left, right)) = parts {
        check!(s, "the left part is the text before the offset", left.as_str() == &parent_text[..offset]);
        check!(s, "the right part is the text from the offset", right.as_str() == &parent_text[offset..]);
    }
}

#[kani::unwind(6)]
fn strslice_u16_conversion(s) {
    // the 16-bit representation used by KString reads the same text
    let Some(text) = any_string(s) else { return; };
    let (a, b) = (s.usize(), s.usize());
    let Some(slice) = StringSlice::<usize>::new(Rc::new(text).into(), a..b) else { return; };
    let converted: Option<StringSlice<u16>> = slice.try_convert();
    check!(s, "bounds below 65536 always convert", converted.is_some());
    if let Some(converted) = converted {
        check!(s, "the converted slice reads the same text", converted.as_str() == slice.as_str());
    }
}


// ---- thorough tier: the same obligations on strings of up to 4 bytes (4-byte characters occur)
#[kani::unwind(7)]
fn strslice4_new_validates(s) {
    let Some(text) = any_string_n::<4, _>(s) else { return; };
    let (a, b) = (s.usize(), s.usize());
    let expected = text.get(a..b).map(|t| t.to_string());
    let slice = StringSlice::<usize>::new(Rc::new(text).into(), a..b);
    check!(s, "new returns Some exactly when the bounds select valid UTF-8 inside the string", slice.is_some() == expected.is_some());
    if let (Some(slice), Some(expected)) = (slice, expected) {
        check!(s, "the slice reads exactly the selected text", slice.as_str() == expected.as_str());
    }
}

#[kani::unwind(7)]
fn strslice4_with_bounds_stays_inside(s) {
    let Some(text) = any_string_n::<4, _>(s) else { return; };
    let (a, b) = (s.usize(), s.usize());
    let Some(parent) = StringSlice::<usize>::new(Rc::new(text).into(), a..b) else { return; };
    let parent_text = parent.as_str().to_string();
    let (c, d) = (s.usize(), s.usize());
    let expected = parent_text.get(c..d).map(|t| t.to_string());
    let child = parent.with_bounds(c..d);
    check!(s, "with_bounds returns Some exactly when the bounds select valid UTF-8 inside the PARENT SLICE", child.is_some() == expected.is_some());
    if let (Some(child), Some(expected)) = (child, expected) {
        check!(s, "the child reads exactly the selected part of the parent", child.as_str() == expected.as_str());
    }
}

#[kani::unwind(7)]
fn strslice4_split_stays_inside(s) {
    let Some(text) = any_string_n::<4, _>(s) else { return; };
    let (a, b) = (s.usize(), s.usize());
    let Some(parent) = StringSlice::<usize>::new(Rc::new(text).into(), a..b) else { return; };
    let parent_text = parent.as_str().to_string();
    let offset = s.usize();
    let valid = offset <= parent_text.len() && parent_text.is_char_boundary(offset);
    let parts = parent.split(offset);
    check!(s, "split returns Some exactly when the offset is a character boundary inside the PARENT SLICE", parts.is_some() == valid);
    if let Some((left, right)) = parts {
        check!(s, "the left part is the text before the offset", left.as_str() == &parent_text[..offset]);
        check!(s, "the right part is the text from the offset", right.as_str() == &parent_text[offset..]);
    }
}

}
