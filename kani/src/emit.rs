//! K-emit: byte-level encoders of the compiler (`crates/bytecode/src/compiler.rs`) reached through
//! the `verif-hooks` feature, and the opcode table (`op.rs`).
//!
//! C05: "every instruction decodes, every jump lands on an instruction boundary ...; exceeding a
//! size limit (... jump distance ...) is reported as a compile error rather than producing code
//! that misbehaves".
use crate::{check, harnesses, reach};
use koto_bytecode::{FunctionFlags, Op, verif_hooks::EmitProbe};

/// The LEB128-style spec of `push_var_u32`: number of 7-bit groups needed for n
fn groups(n: u32) -> usize {
    if n < 1 << 7 {
        1
    } else if n < 1 << 14 {
        2
    } else if n < 1 << 21 {
        3
    } else if n < 1 << 28 {
        4
    } else {
        5
    }
}

/// A buffer of `len` zero bytes with one symbolic byte at `witness` (frame-condition witness)
fn buffer<S: crate::Src>(s: &mut S, len: usize, witness: usize) -> (Vec<u8>, u8) {
    let mut bytes = vec![0u8; len];
    let w = s.u8();
    if witness < len {
        bytes[witness] = w;
    }
    (bytes, w)
}

const MAX_LEN: usize = 70_000;

harnesses! { emit;

#[kani::unwind(7)]
fn emit_push_var_u32_matches_spec(s) {
    // full domain in n; the loop is bounded by the operand width (<= 5 iterations), unwinding
    // assertions on
    let n = s.u32();
    let prefix = s.u8();
    let mut probe = EmitProbe::with_bytes(vec![prefix]);
    probe.push_var_u32(n);
    let bytes = probe.bytes();
    let len = bytes.len() - 1;
    check!(s, "the bytes emitted before are untouched", bytes[0] == prefix);
    check!(s, "a var u32 takes as many bytes as it has 7-bit groups (1..=5)", len == groups(n));
    let mut decoded: u64 = 0;
    let mut i = 0;
    while i < len {
        let b = bytes[1 + i];
        check!(s, "the continuation bit is set on all bytes but the last", ((b & 0x80) != 0) == (i + 1 < len));
        decoded |= ((b & 0x7f) as u64) << (7 * i);
        i += 1;
    }
    check!(s, "the 7-bit groups, little endian, decode to n", decoded == n as u64);
}

fn emit_update_offset_placeholder(s) {
    // BOUNDED only in the buffer length (<= 70 000, both sides of the u16 limit)
    let len = s.usize();
    s.assume(len >= 2 && len <= MAX_LEN);
    let offset_ip = s.usize();
    s.assume(offset_ip <= len - 2);
    let witness = s.usize();
    s.assume(witness < len && witness != offset_ip && witness != offset_ip + 1);
    let (bytes, w) = buffer(s, len, witness);
    let mut probe = EmitProbe::with_bytes(bytes);
    let ok = probe.update_offset_placeholder(offset_ip);
    let distance = len - offset_ip - 2;
    let bytes = probe.bytes();
    check!(s, "Ok exactly when the distance fits in u16 (otherwise JumpOffsetIsTooLarge)", ok == (distance <= u16::MAX as usize));
    check!(s, "the code size is unchanged", bytes.len() == len);
    check!(s, "no byte other than the placeholder is written", bytes[witness] == w);
    let patched = u16::from_le_bytes([bytes[offset_ip], bytes[offset_ip + 1]]) as usize;
    if ok {
        check!(s, "the forward jump lands at the current end of the code: ip after the operand + offset == len", offset_ip + 2 + patched == len);
    } else {
        check!(s, "on error the placeholder is left as it was", patched == 0);
    }
    reach!(s, "an offset beyond the limit is reachable", !ok);
}

fn emit_push_jump_back_op(s) {
    // BOUNDED only in the buffer length (<= 70 000, both sides of the u16 limit)
    let len = s.usize();
    s.assume(len <= MAX_LEN);
    let target_ip = s.usize();
    s.assume(target_ip <= len);
    let witness = s.usize();
    s.assume(witness < len);
    let extra = [s.u8(), s.u8()];
    let extra_len = (s.u8() % 3) as usize;
    let (bytes, w) = buffer(s, len, witness);
    let mut probe = EmitProbe::with_bytes(bytes);
    let ok = probe.push_jump_back_op(Op::JumpBack, &extra[..extra_len], target_ip);
    let bytes = probe.bytes();
    let end = len + 1 + extra_len + 2;
    check!(s, "the bytes emitted before are untouched", len == 0 || bytes[witness] == w);
    if ok {
        check!(s, "opcode, operands and a 2-byte offset are appended", bytes.len() == end);
        check!(s, "the opcode byte comes first", bytes[len] == Op::JumpBack as u8);
        check!(s, "the operand bytes follow", (extra_len < 1 || bytes[len + 1] == extra[0]) && (extra_len < 2 || bytes[len + 2] == extra[1]));
        let offset = u16::from_le_bytes([bytes[end - 2], bytes[end - 1]]) as usize;
        check!(s, "the backward jump lands on its target: ip after the instruction - offset == target_ip", end - offset == target_ip);
    } else {
        check!(s, "an error is reported only when the distance exceeds u16", end - target_ip > u16::MAX as usize);
        check!(s, "nothing is emitted on error", bytes.len() == len);
    }
    check!(s, "a distance within u16 is never an error", ok || end - target_ip > u16::MAX as usize);
}

fn emit_op_byte_roundtrip(s) {
    // full domain: all 256 opcode bytes
    let b = s.u8();
    let op = Op::from(b);
    check!(s, "Op::from(byte) as u8 == byte (no two bytes decode to the same op)", op as u8 == b);
}


fn emit_function_flags_roundtrip(s) {
    // full domain: the four properties of a function survive the trip through the flags byte that
    // the compiler emits and the decoder reads back (variadic / generator decide how a call binds, C02)
    let (variadic, generator, unpacked, non_local) = (s.bool(), s.bool(), s.bool(), s.bool());
    let flags = FunctionFlags::new(variadic, generator, unpacked, non_local);
    check!(s, "is_variadic reads back what was set", flags.is_variadic() == variadic);
    check!(s, "is_generator reads back what was set", flags.is_generator() == generator);
    check!(s, "arg_is_unpacked_tuple reads back what was set", flags.arg_is_unpacked_tuple() == unpacked);
    check!(s, "non_local_access reads back what was set", flags.non_local_access() == non_local);
    let byte = u8::from(flags);
    check!(s, "a flags byte written by the compiler is in the decodable range", byte <= 0b1111);
    // (FunctionFlags::try_from accepts exactly the bytes <= 0b1111; its error arm formats a String, which
    // CBMC cannot digest in the budget, so the decoder side is covered by the range check above)
}

}
