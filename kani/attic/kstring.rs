//! K-kstring: the runtime string type (`crates/parser/src/string.rs` KString) on top of StringSlice.
//!
//! C15: indexing / slicing yields exactly the selected text or an error (None) when it would cut a
//! character; popping graphemes from either end never yields malformed text, and the pieces
//! re-joined reproduce the string. BOUNDED in the string length.
use crate::{check, harnesses};
use koto_parser::KString;

fn any_string_n<const N: usize, S: crate::Src>(s: &mut S) -> Option<String> {
    let mut bytes = [0u8; N];
    let mut i = 0;
    while i < N {
        bytes[i] = s.u8();
        i += 1;
    }
    let len = (s.u8() % (N as u8 + 1)) as usize;
    match std::str::from_utf8(&bytes[..len]) {
        Ok(text) => Some(text.to_string()),
        Err(_) => None,
    }
}

harnesses! { kstring;

#[kani::unwind(6)]
fn kstring_with_bounds_full(s) {
    // a Full (runtime-built) string: the path on which F2 yielded invalid UTF-8
    let Some(text) = any_string_n::<3, _>(s) else { return; };
    let (a, b) = (s.usize(), s.usize());
    let expected = text.get(a..b).map(|t| t.to_string());
    let string = KString::from(text);
    let slice = string.with_bounds(a..b);
    check!(s, "with_bounds is Some exactly when the bounds select valid UTF-8 inside the string", slice.is_some() == expected.is_some());
    if let (Some(slice), Some(expected)) = (slice, expected) {
        check!(s, "the slice reads exactly the selected text", slice.as_str() == expected.as_str());
    }
}

#[kani::unwind(6)]
fn kstring_with_bounds_of_slice(s) {
    // re-slicing a slice (the 16-bit Slice representation)
    let Some(text) = any_string_n::<3, _>(s) else { return; };
    let (a, b) = (s.usize(), s.usize());
    let Some(parent) = KString::from(text).with_bounds(a..b) else { return; };
    let parent_text = parent.as_str().to_string();
    let (c, d) = (s.usize(), s.usize());
    let expected = parent_text.get(c..d).map(|t| t.to_string());
    let child = parent.with_bounds(c..d);
    check!(s, "re-slicing is Some exactly when the bounds select valid UTF-8 inside the PARENT", child.is_some() == expected.is_some());
    if let (Some(child), Some(expected)) = (child, expected) {
        check!(s, "the child reads exactly the selected part of the parent", child.as_str() == expected.as_str());
    }
}

}
