//! K-frame-new: the compile frame's constructor and register lookup
//! (`crates/bytecode/src/frame.rs`), reached through the `verif-hooks` feature.
//!
//! C05 "exceeding a size limit (registers, locals ...) is reported as a compile error",
//! C06 no panic, C02 the register layout of arguments, captures and unpacked names.
use crate::{check, harnesses, reach};
use koto_bytecode::verif_hooks::{ArgKind, FrameProbe, Lookup};

const MAX_ARGS: usize = 3;
const MAX_CAPTURES: usize = 2;

harnesses! { frame;

#[kani::unwind(8)]
fn frame_new_layout(s) {
    // full domain in local_count; BOUNDED in the list lengths (<= 3 args, <= 2 captures)
    let local_count = s.u8();
    let nargs = (s.u8() % (MAX_ARGS as u8 + 1)) as usize;
    let ncaps = (s.u8() % (MAX_CAPTURES as u8 + 1)) as usize;
    let mut args = [ArgKind::Placeholder; MAX_ARGS];
    let mut i = 0;
    while i < MAX_ARGS {
        args[i] = match s.u8() % 3 {
            0 => ArgKind::Local(10 + i as u32),
            1 => ArgKind::Unpacked(10 + i as u32),
            _ => ArgKind::Placeholder,
        };
        i += 1;
    }
    let caps = [100u32, 101u32];
    let args = &args[..nargs];
    let caps = &caps[..ncaps];

    let mut placeholders = 0usize;
    let mut toplevel = 0usize;
    let mut unpacked = 0usize;
    let mut i = 0;
    while i < nargs {
        match args[i] {
            ArgKind::Local(_) => toplevel += 1,
            ArgKind::Placeholder => { toplevel += 1; placeholders += 1 }
            ArgKind::Unpacked(_) => unpacked += 1,
        }
        i += 1;
    }
    let total = 1 + local_count as usize + ncaps + placeholders;

    match FrameProbe::new(local_count, args, caps, false) {
        None => {
            check!(s, "Frame::new reports an error only when the locals exceed the register limit", total > u8::MAX as usize);
        }
        Some(frame) => {
            check!(s, "a frame is only created when its locals fit the registers", total <= u8::MAX as usize);
            check!(s, "the first temporary register follows self, locals, captures and unnamed args", frame.temporary_base() as usize == total);
            check!(s, "one local register per self, top-level arg, capture and unpacked name", frame.local_register_count() == 1 + toplevel + ncaps + unpacked);
            // layout: self = 0, top-level args from 1, then captures, then unpacked names
            let mut top_rank = 0usize;
            let mut unpacked_rank = 0usize;
            let mut i = 0;
            while i < nargs {
                match args[i] {
                    ArgKind::Local(id) => {
                        check!(s, "top-level argument i is bound to register 1 + i", frame.get_local_assigned_register(id) == Some((1 + top_rank) as u8));
                        top_rank += 1;
                    }
                    ArgKind::Placeholder => top_rank += 1,
                    ArgKind::Unpacked(id) => {
                        check!(s, "unpacked names follow the captures", frame.get_local_assigned_register(id) == Some((1 + toplevel + ncaps + unpacked_rank) as u8));
                        unpacked_rank += 1;
                    }
                }
                i += 1;
            }
            let mut j = 0;
            while j < ncaps {
                check!(s, "capture j is bound to the register after the top-level args", frame.get_local_assigned_register(caps[j]) == Some((1 + toplevel + j) as u8));
                j += 1;
            }
            check!(s, "an unknown id has no register", frame.get_local_assigned_register(999).is_none());
        }
    }
    reach!(s, "the limit is reachable", total > 255);
}

#[kani::unwind(8)]
fn frame_lookup_contract(s) {
    // the contract V-frame ASSUMES for get_local_assigned_or_reserved_register, checked on the real
    // function; BOUNDED: frames with <= 2 args plus up to 2 reserved/assigned locals
    let nargs = (s.u8() % 3) as usize;
    let args = [ArgKind::Local(10), ArgKind::Local(11)];
    let Some(mut frame) = FrameProbe::new(4, &args[..nargs], &[], false) else { return; };
    let a = 10 + (s.u8() % 4) as u32;
    let b = 10 + (s.u8() % 4) as u32;
    let ra = if s.bool() { frame.reserve_local_register(a) } else { frame.assign_local_register(a) };
    let rb = if s.bool() { frame.reserve_local_register(b) } else { frame.assign_local_register(b) };
    let query = 10 + (s.u8() % 5) as u32;
    let count = frame.local_register_count();
    match frame.get_local_assigned_or_reserved_register(query) {
        Lookup::Assigned(r) | Lookup::Reserved(r) => {
            check!(s, "a found register is a local register", (r as usize) < count);
            check!(s, "a found id was an argument or was reserved/assigned", (query < 10 + nargs as u32) || query == a || query == b);
            if query == a && a >= 10 + nargs as u32 {
                check!(s, "lookup returns the register that reserve/assign returned", ra == Some(r));
            }
            if query == b && b != a && b >= 10 + nargs as u32 {
                check!(s, "lookup returns the register that the second reserve/assign returned", rb == Some(r));
            }
        }
        Lookup::Unassigned => {
            check!(s, "an id without a register was never an argument, reserved or assigned", query >= 10 + nargs as u32 && query != a && query != b);
        }
    }
    if a != b {
        check!(s, "different names never share a register", ra.is_none() || rb.is_none() || ra != rb);
    }
}

}
