//! K-valuekey: identity of map keys (`crates/runtime/src/types/value_key.rs`).
//!
//! C14: "two keys address the same entry exactly when they are equal as values".
//! BOUNDED: keys are numbers and tuples of at most two numbers (the numbers are full-domain).
use crate::{check, harnesses};
use koto_runtime::{KNumber, KTuple, KValue, ValueKey};
use std::hash::{Hash, Hasher};

#[derive(Default)]
struct Recorder(u64, u32);
impl Hasher for Recorder {
    fn finish(&self) -> u64 { self.0 }
    fn write(&mut self, bytes: &[u8]) {
        for b in bytes { self.0 = self.0.rotate_left(8) ^ *b as u64; self.1 += 1; }
    }
    fn write_u64(&mut self, n: u64) { self.0 = self.0.rotate_left(17) ^ n; self.1 += 8; }
}
fn hash_of(k: &ValueKey) -> (u64, u32) {
    let mut r = Recorder::default();
    k.hash(&mut r);
    (r.0, r.1)
}

fn tuple_key(values: &[i64]) -> ValueKey {
    let elements: Vec<KValue> = values.iter().map(|n| KValue::Number(KNumber::I64(*n))).collect();
    ValueKey::new_unchecked(KValue::Tuple(KTuple::from(elements)))
}

harnesses! { valuekey;

#[kani::unwind(4)]
fn valuekey_tuples_equal_iff_same_elements(s) {
    let (a0, a1, b0, b1) = (s.i64(), s.i64(), s.i64(), s.i64());
    let la = (s.u8() % 3) as usize;
    let lb = (s.u8() % 3) as usize;
    let a_values = [a0, a1];
    let b_values = [b0, b1];
    let a = tuple_key(&a_values[..la]);
    let b = tuple_key(&b_values[..lb]);
    let same = la == lb && (la < 1 || a0 == b0) && (la < 2 || a1 == b1);
    check!(s, "tuple keys are equal exactly when they have the same length and equal elements", (a == b) == same);
    check!(s, "key equality is symmetric", (a == b) == (b == a));
    if a == b {
        check!(s, "equal keys hash identically", hash_of(&a) == hash_of(&b));
    }
}

fn valuekey_numbers(s) {
    let (x, y) = (s.i64(), s.i64());
    let a = ValueKey::from(x);
    let b = ValueKey::from(y);
    check!(s, "number keys are equal exactly when the numbers are", (a == b) == (x == y));
    let t = tuple_key(&[x]);
    check!(s, "a number is never the same key as the tuple containing it", !(a == t) && !(t == a));
}

}
