# generates the F4 witness: a `loop` whose body exceeds 64 KiB (backward jump offset truncated before the fix)
lines=['x = 0','n = 0','loop']
for i in range(16000): lines.append('  x += 1')
lines += ['  n += 1','  if n == 2','    break','print x']
print('\n'.join(lines))
