// F2b witness (C14): a sub-tuple must be a subset of the tuple it was made from.
// Place in crates/runtime/tests/ and run `cargo test -p koto_runtime --test F2b_sub_tuple_escapes`.
use koto_runtime::prelude::*;

#[test]
fn sub_tuple_stays_within_its_parent() {
    let t = KTuple::from(vec![KValue::from(1), KValue::from(2), KValue::from(3), KValue::from(4)]);
    let t2 = t.make_sub_tuple(0..2).unwrap();
    assert_eq!(t2.len(), 2);
    // bounds beyond the end of t2 must be rejected, not resolved against the shared data
    assert!(t2.make_sub_tuple(0..4).is_none());
    assert!(t2.make_sub_tuple(1..3).is_none());
    assert_eq!(t2.make_sub_tuple(1..2).unwrap().len(), 1);
}
