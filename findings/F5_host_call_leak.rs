// F5 witness (C07): failing host-initiated calls must not leave registers behind.
// Place in crates/runtime/tests/ and run `cargo test -p koto_runtime --test F5_host_call_leak`.
use koto_bytecode::{Compiler, CompilerSettings};
use koto_runtime::{Ptr, prelude::*};

#[test]
fn failing_host_calls_leave_the_runtime_clean() {
    let mut vm = KotoVm::default();
    let chunk = Compiler::compile(
        "export f = |a| a\nexport g = |x| x + 1",
        None,
        CompilerSettings::default(),
    )
    .unwrap();
    vm.run(Ptr::from(chunk)).unwrap();
    let f = vm.exports().get("f").unwrap();
    let g = vm.exports().get("g").unwrap();
    // 300 failing calls: too few arguments, and a failing operator on host values
    for _ in 0..300 {
        assert!(vm.call_function(f.clone(), &[]).is_err());
        assert!(vm.run_binary_op(BinaryOp::Add, KValue::Null, KValue::Null).is_err());
    }
    // the runtime must behave as if nothing had happened
    let result = vm.call_function(g, &[KValue::from(41)]).unwrap();
    match result {
        KValue::Number(n) => assert_eq!(i64::from(n), 42),
        other => panic!("unexpected result {other:?}"),
    }
}
